"""C10 - nearest-center assignment and per-trajectory bookkeeping are exact.

Clauses (one per sentence / claim of the statement):

  assign            assign_to_nearest_center(): every frame gets a center at minimal distance and the
                    reported distance is exactly the distance to that center (arrays + md.Trajectory/rmsd,
                    fewer / equal / more centers than frames, both code paths)
  predict           estimator.predict() (KCenters / KHybrid / KMedoids) does the same w.r.t. the fitted
                    centers and the fitted metric, and its center_indices obey the per-label rule
  reassign_files    cluster.util.reassign() (the function behind apps/reassign.py) on trajectories on disk
  reassign_batches  the same with the memory fraction chosen so that several batches are needed
  part_values       partition keeps every value in order (row t == flat[start_t:start_t+L_t])
  part_index        flat center index -> (trajectory, frame) addressing the same frame
  part_container    ndarray iff all lengths equal, RaggedArray (with those lengths) otherwise
  part_concat       concatenating the pieces restores the flat arrays; (t, f) maps back to the flat index
  frames_files      (trajectory, frame) pairs obtained from flat indices load the same frame from disk
  find_centers      find_cluster_centers(): one member frame of smallest distance per present label
"""
import math
import os
import shutil
import tempfile
import warnings

import numpy as np
from hypothesis import strategies as st

from vf.harness import Violation, Clause, Info, require, Skip
from vf import ref_c10 as R

import mdtraj as md

from enspara import ra
from enspara.cluster import util as cutil
from enspara.cluster import KCenters, KHybrid, KMedoids
from enspara.exception import DataInvalid

PROPERTY = "C10"
LEVEL = "exploration"
RULE = (
    "Hypothesis draws (a) point sets on a small integer grid (so duplicates and exact ties are common; optional "
    "seeded jitter), 1..12 frames x 1..4 features, dtype float64/float32/int32/int64, C/F/strided layout, center "
    "lists built from copies of frames, new points and duplicated centers in the regimes fewer/equal/more centers "
    "than frames, one center, one frame; metrics libdist euclidean/manhattan and python callables "
    "(chebyshev, discrete, euclidean); or 4..6-atom md.Trajectory frames (perturbed non-planar scaffold, or rotated+translated copies) with md.rmsd and "
    "centers as md.Trajectory (per-frame argmin path when centers outnumber frames) or list of frames; (b) fitted "
    "KCenters (cold/warm, n_clusters and/or radius) / KHybrid / KMedoids(warm) estimators and new data; (c) 1..2 "
    "topology groups x 1..4 tiny trajectories (1..12 frames, 4..6 selected atoms, h5/xtc + pdb, atom selection "
    "'all'/'name CA', 1..8 centers as md.Trajectory or list) in a per-case temp dir for reassign(), with the default "
    "memory fraction or one that makes the batch hold max(len)..total+1 frames; flat indices + stride None/1/2/3 for "
    "load_frames(); (d) trajectory length vectors (equal, unequal, with 1s, single, all 1s) "
    "with flat label/distance arrays and flat center indices placed on first/last/inner frames; (e) label and "
    "distance vectors with non-contiguous labels and tied distances. Oracles: brute-force float64 distance "
    "matrix (Kabsch/SVD for rmsd), literal flat->(traj, frame) search, list slicing. Any minimiser is accepted. "
    "Non-trivial: assign/predict/reassign - >=2 centers of which >=2 are used (reassign: also unequal lengths); "
    "partition clauses - unequal lengths with a center on a trajectory's first or last frame; find_centers - >=2 "
    "labels, one with >=2 members whose minimum is not at its first member. distinct = distinct canonical case JSON.")
ASSUMPTIONS = [
    "at least one center and one frame; trajectory lengths >= 1; flat center indices inside [0, n_frames)",
    "find_cluster_centers is given ndarrays (as every caller in the library does), labels int32/int64",
    "integer feature data keep |value| <= 8 (no overflow in the squared difference; range is C13's subject)",
    "estimators are fitted on inputs where fitting itself is well defined (cold k-centers, warm k-centers that "
    "needs at least one new center, k-medoids with distinct warm-start centers and n_iters >= 1, global numpy RNG "
    "seeded from the case because KMedoids has no random_state); a failing fit is counted as skipped, not judged",
    "rmsd cases use >= 4 atoms on a non-planar scaffold: mdtraj's float32 QCP kernel is inaccurate (1e-2 nm self-"
    "rmsd) on planar / collinear structures, which is the metric's business, not the bookkeeping's",
    "reassign_batches: frac_mem is chosen so that batch_size = int(total_RAM*frac_mem/bytes_per_frame) equals a "
    "drawn frame count >= the longest trajectory (smaller values are rejected by the library by design)",
    "reassign(): pool size pinned with OMP_NUM_THREADS=2 (the library's own knob); data on disk as read back by "
    "mdtraj is the ground truth; rmsd compared on squared values scaled by (|A|^2+|B|^2)/N because float32 rmsd "
    "near 0 has absolute error ~sqrt(eps)",
]
SHARDS = {"quick": 4, "thorough": 16}

RMSD_TOL = 1e-4      # on squared rmsd relative to (|A|^2+|B|^2)/N ; observed <= 1e-6
TOLS = {"float64": (1e-12, 1e-9), "float32": (1e-6, 1e-5), "int32": (1e-12, 1e-9), "int64": (1e-12, 1e-9)}


def close(a, b, tol):
    return abs(a - b) <= tol[0] + tol[1] * max(abs(a), abs(b))


def tol_for(case):
    """(atol, rtol) of the dtype; the absolute part shrinks with the length scale of the data (1e-9 .. 1e-11 units)."""
    t = TOLS[case["dtype"]]
    sc = float(case.get("scale", 1.0))
    return (t[0] * min(1.0, sc), t[1])


# ==========================================================================
# data builders shared by assign / predict

def build_rows(rows, dtype, scale, jitter_seed, stream=0, offset=0.0):
    a = np.array(rows, dtype=np.float64).reshape(len(rows), -1)
    if dtype.startswith("float"):
        a = a * scale + offset
        if jitter_seed is not None:
            a = a + np.random.RandomState(jitter_seed + stream).uniform(-0.3, 0.3, size=a.shape) * scale
    return a.astype(dtype)


def apply_layout(a, layout):
    if layout == "F":
        return np.asfortranarray(a)
    if layout == "strided":
        big = np.zeros((2 * a.shape[0], a.shape[1] + 1), dtype=a.dtype)
        big[::2, :-1] = a
        return big[::2, :-1]
    return np.ascontiguousarray(a)


def build_centers(X, spec, dtype, scale, jitter_seed, offset=0.0):
    new_rows = [s[1] for s in spec if s[0] == "new"]
    newa = build_rows(new_rows, dtype, scale, jitter_seed, stream=1, offset=offset) if new_rows else None
    out, ni = [], 0
    for s in spec:
        if s[0] == "row":
            out.append(np.array(X[s[1]], copy=True))
        elif s[0] == "new":
            out.append(np.array(newa[ni], copy=True))
            ni += 1
        else:
            out.append(np.array(out[s[1]], copy=True))
    return out


def get_metric(name):
    """The callable handed to the library for a metric name."""
    if name in R.PY_METRIC:
        return R.PY_METRIC[name]
    return cutil._get_distance_method(name)


class Recorder:
    """Wraps a metric; remembers every (second argument, result) pair it produced.

    style 'fresh': every call returns a new array (the compiled kernels' behaviour);
    style 'owned_rows': the metric answers from a table it owns and returns the ROW VIEW (a precomputed distance matrix);
    style 'reused_buffer': every result is written into one work vector which is returned (partial(kernel, out=scratch)).
    In the last two the returned storage stays the metric's: it must hold the metric's values afterwards."""

    def __init__(self, fn, style="fresh"):
        self.fn = fn
        self.calls = []
        self.style = style
        self.table = {}
        self.buf = None

    def __call__(self, X, y):
        r = np.asarray(self.fn(X, y))
        self.calls.append((len(X), id(y), np.array(r, dtype=float, copy=True).reshape(-1)))
        if self.style == "owned_rows":
            row = np.array(r, dtype=np.float64, copy=True)
            self.table[len(self.calls) - 1] = (row, row.copy())
            return row
        if self.style == "reused_buffer":
            if self.buf is None or self.buf.shape != r.shape:
                self.buf = np.empty(r.shape, dtype=np.float64)
            self.buf[...] = r
            return self.buf
        return r

    def check_owned(self):
        for k_, (row, orig) in self.table.items():
            require(np.array_equal(row, orig), "assign: the library wrote into an array the metric returned and still owns "
                    "(row %d of its distance table)" % k_, before=orig.tolist()[:6], after=row.tolist()[:6])


@st.composite
def regime_sizes(draw, max_frames, max_centers):
    regime = draw(st.sampled_from(["fewer", "equal", "more", "more", "one_center", "one_frame"]))
    n = draw(st.integers(1, max_frames))
    if regime == "fewer":
        n = max(n, 2)
        k = draw(st.integers(1, n - 1))
    elif regime == "equal":
        k = n
    elif regime == "more":
        k = draw(st.integers(n + 1, n + max(2, max_centers - n)))
    elif regime == "one_center":
        k = 1
    else:
        n = 1
        k = draw(st.integers(1, max_centers))
    return regime, n, k


def int_list(draw, lo, hi, size):
    return draw(st.lists(st.integers(lo, hi), min_size=size, max_size=size))


def draw_md_frames(draw, n, n_atoms):
    spec = []
    for i in range(n):
        if i > 0 and draw(st.sampled_from([True, False, False])):
            spec.append(["copy", draw(st.integers(0, i - 1)), int_list(draw, -5, 5, 3), draw(st.integers(0, 1))])
        else:
            spec.append(["new", int_list(draw, -3, 3, 3 * n_atoms)])
    return spec


def draw_center_spec(draw, k, n, new_size, lo, hi, row_tag="row"):
    spec = []
    for j in range(k):
        tag = draw(st.sampled_from([row_tag, row_tag, "new", "dup"]))
        if tag == "dup" and j == 0:
            tag = row_tag
        if tag == row_tag:
            spec.append([row_tag, draw(st.integers(0, n - 1))])
        elif tag == "new":
            spec.append(["new", int_list(draw, lo, hi, new_size)])
        else:
            spec.append(["dup", draw(st.integers(0, j - 1))])
    return spec


ARRAY_METRICS = ["euclidean", "manhattan", "cityblock", "chebyshev_py", "discrete_py", "euclidean_py", "directed_py"]


@st.composite
def assign_case(draw, max_frames=12, max_centers=16, max_feat=4, md_share=4):
    kind = draw(st.sampled_from(["md"] + ["array"] * (md_share - 1)))
    regime, n, k = draw(regime_sizes(max_frames, max_centers))
    if kind == "array":
        f = draw(st.integers(1, max_feat))
        lo, hi = draw(st.sampled_from([(-1, 1), (-3, 3), (-8, 8)]))
        metric = draw(st.sampled_from(ARRAY_METRICS))
        dtype = draw(st.sampled_from(["float64", "float64", "float32", "int32", "int64"]))
        jitter = None
        if dtype.startswith("float") and draw(st.sampled_from([True, False, False, False])):
            jitter = draw(st.integers(0, 10 ** 6))
        case = {"kind": "array", "regime": regime, "metric": metric, "dtype": dtype,
                "scale": draw(st.sampled_from([1.0, 0.5, 0.25])), "jitter_seed": jitter,
                "layout": draw(st.sampled_from(["C", "F", "strided"])),
                "X": [int_list(draw, lo, hi, f) for _ in range(n)],
                "C": draw_center_spec(draw, k, n, f, lo, hi),
                "centers_as": draw(st.sampled_from(["list", "list", "array", "tuple", "views", "data_itself"])),
                "readonly": draw(st.sampled_from([False, False, True])),
                "metric_style": draw(st.sampled_from(["fresh", "fresh", "owned_rows", "reused_buffer"]))}
        numeric = draw(st.sampled_from(["plain"] * 5 + ["tiny", "offset", "near_tie", "near_tie"]))
        if numeric == "tiny" and dtype.startswith("float"):
            case["scale"] = draw(st.sampled_from([1e-9, 1e-10, 1e-11]))           # coordinates in metres
        elif numeric == "offset" and dtype == "float64":
            case["scale"], case["offset"] = 1e-3, draw(st.sampled_from([1e5, -3e4, 1e6]))   # small spread, large common offset
        elif numeric == "near_tie" and dtype != "float32":
            # two centers a, b and frames whose distances to them differ by one part in 1e5 .. 1e7 (exact in float64)
            # (also values beyond 2**24: exact in int32 / int64 / float64, not in float32)
            L = draw(st.sampled_from([50000, 123457, 600000, 3000000, 30000000, 30000001, 400000000, 400000003]))
            xs = [0, 2 * L + 1, L, L + 1] + [draw(st.integers(-L, 3 * L)) for _ in range(draw(st.integers(0, 4)))]
            case["X"] = [[x] + [0] * (f - 1) for x in xs]
            case["C"] = draw(st.sampled_from([[["row", 0], ["row", 1]], [["row", 1], ["row", 0]]]))
            case["scale"], case["jitter_seed"], case["regime"] = 1.0, None, "near_tie"
        case["numeric"] = numeric
        return case
    n_atoms = draw(st.integers(4, 6))
    return {"kind": "md", "regime": regime, "metric": "rmsd", "n_atoms": n_atoms,
            "X": draw_md_frames(draw, n, n_atoms),
            "C": draw_center_spec(draw, k, n, 3 * n_atoms, -3, 3),
            "centers_as": draw(st.sampled_from(["traj", "traj", "list"]))}


def md_centers_xyz(X, spec, n_atoms):
    base = R.SCAFFOLD[:n_atoms]
    out = []
    for s in spec:
        if s[0] in ("row", "frame"):
            out.append(np.array(X[s[1]], copy=True))
        elif s[0] == "new":
            out.append(((base + np.array(s[1], dtype=np.float64).reshape(n_atoms, 3)) * 0.1).astype(np.float32))
        else:
            out.append(np.array(out[s[1]], copy=True))
    return np.array(out, dtype=np.float32).reshape(len(spec), n_atoms, 3)


def check_nearest(a, d, D, tol, what):
    """a, d: library output; D: brute-force matrix. Any minimiser accepted."""
    n, k = D.shape
    a = np.asarray(a)
    d = np.asarray(d)
    require(a.shape == (n,), "%s: assignments shape" % what, got=a.shape, want=(n,))
    require(d.shape == (n,), "%s: distances shape" % what, got=d.shape, want=(n,))
    require(np.issubdtype(a.dtype, np.integer), "%s: assignments are not integers" % what, dtype=str(a.dtype))
    for i in range(n):
        ai = int(a[i])
        require(0 <= ai < k, "%s: assignment is not a valid center number" % what, frame=i, got=ai, n_centers=k)
        m = float(D[i].min())
        require(D[i, ai] <= m + tol[0] + tol[1] * max(abs(m), abs(D[i, ai])),
                "%s: assigned center is not at minimal distance" % what,
                frame=i, assigned=ai, d_assigned=float(D[i, ai]), d_min=m, argmin=int(D[i].argmin()))
        require(close(float(d[i]), float(D[i, ai]), tol),
                "%s: reported distance is not the distance to the assigned center" % what,
                frame=i, assigned=ai, reported=float(d[i]), true=float(D[i, ai]))


def check_nearest_rmsd(a, d, M, S, what):
    """Same on squared rmsd with error scale S (float32 kernel)."""
    n, k = M.shape
    a = np.asarray(a)
    d = np.asarray(d, dtype=float)
    require(a.shape == (n,), "%s: assignments shape" % what, got=a.shape, want=(n,))
    require(d.shape == (n,), "%s: distances shape" % what, got=d.shape, want=(n,))
    require(np.issubdtype(a.dtype, np.integer), "%s: assignments are not integers" % what, dtype=str(a.dtype))
    for i in range(n):
        ai = int(a[i])
        require(0 <= ai < k, "%s: assignment is not a valid center number" % what, frame=i, got=ai, n_centers=k)
        j = int(M[i].argmin())
        require(M[i, ai] <= M[i, j] + RMSD_TOL * max(S[i, ai], S[i, j]),
                "%s: assigned center is not at minimal rmsd" % what,
                frame=i, assigned=ai, rmsd_assigned=math.sqrt(M[i, ai]), rmsd_min=math.sqrt(M[i, j]), argmin=j)
        require(np.isfinite(d[i]) and d[i] >= 0 and abs(d[i] ** 2 - M[i, ai]) <= RMSD_TOL * S[i, ai],
                "%s: reported rmsd is not the rmsd to the assigned center" % what,
                frame=i, assigned=ai, reported=float(d[i]), true=math.sqrt(M[i, ai]))


def run_assign(case):
    if case["kind"] == "array":
        dtype, tol = case["dtype"], tol_for(case)
        X = apply_layout(build_rows(case["X"], dtype, case["scale"], case["jitter_seed"], offset=case.get("offset", 0.0)),
                         case["layout"])
        C = build_centers(X, case["C"], dtype, case["scale"], case["jitter_seed"], offset=case.get("offset", 0.0))
        Xr = np.array(X, dtype=np.float64)
        D = R.dist_matrix(Xr, [np.array(c, dtype=np.float64) for c in C], case["metric"])
        rec = Recorder(get_metric(case["metric"]), case.get("metric_style", "fresh"))
        if case["centers_as"] == "data_itself":
            # the data set assigned to itself (every frame is a center): the very same array object on both sides
            C = [X[i] for i in range(len(X))]
            D = R.dist_matrix(Xr, [np.array(c, dtype=np.float64) for c in C], case["metric"])
            centers = X
        elif case["centers_as"] == "views":
            # centers handed over as views of the data rows (what `[X[i] for i in center_indices]` gives)
            centers = [X[sp[1]] if sp[0] == "row" else c for sp, c in zip(case["C"], C)]
            C = list(centers)
        elif case["centers_as"] == "array":
            centers = np.array(C, dtype=dtype).reshape(len(C), -1)
        elif case["centers_as"] == "tuple":
            centers = tuple(C)
        else:
            centers = list(C)
        if case.get("readonly"):
            (X.base if isinstance(X.base, np.ndarray) else X).flags.writeable = False
            X.flags.writeable = False
        x_before = np.array(X, copy=True)
        c_before = [np.array(c, copy=True) for c in (centers if not isinstance(centers, np.ndarray) else [centers])]
        a, d = cutil.assign_to_nearest_center(X, centers, rec)
        require(np.array_equal(X, x_before) and all(np.array_equal(c, b) for c, b in zip(
            (centers if not isinstance(centers, np.ndarray) else [centers]), c_before)),
            "assign: the data or the centers were modified")
        check_nearest(a, d, D, tol, "assign")
        rec.check_owned()
        # exactness against the values the supplied metric actually returned
        exact = "skipped"
        if case["centers_as"] in ("list", "tuple", "views"):
            ids = {id(c): j for j, c in enumerate(C)}
            cols = {}
            ok = True
            for (nx, yid, r) in rec.calls:
                if nx != len(X) or yid not in ids or len(r) != len(X):
                    ok = False
                    break
                cols[ids[yid]] = r
            if ok and len(cols) == len(C):
                Rm = np.array([cols[j] for j in range(len(C))]).T
                for i in range(len(X)):
                    require(float(d[i]) == float(Rm[i, int(a[i])]),
                            "assign: reported distance is not bit-identical to the metric's value for the "
                            "assigned center", frame=i, reported=float(d[i]), metric_value=float(Rm[i, int(a[i])]))
                    require(float(Rm[i, int(a[i])]) == float(Rm[i].min()),
                            "assign: assigned center does not attain the minimum of the metric's own values",
                            frame=i, assigned=int(a[i]), row=Rm[i].tolist())
                exact = "checked"
        ties = bool(any(np.sum(np.abs(D[i] - D[i].min()) <= tol[0] + tol[1] * abs(D[i].min())) > 1
                        for i in range(len(X))))
        used = len(set(int(x) for x in a))
        cl = ["kind=array", "regime=" + case["regime"], "metric=" + case["metric"], "dtype=" + dtype,
              "layout=" + case["layout"], "centers_as=" + case["centers_as"], "exact=" + exact,
              "ties=%s" % ties, "jitter=%s" % (case["jitter_seed"] is not None), "numeric=" + case.get("numeric", "plain"),
              "metric_style=" + case.get("metric_style", "fresh"),
              "dup_frames=%s" % (len({tuple(r) for r in Xr.tolist()}) < len(X))]
        return Info(len(C) >= 2 and used >= 2, cl)

    n_atoms = case["n_atoms"]
    X = R.frames_from_spec(case["X"], R.SCAFFOLD[:n_atoms])
    Cx = md_centers_xyz(X, case["C"], n_atoms)
    top = R.make_topology(["CA"] * n_atoms)
    M, S = R.rmsd_matrices(X, Cx)
    traj = md.Trajectory(X.copy(), top)
    if case["centers_as"] == "traj":
        centers = md.Trajectory(Cx.copy(), top)
    else:
        centers = [md.Trajectory(Cx[j:j + 1].copy(), top) for j in range(len(Cx))]
    a, d = cutil.assign_to_nearest_center(traj, centers, md.rmsd)
    check_nearest_rmsd(a, d, M, S, "assign(rmsd)")
    used = len(set(int(x) for x in a))
    path = "per_frame" if (case["centers_as"] == "traj" and len(Cx) > len(X)) else "sweep"
    cl = ["kind=md", "regime=" + case["regime"], "metric=rmsd", "centers_as=" + case["centers_as"],
          "md_path=" + path, "copies=%s" % any(s[0] == "copy" for s in case["X"])]
    return Info(len(Cx) >= 2 and used >= 2, cl)



# ==========================================================================
# thousands of centers in one md.Trajectory, a handful of frames (the frame-by-frame route of the assignment)

@st.composite
def many_centers_case(draw):
    return {"n_centers": draw(st.sampled_from([2047, 2048, 2049, 2500, 4100])), "n_frames": draw(st.integers(1, 12)),
            "n_atoms": draw(st.integers(4, 6)), "seed": draw(st.integers(0, 2 ** 31 - 1)),
            "hits": draw(st.lists(st.integers(0, 10 ** 6), min_size=1, max_size=12))}


def run_many_centers(case):
    rng = np.random.RandomState(case["seed"])            # seed drawn by Hypothesis
    k, n, na = case["n_centers"], case["n_frames"], case["n_atoms"]
    top = R.make_topology(["CA"] * na)
    Cx = (rng.normal(size=(k, na, 3)) * 0.5).astype(np.float32)
    # every frame is a slightly perturbed copy of one chosen center (mostly late ones): its nearest center is known
    picks = [h % k for h in case["hits"]][:n] + [k - 1] * max(0, n - len(case["hits"]))
    picks = picks[:n]
    X = (Cx[picks] + rng.normal(scale=1e-3, size=(n, na, 3))).astype(np.float32)
    traj = md.Trajectory(X.copy(), top)
    centers = md.Trajectory(Cx.copy(), top)
    a, d = cutil.assign_to_nearest_center(traj, centers, md.rmsd)
    a, d = np.asarray(a), np.asarray(d, dtype=float)
    require(a.shape == (n,) and d.shape == (n,), "assign(rmsd, many centers): wrong shapes", a=a.shape, d=d.shape)
    for i in range(n):
        dist_i = md.rmsd(centers, traj[i]).astype(float)          # distances of frame i to every center
        ai = int(a[i])
        require(0 <= ai < k, "assign(rmsd, many centers): label out of range", got=ai, k=k)
        require(dist_i[ai] <= dist_i.min() + 2e-3, "assign(rmsd, many centers): the assigned center is not at minimal distance",
                frame=i, assigned=ai, d_assigned=float(dist_i[ai]), d_min=float(dist_i.min()), argmin=int(dist_i.argmin()),
                planted=int(picks[i]))
        require(abs(d[i] - dist_i[ai]) <= 2e-3, "assign(rmsd, many centers): reported distance is not the distance to the assigned "
                "center", frame=i, reported=float(d[i]), true=float(dist_i[ai]))
    late = any(p >= 2048 for p in picks)
    return Info(k > 2048 and late, ["many_centers=%d" % k, "late_center_hit=%s" % late], key=[case[k_] for k_ in sorted(case)])

# ==========================================================================
# predict

@st.composite
def predict_case(draw, max_train=14, max_new=10):
    est = draw(st.sampled_from(["kcenters", "kcenters", "khybrid", "kmedoids"]))
    kind = "md" if (est == "kcenters" and draw(st.sampled_from([True, False, False, False]))) else "array"
    n = draw(st.integers(2, max_train))
    m = draw(st.integers(1, max_new))
    seed = draw(st.integers(0, 2 ** 31 - 1))
    if kind == "md":
        n_atoms = draw(st.integers(4, 5))
        train = draw_md_frames(draw, n, n_atoms)
        new = []
        for _ in range(m):
            if draw(st.booleans()):
                new.append(["train", draw(st.integers(0, n - 1)), int_list(draw, -5, 5, 3)])
            else:
                new.append(["new", int_list(draw, -3, 3, 3 * n_atoms)])
        stop = draw(st.sampled_from(["n", "radius"]))
        return {"kind": "md", "est": est, "metric": "rmsd", "n_atoms": n_atoms, "train": train, "new": new,
                "n_clusters": draw(st.integers(1, min(n, 6))) if stop == "n" else None,
                "radius": draw(st.sampled_from([0.2, 0.5, 0.8])) if stop == "radius" else None,
                "seed": seed, "init": None}
    f = draw(st.integers(1, 3))
    lo, hi = draw(st.sampled_from([(-2, 2), (-4, 4), (-8, 8)]))
    metric = draw(st.sampled_from(ARRAY_METRICS))
    dtype = draw(st.sampled_from(["float64", "float64", "float32", "int32", "int64"]))
    scale = draw(st.sampled_from([1.0, 0.5]))
    train = [int_list(draw, lo, hi, f) for _ in range(n)]
    new = []
    for _ in range(m):
        if draw(st.sampled_from([True, False, False])):
            new.append(list(train[draw(st.integers(0, n - 1))]))
        else:
            new.append(int_list(draw, lo, hi, f))
    distinct = sorted({tuple(r) for r in train})
    case = {"kind": "array", "est": est, "metric": metric, "dtype": dtype, "scale": scale, "train": train,
            "new": new, "seed": seed, "init": None, "n_clusters": None, "radius": None,
            "new_as": draw(st.sampled_from(["C", "F", "strided"])),
            # what the user's own function happens to be CALLED (def euclidean(X, y): ... in the user's script) says nothing
            # about what it computes
            "fn_name": draw(st.sampled_from([None, None, "euclidean", "manhattan", "rmsd", "metric"]))}
    numeric = draw(st.sampled_from(["plain"] * 4 + ["tiny", "offset"]))
    if numeric == "tiny" and dtype.startswith("float"):
        case["scale"] = scale = draw(st.sampled_from([1e-9, 1e-10]))
    elif numeric == "offset" and dtype == "float64":
        case["scale"], case["offset"] = 1e-3, draw(st.sampled_from([1e5, -3e4, 1e6]))
        scale = 1e-3
    case["numeric"] = numeric
    # life of the estimator object before the observed fit/predict: fresh, or already fitted to (and asked to predict
    # on) other data with another number of centers
    case["life"] = draw(st.sampled_from(["fresh", "fresh", "refit"]))
    if est == "kmedoids":
        # warm start on centers with distinct coordinates (a cold start draws from OS entropy)
        k = draw(st.integers(1, min(len(distinct), 5)))
        chosen = draw(st.permutations(range(len(distinct))))[:k]
        case["init"] = [train.index(list(distinct[c])) for c in chosen]
        case["n_iters"] = draw(st.integers(1, 2))
        return case
    stop = draw(st.sampled_from(["n", "n", "radius", "both"]))
    if stop in ("n", "both"):
        case["n_clusters"] = draw(st.integers(1, min(n, 8)))
    if stop in ("radius", "both"):
        case["radius"] = draw(st.sampled_from([0.5, 1.0, 2.0, 3.0])) * scale
    if est == "khybrid":
        case["n_iters"] = draw(st.integers(0, 2))
    elif stop == "n" and len(distinct) >= 2 and draw(st.booleans()):
        # warm k-centers: init centers leave at least one point uncovered and one more center is requested
        k0 = draw(st.integers(1, min(len(distinct) - 1, 4)))
        chosen = draw(st.permutations(range(len(distinct))))[:k0]
        case["init"] = [train.index(list(distinct[c])) for c in chosen]
        case["n_clusters"] = k0 + draw(st.integers(1, 3))
    return case


def metric_arg(name, fn_name=None):
    """What the user passes as `metric=`: library names as strings, own metrics as callables (plain functions whose
    `__name__` is whatever the user chose)."""
    if name not in R.PY_METRIC:
        return name
    inner = R.PY_METRIC[name]
    if fn_name is None:
        return inner

    def user_function(X, y):
        return inner(X, y)
    user_function.__name__ = user_function.__qualname__ = fn_name
    return user_function


def check_center_finder(labels, dists, got, what):
    labels = np.asarray(labels)
    dists = np.asarray(dists)
    got = np.asarray(got)
    present = sorted(set(int(x) for x in labels))
    require(got.shape == (len(present),), "%s: one index per present label expected" % what,
            got=got.tolist(), labels_present=present)
    for pos, lab in enumerate(present):
        idx = int(got[pos])
        require(0 <= idx < len(labels), "%s: index out of range" % what, label=lab, index=idx)
        require(int(labels[idx]) == lab, "%s: returned frame is not a member of the label" % what,
                label=lab, index=idx, label_of_index=int(labels[idx]))
        members = [i for i in range(len(labels)) if int(labels[i]) == lab]
        best = min(float(dists[i]) for i in members)
        require(float(dists[idx]) == best, "%s: returned member is not of smallest distance in its label" % what,
                label=lab, index=idx, dist=float(dists[idx]), smallest=best)


def run_predict(case):
    seed = case["seed"]
    if case["kind"] == "md":
        n_atoms = case["n_atoms"]
        top = R.make_topology(["CA"] * n_atoms)
        base = R.SCAFFOLD[:n_atoms]
        Xtr = R.frames_from_spec(case["train"], base)
        new = []
        for s in case["new"]:
            if s[0] == "train":
                new.append((Xtr[s[1]].astype(np.float64) + np.array(s[2]) * 0.1).astype(np.float32))
            else:
                new.append(((base + np.array(s[1], dtype=np.float64).reshape(n_atoms, 3)) * 0.1).astype(np.float32))
        Xnew = np.array(new, dtype=np.float32).reshape(len(new), n_atoms, 3)
        train = md.Trajectory(Xtr.copy(), top)
        newt = md.Trajectory(Xnew.copy(), top)
        centred = case["seed"] % 3 == 0
        if centred:
            # a caller that superposed / centred its trajectories beforehand (mdtraj then carries cached per-frame traces
            # along, also on slices); RMSD does not depend on where the frames sit
            train.center_coordinates()
            newt.center_coordinates()
        est = KCenters("rmsd", n_clusters=case["n_clusters"], cluster_radius=case["radius"])
        try:
            est.fit(train)
        except Exception as e:        # fitting is the subject of C01/C02, not of this property
            raise Skip("fit failed: %r" % (e,))
        centers = est.centers_
        Cx = np.array([c.xyz[0] for c in centers], dtype=np.float32)
        res = est.predict(newt)
        M, S = R.rmsd_matrices(Xnew, Cx)
        check_nearest_rmsd(res.assignments, res.distances, M, S, "predict(rmsd)")
        check_center_finder(res.assignments, res.distances, res.center_indices, "predict(rmsd).center_indices")
        require(res.centers is est.centers_ or list(res.centers) == list(est.centers_),
                "predict: result does not carry the fitted centers")
        used = len(set(int(x) for x in res.assignments))
        cl = ["kind=md", "est=kcenters", "metric=rmsd", "centred_beforehand=%s" % centred,
              "stop=%s" % ("n" if case["radius"] is None else "radius"),
              "rel=%s" % ("more_centers" if len(Cx) > len(Xnew) else "fewer_or_equal")]
        return Info(len(Cx) >= 2 and used >= 2, cl)

    dtype, tol = case["dtype"], tol_for(case)
    off = case.get("offset", 0.0)
    Xtr = build_rows(case["train"], dtype, case["scale"], None, offset=off)
    Xnew = apply_layout(build_rows(case["new"], dtype, case["scale"], None, offset=off), case["new_as"])
    m = metric_arg(case["metric"], case.get("fn_name"))
    np.random.seed(seed % (2 ** 32))           # KMedoids proposals use the global numpy RNG
    refit = case.get("life") == "refit"

    def first_life(est, **fit_kw):
        """an earlier fit + predict of the same estimator object on other data (reversed, shifted by one lattice step)"""
        if not refit:
            return
        other = (Xtr[::-1].astype(np.float64) + case["scale"]).astype(dtype) if dtype.startswith("float") else \
            np.ascontiguousarray(Xtr[::-1] + 1)
        try:
            est.fit(np.ascontiguousarray(other), **fit_kw)
            est.predict(np.ascontiguousarray(other[:1]))
            _ = est.centers_
        except Exception:
            pass
    try:
        if case["est"] == "kcenters":
            est = KCenters(m, n_clusters=case["n_clusters"], cluster_radius=case["radius"])
            if refit:
                est.n_clusters = 1 if case["n_clusters"] is None else case["n_clusters"] + 1
                first_life(est)
                est.n_clusters = case["n_clusters"]
            if case["init"] is not None:
                est.fit(Xtr, init_centers=[Xtr[i].copy() for i in case["init"]])
            else:
                est.fit(Xtr)
        elif case["est"] == "khybrid":
            est = KHybrid(m, n_clusters=case["n_clusters"], cluster_radius=case["radius"],
                          kmedoids_updates=case["n_iters"], random_state=seed)
            first_life(est)
            est.fit(Xtr)
        else:
            est = KMedoids(m, n_iters=case["n_iters"])
            first_life(est, cluster_center_inds=[0])
            est.fit(Xtr, cluster_center_inds=[int(i) for i in case["init"]])
    except Exception as e:            # fitting is the subject of C01/C02/C09, not of this property
        raise Skip("fit failed: %r" % (e,))
    # "the given list of centers" of predict is what the LAST fit produced (its result record), which is also what the
    # centers_ attribute has to show
    centers = est.result_.centers
    C = [np.array(c, dtype=np.float64).reshape(-1) for c in centers]
    require(len(C) >= 1, "fitted estimator has no centers")
    shown = est.centers_
    require(len(shown) == len(C) and all(np.array_equal(np.asarray(x).reshape(-1), y) for x, y in zip(shown, C)),
            "centers_ does not show the centers of the last fit", shown=len(shown), fitted=len(C), life=case.get("life"))
    res = est.predict(Xnew)
    D = R.dist_matrix(np.array(Xnew, dtype=np.float64), C, case["metric"])
    check_nearest(res.assignments, res.distances, D, tol, "predict")
    check_center_finder(res.assignments, res.distances, res.center_indices, "predict.center_indices")
    require(res.centers is est.centers_ or all(np.array_equal(x, y) for x, y in zip(res.centers, est.centers_)),
            "predict: result does not carry the fitted centers")
    used = len(set(int(x) for x in res.assignments))
    stop = "warm" if (case["est"] == "kcenters" and case["init"] is not None) else \
        ("n" if case["radius"] is None else ("radius" if case["n_clusters"] is None else "both"))
    cl = ["kind=array", "est=" + case["est"], "metric=" + case["metric"], "dtype=" + dtype, "stop=" + stop,
          "rel=%s" % ("more_centers" if len(C) > len(Xnew) else "fewer_or_equal"),
          "n_iters=%s" % case.get("n_iters"), "numeric=" + case.get("numeric", "plain"), "life=" + case.get("life", "fresh")]
    return Info(len(C) >= 2 and used >= 2, cl)


# ==========================================================================
# find_cluster_centers

@st.composite
def find_case(draw, max_n=20):
    n = draw(st.integers(1, max_n))
    nlab = draw(st.integers(1, 5))
    if draw(st.sampled_from([True, False, False])):
        labset = list(range(nlab))
    else:
        labset = draw(st.lists(st.integers(0, 12), min_size=nlab, max_size=nlab, unique=True))
    labels = [labset[draw(st.integers(0, nlab - 1))] for _ in range(n)]
    mode = draw(st.sampled_from(["grid", "grid", "tenths", "seeded"]))
    if mode == "grid":
        dists = [draw(st.integers(0, 5)) * 0.5 for _ in range(n)]
    elif mode == "tenths":
        dists = [draw(st.integers(0, 30)) / 10.0 for _ in range(n)]
    else:
        dists = np.random.RandomState(draw(st.integers(0, 10 ** 6))).uniform(0, 3, size=n).tolist()
    # labels are small numbers and often stored in a narrow integer type; frame indices are not small
    return {"labels": labels, "dists": dists, "ldtype": draw(st.sampled_from(["int64", "int64", "int32", "int8", "uint8", "int16"])),
            "ddtype": draw(st.sampled_from(["float64", "float64", "float32"])),
            "mismatch": draw(st.sampled_from([False] * 14 + [True]))}


def run_find(case):
    labels = np.array(case["labels"], dtype=case["ldtype"])
    dists = np.array(case["dists"], dtype=case["ddtype"])
    if case["mismatch"]:
        try:
            cutil.find_cluster_centers(labels, np.append(dists, dists[:1]))
        except DataInvalid:
            return Info(False, ["mismatch=rejected"])
        require(False, "find_cluster_centers accepted label / distance vectors of different length")
    got = cutil.find_cluster_centers(labels, dists)
    check_center_finder(labels, dists, got, "find_cluster_centers")
    present = sorted(set(case["labels"]))
    nt = False
    tied = False
    for lab in present:
        mem = [i for i, x in enumerate(case["labels"]) if x == lab]
        vals = [float(dists[i]) for i in mem]
        if len(mem) >= 2 and vals.index(min(vals)) != 0:
            nt = True
        if vals.count(min(vals)) > 1:
            tied = True
    cl = ["n_labels=%d" % min(len(present), 4), "contiguous=%s" % (present == list(range(len(present)))),
          "tied_min=%s" % tied, "ldtype=" + case["ldtype"], "ddtype=" + case["ddtype"]]
    return Info(len(present) >= 2 and nt, cl)


# ==========================================================================
# partition

def draw_lengths(draw, max_traj=6, max_len=7):
    shape = draw(st.sampled_from(["equal", "unequal", "unequal", "with_ones", "single", "all_ones"]))
    if shape == "equal":
        nt = draw(st.integers(2, max_traj))
        lengths = [draw(st.integers(2, max_len))] * nt
    elif shape == "single":
        lengths = [draw(st.integers(1, max_len))]
    elif shape == "all_ones":
        lengths = [1] * draw(st.integers(2, max_traj))
    else:
        nt = draw(st.integers(2, max_traj))
        lengths = [draw(st.integers(1, max_len)) for _ in range(nt)]
        if shape == "with_ones":
            lengths[draw(st.integers(0, nt - 1))] = 1
        if all(x == lengths[0] for x in lengths):
            j = draw(st.integers(0, nt - 1))
            lengths[j] = lengths[j] + 1
    return shape, lengths


def draw_flat_indices(draw, lengths, kmax=6):
    starts = [sum(lengths[:t]) for t in range(len(lengths))]
    k = draw(st.integers(1, kmax))
    idx, where = [], []
    for _ in range(k):
        t = draw(st.integers(0, len(lengths) - 1))
        pos = draw(st.sampled_from(["first", "last", "any"]))
        f = 0 if pos == "first" else lengths[t] - 1 if pos == "last" else draw(st.integers(0, lengths[t] - 1))
        idx.append(starts[t] + f)
    return idx


@st.composite
def part_case(draw, max_traj=6, max_len=7, narrow=False):
    shape, lengths = draw_lengths(draw, max_traj, max_len)
    if narrow and shape not in ("single",) and draw(st.integers(0, 3)) > 0:
        # mostly long trajectories: every length fits an 8-bit table, the running total of a few of them does not
        lengths = [max(L, draw(st.integers(max_len // 2, max_len))) for L in lengths]
        if all(x == lengths[0] for x in lengths) and shape != "equal" and len(lengths) > 1:
            lengths[0] -= 1
    n = sum(lengths)
    ncl = draw(st.integers(1, 6))
    dmode = draw(st.sampled_from(["quarters", "tenths"]))
    return {"shape": shape, "lengths": lengths,
            "assign": int_list(draw, 0, ncl - 1, n),
            "dists": [x / (4.0 if dmode == "quarters" else 10.0) for x in int_list(draw, 0, 60, n)],
            "center_idx": draw_flat_indices(draw, lengths),
            "lengths_as": draw(st.sampled_from(["int8", "uint8", "uint8", "int16", "uint16"] if narrow else
                                               ["list", "int64", "int32", "tuple"])),
            "idx_as": draw(st.sampled_from(["list", "array", "np_ints"])),
            "adtype": draw(st.sampled_from(["int64", "int32"])),
            "ddtype": draw(st.sampled_from(["float64", "float32"]))}


@st.composite
def bad_lengths_case(draw):
    """trajectory lengths that do NOT add up to the number of frames of the flat result (e.g. unstrided lengths next to
    subsampled data): there is no way to split the result by them"""
    c = draw(part_case())
    n = sum(c["lengths"])
    kind = draw(st.sampled_from(["equal_fewer", "equal_more", "equal_divisor", "ragged_fewer", "ragged_more"]))
    k = draw(st.integers(1, 4))
    if kind == "equal_divisor":
        divs = [d_ for d_ in range(1, n + 1) if n % d_ == 0]
        L = draw(st.sampled_from(divs))
        reps = n // L + draw(st.sampled_from([-1, 1, 2]))
        bad = [L] * max(reps, 1)
    elif kind.startswith("equal"):
        L = draw(st.integers(1, 7))
        bad = [L] * k
    else:
        bad = [draw(st.integers(1, 7)) for _ in range(k + 1)]
        if len(set(bad)) == 1:
            bad[0] += 1
    if sum(bad) == n:
        bad[-1] += 1
    c["bad_lengths"] = bad
    c["bad_kind"] = kind
    # center indices must address frames of both layouts
    c["center_idx"] = [i for i in c["center_idx"] if i < min(n, sum(bad))] or [0]
    return c


def run_part_bad_lengths(case):
    L, I, A, Dd, centers = part_build(case)
    bad = case["bad_lengths"]
    badL = list(bad) if case["lengths_as"] in ("list", "tuple") else np.array(bad, dtype=case["lengths_as"])
    res0 = cutil.ClusterResult(center_indices=I, distances=Dd, assignments=A, centers=centers)
    try:
        res = res0.partition(badL)
    except Exception as e:
        return Info(True, ["bad_lengths=" + case["bad_kind"], "refused=%s" % type(e).__name__])
    got = [len(r) for r in res.assignments]
    raise Violation("partition() accepted trajectory lengths that do not add up to the number of frames and returned a result | "
                    "n_frames=%d, lengths=%s, returned_row_lengths=%s" % (len(A), list(bad), got))



def part_build(case):
    lengths = case["lengths"]
    la = case["lengths_as"]
    L = list(lengths) if la == "list" else tuple(lengths) if la == "tuple" else np.array(lengths, dtype=la)
    ia = case["idx_as"]
    idx = case["center_idx"]
    I = list(idx) if ia == "list" else np.array(idx, dtype=np.int64) if ia == "array" else [np.int64(i) for i in idx]
    A = np.array(case["assign"], dtype=case["adtype"])
    Dd = np.array(case["dists"], dtype=case["ddtype"])
    centers = [("center", j) for j in range(len(idx))]
    return L, I, A, Dd, centers


def part_info(case):
    lengths, idx = case["lengths"], case["center_idx"]
    uneq = any(x != lengths[0] for x in lengths)
    on_edge = False
    edge = set()
    for i in idx:
        t, f = R.flat_to_pair(i, lengths)
        if f == 0:
            edge.add("first")
        if f == lengths[t] - 1:
            edge.add("last")
    on_edge = bool(edge)
    cl = ["shape=" + case["shape"], "lengths_as=" + case["lengths_as"], "idx_as=" + case["idx_as"],
          "has_len1=%s" % (1 in lengths)] + ["center_on=" + e for e in sorted(edge)]
    return Info(uneq and on_edge, cl)


def rows_of(obj, n_rows):
    return [np.asarray(obj[t]) for t in range(n_rows)]


def do_partition(case):
    L, I, A, Dd, centers = part_build(case)
    res = cutil.ClusterResult(center_indices=I, distances=Dd, assignments=A, centers=centers).partition(L)
    return res, (L, I, A, Dd, centers)


def run_part_values(case):
    lengths = case["lengths"]
    res, (L, I, A, Dd, centers) = do_partition(case)
    for name, got, flat in (("assignments", res.assignments, A), ("distances", res.distances, Dd)):
        require(len(got) == len(lengths), "partition: number of pieces != number of trajectories",
                field=name, got=len(got), want=len(lengths))
        want = R.split_by_lengths(flat.tolist(), lengths)
        rows = rows_of(got, len(lengths))
        for t in range(len(lengths)):
            require(rows[t].shape == (lengths[t],) and rows[t].tolist() == want[t],
                    "partition: piece differs from the corresponding stretch of the flat array",
                    field=name, traj=t, got=rows[t].tolist(), want=want[t])
    # the helper used for it, on a list, an array and 2-d frame data
    flat_list = list(case["assign"])
    pieces = ra.partition_list(flat_list, L)
    require([list(p) for p in pieces] == R.split_by_lengths(flat_list, lengths),
            "partition_list(list): pieces differ", got=[list(p) for p in pieces])
    X2 = np.arange(2 * len(flat_list)).reshape(len(flat_list), 2)
    pieces = ra.partition_list(X2, L)
    require(len(pieces) == len(lengths) and
            [np.asarray(p)[:, 0].tolist() for p in pieces] == R.split_by_lengths(X2[:, 0].tolist(), lengths),
            "partition_list(2-d array): pieces differ")
    return part_info(case)


def run_part_index(case):
    lengths, idx = case["lengths"], case["center_idx"]
    res, (L, I, A, Dd, centers) = do_partition(case)
    want = [R.flat_to_pair(i, lengths) for i in idx]
    for what, got in (("partition().center_indices", res.center_indices),
                      ("partition_indices()", ra.partition_indices(I, L))):
        require(len(got) == len(idx), "%s: one (trajectory, frame) pair per center expected" % what,
                got=len(got), want=len(idx))
        for j in range(len(idx)):
            pair = got[j]
            require(hasattr(pair, "__len__") and len(pair) == 2,
                    "%s: entry is not a (trajectory, frame) pair" % what, entry=repr(pair))
            t, f = int(pair[0]), int(pair[1])
            require((t, f) == want[j], "%s: pair does not address the frame with that flat index" % what,
                    flat_index=idx[j], lengths=lengths, got=(t, f), want=want[j])
            require(0 <= t < len(lengths) and 0 <= f < lengths[t], "%s: pair outside its trajectory" % what,
                    got=(t, f), lengths=lengths)
    # address real per-trajectory data with the pairs: must give the frame the flat index gives
    flat = np.arange(sum(lengths)) * 7 + 3
    trajs = R.split_by_lengths(flat.tolist(), lengths)
    for j, pair in enumerate(res.center_indices):
        require(trajs[int(pair[0])][int(pair[1])] == int(flat[idx[j]]),
                "pair addresses a different frame than the flat index", flat_index=idx[j], pair=(int(pair[0]), int(pair[1])))
    return part_info(case)


def run_part_container(case):
    lengths = case["lengths"]
    res, _ = do_partition(case)
    equal = all(x == lengths[0] for x in lengths)
    for name, got in (("assignments", res.assignments), ("distances", res.distances)):
        if equal:
            require(isinstance(got, np.ndarray), "equal lengths must give a rectangular ndarray",
                    field=name, got=type(got).__name__, lengths=lengths)
            require(got.shape == (len(lengths), lengths[0]), "rectangular result has the wrong shape",
                    field=name, got=got.shape, want=(len(lengths), lengths[0]))
            require(got.dtype != object, "rectangular result is an object array", field=name)
        else:
            require(isinstance(got, ra.RaggedArray), "unequal lengths must give a RaggedArray",
                    field=name, got=type(got).__name__, lengths=lengths)
            require([int(x) for x in got.lengths] == list(lengths), "RaggedArray has other lengths",
                    field=name, got=[int(x) for x in got.lengths], want=list(lengths))
            require(len(got) == len(lengths), "RaggedArray has the wrong number of rows", field=name)
    require(isinstance(res, cutil.ClusterResult), "partition does not return a ClusterResult")
    return part_info(case)


def run_part_concat(case):
    lengths, idx = case["lengths"], case["center_idx"]
    res, (L, I, A, Dd, centers) = do_partition(case)
    for name, got, flat in (("assignments", res.assignments, A), ("distances", res.distances, Dd)):
        cat = np.concatenate([np.asarray(r).reshape(-1) for r in rows_of(got, len(got))])
        require(cat.shape == flat.shape and np.array_equal(cat, flat),
                "concatenating the pieces does not restore the flat array", field=name,
                got=cat.tolist(), want=flat.tolist())
        if isinstance(got, ra.RaggedArray):
            fl = np.asarray(got.flatten())
            require(np.array_equal(fl, flat), "RaggedArray.flatten() does not restore the flat array", field=name)
    starts = [sum(lengths[:t]) for t in range(len(lengths))]
    require(len(res.center_indices) == len(idx) and
            all(hasattr(p, "__len__") and len(p) == 2 for p in res.center_indices),
            "partitioned center indices are not one (trajectory, frame) pair per center",
            got=repr(list(res.center_indices)))
    back = [starts[int(t)] + int(f) for t, f in res.center_indices]
    require(back == list(idx), "sum(lengths[:traj]) + frame does not restore the flat center indices",
            got=back, want=list(idx), lengths=lengths)
    require(res.centers is centers, "partition does not pass the centers through unchanged")
    return part_info(case)


def exhaustive_index(tier, shard, nshards):
    """Every length vector with <= 4 trajectories of length 1..3, every flat index as a center."""
    import itertools

    def gen():
        k = 0
        for nt in range(1, 5):
            for lengths in itertools.product((1, 2, 3), repeat=nt):
                for las, ias in (("list", "list"), ("int64", "array")):
                    k += 1
                    if k % nshards != shard:
                        continue
                    n = sum(lengths)
                    yield {"shape": "exh", "lengths": list(lengths), "assign": [i % 3 for i in range(n)],
                           "dists": [i / 4.0 for i in range(n)], "center_idx": list(range(n)),
                           "lengths_as": las, "idx_as": ias, "adtype": "int64", "ddtype": "float64"}
    return gen()


# ==========================================================================
# files: load_frames addressing and reassign

def draw_distinct_frames(draw, n, n_atoms):
    return [["new", int_list(draw, -3, 3, 3 * n_atoms)] for _ in range(n)]


@st.composite
def frames_files_case(draw):
    n_atoms = draw(st.integers(4, 5))
    ntraj = draw(st.integers(1, 4))
    lens = [draw(st.sampled_from([1, 1, 2, 3, 4, 5, 6, 7, 8])) for _ in range(ntraj)]
    stride = draw(st.sampled_from([None, 1, 1, 2, 3]))
    s = stride or 1
    slens = [-(-L // s) for L in lens]
    return {"n_atoms": n_atoms, "lens": lens, "stride": stride, "fmt": draw(st.sampled_from(["h5", "xtc"])),
            "frames": [draw_distinct_frames(draw, L, n_atoms) for L in lens],
            "flat_idx": draw_flat_indices(draw, slens, kmax=5)}


def run_frames_files(case):
    n_atoms, lens, stride = case["n_atoms"], case["lens"], case["stride"]
    s = stride or 1
    slens = [-(-L // s) for L in lens]
    top = R.make_topology(["CA"] * n_atoms)
    xyz, g = [], 0
    for fr in case["frames"]:
        x = R.frames_from_spec(fr, R.SCAFFOLD[:n_atoms]).astype(np.float64)
        for i in range(len(x)):                       # make every frame of the data set distinct
            x[i, :, 0] += 0.5 * g
            g += 1
        xyz.append(x.astype(np.float32))
    d = tempfile.mkdtemp(prefix="c10-frames-")
    try:
        with warnings.catch_warnings():
            warnings.simplefilter("ignore")
            files = R.write_trajs(d, xyz, top, case["fmt"])
            pdb = R.write_pdb(d, xyz[0][0], top)
            kw = {} if case["fmt"] == "h5" else {"top": pdb}
            ondisk = [md.load(f, **kw).xyz for f in files]
            pairs = ra.partition_indices(case["flat_idx"], slens)
            require(len(pairs) == len(case["flat_idx"]), "partition_indices lost an index")
            frames = cutil.load_frames(files, pairs, stride=stride, **kw)
        require(len(frames) == len(pairs), "load_frames: one frame per pair expected", got=len(frames))
        strided_cat = np.concatenate([x[::s] for x in ondisk])
        for j, fr in enumerate(frames):
            require(fr.n_frames == 1, "load_frames: entry is not a single frame")
            require(np.array_equal(fr.xyz[0], strided_cat[case["flat_idx"][j]]),
                    "the (trajectory, frame) pair loads a different frame than the flat index addresses",
                    flat_index=case["flat_idx"][j], pair=(int(pairs[j][0]), int(pairs[j][1])), stride=stride,
                    lengths=slens)
    finally:
        shutil.rmtree(d, ignore_errors=True)
    uneq = any(x != slens[0] for x in slens)
    edge = False
    for i in case["flat_idx"]:
        t, f = R.flat_to_pair(i, slens)
        edge = edge or f == 0 or f == slens[t] - 1
    return Info(uneq and edge, ["fmt=" + case["fmt"], "stride=%s" % stride, "ntraj=%d" % len(lens),
                                "has_len1=%s" % (1 in slens)])


@st.composite
def reassign_case(draw, batches=False, max_len=12):
    n_sel = draw(st.integers(4, 6))
    ngroups = draw(st.sampled_from([1, 1, 2]))
    groups = []
    total_traj = 0
    for g in range(ngroups):
        extra = draw(st.integers(0, 2))
        names = ["CA"] * n_sel
        for e in range(extra):
            names.insert(draw(st.integers(0, len(names))), "CB")
        sel = "name CA" if extra else draw(st.sampled_from(["all", "name CA"]))
        ntraj = draw(st.integers(1, 4 if ngroups == 1 else 2))
        lshape = draw(st.sampled_from(["any", "any", "equal", "ones"]))
        if lshape == "equal":
            lens = [draw(st.integers(1, max_len))] * ntraj
        elif lshape == "ones":
            lens = [draw(st.sampled_from([1, 1, 2])) for _ in range(ntraj)]
        else:
            lens = [draw(st.integers(1, max_len)) for _ in range(ntraj)]
        trajs = [draw_md_frames(draw, L, len(names)) for L in lens]
        groups.append({"names": names, "sel": sel, "fmt": draw(st.sampled_from(["h5", "xtc"])), "trajs": trajs})
        total_traj += ntraj
    all_lens = [len(t) for g in groups for t in g["trajs"]]
    total = sum(all_lens)
    k = draw(st.integers(1, 8))
    centers = draw_center_spec(draw, k, total, 3 * n_sel, -3, 3, row_tag="frame")
    case = {"n_sel": n_sel, "groups": groups, "centers": centers,
            "centers_as": draw(st.sampled_from(["traj", "list"])), "batch_frames": None}
    if batches:
        mx = max(all_lens)
        choice = draw(st.sampled_from(["max", "first", "max+1", "mid", "total", "total+1"]))
        bf = {"max": mx, "first": max(mx, all_lens[0]), "max+1": mx + 1,
              "mid": max(mx, (mx + total) // 2), "total": max(mx, total), "total+1": total + 1}[choice]
        case["batch_frames"] = int(bf)
    return case


def run_reassign(case):
    import psutil
    n_sel = case["n_sel"]
    d = tempfile.mkdtemp(prefix="c10-reassign-")
    old_omp = os.environ.get("OMP_NUM_THREADS")
    old_nx = os.environ.get("NUMEXPR_NUM_THREADS")
    os.environ["OMP_NUM_THREADS"] = "2"          # auto_nprocs(): size of the pools reassign() creates
    os.environ["NUMEXPR_NUM_THREADS"] = "1"      # keeps numexpr (imported by workers) from reading OMP_NUM_THREADS
    try:
        with warnings.catch_warnings():
            warnings.simplefilter("ignore")
            tops, trjs, atoms, blocks = [], [], [], []
            for gi, g in enumerate(case["groups"]):
                top = R.make_topology(g["names"])
                xyz = [R.frames_from_spec(t, R.base_for(g["names"])) for t in g["trajs"]]
                files = R.write_trajs(d, xyz, top, g["fmt"], tag="g%d_" % gi)
                pdb = R.write_pdb(d, xyz[0][0], top, name="top%d.pdb" % gi)
                sel = top.select(g["sel"])
                require(len(sel) == n_sel, "generator: selection size")       # generator invariant
                kw = {} if g["fmt"] == "h5" else {"top": pdb}
                for f in files:
                    blocks.append(md.load(f, **kw).xyz[:, sel].astype(np.float32))
                tops.append(pdb)
                trjs.append(files)
                atoms.append(g["sel"])
            lengths = [len(b) for b in blocks]
            X = np.concatenate(blocks)
            Cx = md_centers_xyz(X, case["centers"], n_sel)
            ctop = R.make_topology(["CA"] * n_sel)
            if case["centers_as"] == "traj":
                centers = md.Trajectory(Cx.copy(), ctop)
            else:
                centers = [md.Trajectory(Cx[j:j + 1].copy(), ctop) for j in range(len(Cx))]
            kw = {}
            if case["batch_frames"] is not None:
                kw["frac_mem"] = (case["batch_frames"] + 0.5) * (n_sel * 3 * 4) / psutil.virtual_memory().total
            assig, dist = cutil.reassign(tops, trjs, atoms, centers, **kw)
            # brute force with mdtraj's own rmsd (float32 kernel), no precentering
            full = md.Trajectory(X.copy(), ctop)
            Dmd = np.array([md.rmsd(full, md.Trajectory(Cx[j:j + 1].copy(), ctop)) for j in range(len(Cx))],
                           dtype=float).T
    finally:
        for key, old in (("OMP_NUM_THREADS", old_omp), ("NUMEXPR_NUM_THREADS", old_nx)):
            if old is None:
                os.environ.pop(key, None)
            else:
                os.environ[key] = old
        shutil.rmtree(d, ignore_errors=True)

    equal = all(x == lengths[0] for x in lengths)
    for name, got in (("assignments", assig), ("distances", dist)):
        if equal:
            require(isinstance(got, np.ndarray) and got.shape == (len(lengths), lengths[0]),
                    "reassign: equal lengths must give a (n_traj, length) ndarray", field=name,
                    got=type(got).__name__, shape=getattr(got, "shape", None), lengths=lengths)
        else:
            require(isinstance(got, ra.RaggedArray) and [int(x) for x in got.lengths] == lengths,
                    "reassign: unequal lengths must give a RaggedArray with the trajectory lengths", field=name,
                    got=type(got).__name__, got_lengths=[int(x) for x in getattr(got, "lengths", [])], lengths=lengths)
    a = np.concatenate([np.asarray(assig[t]).reshape(-1) for t in range(len(lengths))])
    dd = np.concatenate([np.asarray(dist[t]).reshape(-1) for t in range(len(lengths))])
    M, S = R.rmsd_matrices(X, Cx)
    check_nearest_rmsd(a, dd, M, S, "reassign")
    # and against md.rmsd brute force
    for i in range(len(X)):
        ai = int(a[i])
        require(abs(Dmd[i, ai] ** 2 - dd[i] ** 2) <= 2 * RMSD_TOL * S[i, ai],
                "reassign: reported distance differs from md.rmsd to the assigned center",
                frame=i, assigned=ai, reported=float(dd[i]), md_rmsd=float(Dmd[i, ai]))
        j = int(Dmd[i].argmin())
        require(Dmd[i, ai] ** 2 <= Dmd[i, j] ** 2 + 2 * RMSD_TOL * max(S[i, ai], S[i, j]),
                "reassign: md.rmsd brute force finds a closer center", frame=i, assigned=ai, closer=j,
                d_assigned=float(Dmd[i, ai]), d_closer=float(Dmd[i, j]))
    used = len(set(int(x) for x in a))
    nb = "default"
    if case["batch_frames"] is not None:
        bf = case["batch_frames"]
        nb = "one_batch" if bf > sum(lengths) else "several"
    cl = ["groups=%d" % len(case["groups"]), "ntraj=%d" % len(lengths), "equal_lengths=%s" % equal,
          "centers_as=" + case["centers_as"], "has_len1=%s" % (1 in lengths), "batches=" + nb,
          "rel=%s" % ("more_centers" if len(Cx) > len(X) else "fewer_or_equal")] + \
         sorted({"fmt=" + g["fmt"] for g in case["groups"]}) + sorted({"sel=" + g["sel"] for g in case["groups"]})
    if case["batch_frames"] is not None:
        cl.append("batch_eq_first=%s" % (case["batch_frames"] == lengths[0]))
    return Info(len(lengths) >= 2 and not equal and len(Cx) >= 2 and used >= 2, cl)


# ==========================================================================

def m_batch_equals_first_length(case, exc):
    """compute_batches() opens with an empty batch when the first trajectory is exactly batch_size long."""
    lens = [len(t) for g in case["groups"] for t in g["trajs"]]
    return (case.get("batch_frames") is not None and case["batch_frames"] == lens[0]
            and isinstance(exc, IndexError))


CLAUSES = [
    Clause("assign", assign_case(), run_assign, quick=900, thorough=20000),
    Clause("assign_large", assign_case(max_frames=60, max_centers=80, max_feat=8, md_share=6), run_assign,
           quick=0, thorough=1500),
    Clause("assign_many_centers_md", many_centers_case(), run_many_centers, quick=16, thorough=200,
           doc="2047..4100 centers in one md.Trajectory, 1..12 frames planted next to chosen (mostly late) centers"),
    Clause("predict", predict_case(), run_predict, quick=400, thorough=7000),
    Clause("reassign_files", reassign_case(), run_reassign, quick=16, thorough=320),
    Clause("reassign_batches", reassign_case(batches=True), run_reassign, quick=12, thorough=192),
    Clause("part_values", part_case(), run_part_values, quick=400, thorough=8000),
    Clause("part_index", part_case(), run_part_index, quick=500, thorough=10000, exhaustive=exhaustive_index),
    Clause("part_container", part_case(), run_part_container, quick=400, thorough=8000),
    Clause("part_concat", part_case(), run_part_concat, quick=400, thorough=8000),
    Clause("part_bad_lengths", bad_lengths_case(), run_part_bad_lengths, quick=300, thorough=5000,
           doc="lengths that do not add up to the number of frames are refused (equal and ragged routes alike)"),
    Clause("part_index_narrow_lengths", part_case(max_traj=8, max_len=120, narrow=True), run_part_index, quick=250,
           thorough=5000, doc="trajectory lengths held in an int8 / uint8 / int16 / uint16 array: every length fits the "
                              "type, the running total (beyond 127 / 255 for most cases) need not"),
    Clause("part_values_narrow_lengths", part_case(max_traj=8, max_len=120, narrow=True), run_part_values, quick=150,
           thorough=3000),
    Clause("part_large", part_case(max_traj=25, max_len=40), run_part_index, quick=0, thorough=1500),
    Clause("frames_files", frames_files_case(), run_frames_files, quick=60, thorough=1600),
    Clause("find_centers", find_case(), run_find, quick=500, thorough=10000),
    Clause("find_centers_large", find_case(max_n=300), run_find, quick=120, thorough=1500),
]
MATCHERS = {"batch_equals_first_length": m_batch_equals_first_length}
