"""C19 - results depend on arguments only, not on history, threads or heap contents.

Fault injection (vf/poison.py: every masked ufunc that allocates its own output, np.empty,
np.empty_like get pre-filled outputs) + metamorphic relations over a registry of the
library's numerical routines.
"""
import os
import warnings

import numpy as np
import scipy.sparse
from hypothesis import strategies as st
from threadpoolctl import threadpool_limits

from vf.harness import Clause, Info, require, Violation, Skip
from vf import poison

import enspara
from enspara import ra
from enspara.info_theory import entropy, mutual_info, libinfo
from enspara.msm import builders, transition_matrices as tm, synthetic_data
from enspara.tpt import core as tcore, tpt as ttpt, path as tpath
from enspara.cluster import util as cutil, kcenters as kc, kmedoids as km, hybrid as hy
from enspara.geometry import libdist, rotamer
from enspara.cards import disorder

PROPERTY = "C19"
LEVEL = "fault_enumeration"
RULE = ("For each routine of a registry covering the numerical API (entropy / KL / JS, joint counts, mutual-information "
        "family, weighted MI, channel-capacity normalisation, the three builders, counting, trimming, eigenspectrum, "
        "eq_probs, synthetic ensembles, committors, MFPTs, reactive / net fluxes, reactive populations, top path / "
        "paths, nearest-center assignment, center finder, k-centers / k-medoids / k-hybrid with fixed seeds, the three "
        "distance kernels, RaggedArray operators, rotamer state machine, transition bookkeeping) Hypothesis draws "
        "arguments whose masks are non-trivial (probability vectors with zeros, joint counts with unobserved feature "
        "pairs, count matrices with zero rows/entries), a set of heap fill patterns from {NaN, +inf, 0, 2.0, -7.25}, "
        "an OpenMP thread count and a prefix of other library calls. Relations (bit-for-bit): repeat == first; "
        "result under every fill == plain result (and no new exception); result under 1/2/5/16 threads == plain; "
        "result after the prefix history == plain; arguments equal their pre-call copies. Fault enumeration: the "
        "injected faults are the contents of every self-allocated masked-ufunc output / np.empty buffer the call "
        "reaches, enumerated over the 5 fills. Non-trivial: the case's mask is non-trivial or the poison wrappers "
        "were actually triggered; distinct = distinct JSON case. An AST pass over enspara/**/*.py lists every "
        "masked call without out= (the denominator); the evidence reports which of them the wrappers observed.")
ASSUMPTIONS = ["heap contents are modelled by pre-filling every output the routine leaves numpy to allocate under a mask "
               "(ufunc where= without out=) and every np.empty/np.empty_like buffer; malloc reuse itself is not driven",
               "OpenMP schedule not controllable; thread counts 1/2/5/16",
               "random routines are called with explicit integer seeds / RandomState objects built from the case"]
SHARDS = {"quick": 4, "thorough": 16}
FILLS = [float("nan"), float("inf"), 0.0, 2.0, -7.25]
THREADS = [1, 2, 5, 16]


# ---------------------------------------------------------------------------
# canonical (bitwise) form of a result

def canon(x):
    if isinstance(x, np.ndarray):
        if x.dtype == object:
            return ("objarr", tuple(canon(v) for v in x.ravel().tolist()), x.shape)
        return ("nd", str(x.dtype), x.shape, np.ascontiguousarray(x).tobytes())
    if scipy.sparse.issparse(x):
        return ("sparse", type(x).__name__, canon(np.asarray(x.toarray())))
    if isinstance(x, ra.RaggedArray):
        return ("ragged", canon(np.asarray(x.lengths)), canon(np.asarray(x._data)))
    if isinstance(x, (tuple, list)):
        return ("seq", tuple(canon(v) for v in x))
    if isinstance(x, dict):
        return ("dict", tuple((k, canon(v)) for k, v in sorted(x.items())))
    if isinstance(x, (float, np.floating)):
        return ("f", np.float64(x).tobytes())
    if isinstance(x, (int, np.integer, bool, np.bool_)):
        return ("i", int(x))
    if x is None:
        return ("none",)
    if isinstance(x, tm.TrimMapping):
        return ("map", tuple(sorted(x.to_original.items())))
    if hasattr(x, "_fields"):
        return ("nt", tuple(canon(v) for v in x))
    return ("repr", repr(x))


def outcome(thunk):
    try:
        return ("ok", canon(thunk()))
    except Violation:
        raise
    except Exception as e:
        return ("exc", type(e).__name__)


def describe(o):
    if o[0] == "exc":
        return "raised " + o[1]
    return _desc(o[1])


def _desc(c, depth=0):
    if c[0] == "nd":
        a = np.frombuffer(c[3], dtype=c[1]).reshape(c[2])
        return "array(%s)" % np.array2string(a, threshold=12, precision=6)
    if c[0] == "f":
        return repr(float(np.frombuffer(c[1], dtype=np.float64)[0]))
    if c[0] in ("seq", "nt") and depth < 2:
        return "(" + ", ".join(_desc(v, depth + 1) for v in c[1][:4]) + ")"
    if c[0] == "sparse":
        return "sparse " + _desc(c[2], depth + 1)
    return str(c)[:120]


# ---------------------------------------------------------------------------
# argument strategies (JSON) and builders: builder(args) -> (thunk, [input arrays])

def rs(seed):
    return np.random.RandomState(seed)     # seeds are drawn by Hypothesis and stored in the case


@st.composite
def prob_args(draw):
    n = draw(st.integers(2, 40))
    w = draw(st.lists(st.sampled_from([0, 0, 1, 2, 3, 5]), min_size=n, max_size=n))
    if sum(w) == 0:
        w[draw(st.integers(0, n - 1))] = 1
    return {"w": w, "normalize": draw(st.booleans()), "shape2d": draw(st.booleans())}


def b_shannon(a):
    w = np.array(a["w"], dtype=float)
    p = w / w.sum()
    if a["shape2d"] and len(p) % 2 == 0:
        p = p.reshape(2, -1)
    return (lambda: entropy.shannon_entropy(p, normalize=a["normalize"])), [p]


@st.composite
def kl_args(draw):
    n = draw(st.integers(2, 12))
    rows = draw(st.integers(1, 3))
    P = [draw(st.lists(st.sampled_from([0, 1, 2, 3]), min_size=n, max_size=n)) for _ in range(rows)]
    Q = [draw(st.lists(st.sampled_from([1, 2, 3]), min_size=n, max_size=n)) for _ in range(rows)]
    for r in P:
        if sum(r) == 0:
            r[0] = 1
    return {"P": P, "Q": Q, "base": draw(st.sampled_from([2, float(np.e), 10])), "oned": draw(st.booleans())}


def b_kl(a, fn=None):
    P = np.array(a["P"], dtype=float)
    Q = np.array(a["Q"], dtype=float)
    P /= P.sum(axis=1, keepdims=True)
    Q /= Q.sum(axis=1, keepdims=True)
    if a["oned"]:
        P, Q = P[0].copy(), Q[0].copy()
    if fn == "js":
        return (lambda: entropy.js_divergence(P, Q)), [P, Q]
    return (lambda: entropy.kl_divergence(P, Q, base=a["base"])), [P, Q]


@st.composite
def feat_args(draw, max_t=40, min_t=1, max_f=4):
    T = draw(st.integers(min_t, max_t))
    fx = draw(st.integers(1, max_f))
    fy = draw(st.integers(1, max_f))
    nx = draw(st.integers(2, 5))
    ny = draw(st.integers(2, 5))
    return {"T": T, "fx": fx, "fy": fy, "nx": nx, "ny": ny, "seed": draw(st.integers(0, 2 ** 31 - 1)),
            "dtype": draw(st.sampled_from(["int64", "int32", "int16", "int8"])),
            "ntraj": draw(st.integers(1, 3)), "normalize": draw(st.booleans()),
            "zero_w": draw(st.booleans())}


def feats(a, k=0):
    r = rs(a["seed"] + k)
    X = r.randint(0, a["nx"], size=(a["T"], a["fx"])).astype(a["dtype"])
    Y = r.randint(0, a["ny"], size=(a["T"], a["fy"])).astype(a["dtype"])
    return X, Y


def b_joint_counts(a):
    X, Y = feats(a)
    return (lambda: mutual_info.joint_counts(X, Y, a["nx"], a["ny"])), [X, Y]


def b_joint_counts_self(a):
    X, _ = feats(a)
    return (lambda: mutual_info.joint_counts(X, n_x=a["nx"])), [X]


def sparse_jc(a):
    """joint counts with unobserved feature pairs (zero blocks) -> non-trivial masks in mutual_information"""
    X, Y = feats(a)
    jc = mutual_info.joint_counts(X, Y, a["nx"], a["ny"]).copy()
    r = rs(a["seed"] + 99)
    kill = r.rand(*jc.shape[:2]) < 0.4
    jc[kill] = 0
    return jc


def b_mutual_information(a):
    jc = sparse_jc(a)
    return (lambda: mutual_info.mutual_information(jc)), [jc]


def b_mi_matrix(a):
    Xs, Ys = [], []
    for k in range(a["ntraj"]):
        X, Y = feats(a, k)
        Xs.append(X)
        Ys.append(Y)
    nx = np.full(a["fx"], a["nx"])
    ny = np.full(a["fy"], a["ny"])
    if a["fx"] != a["fy"] and a["normalize"]:
        ny = np.full(a["fy"], a["ny"])
    return (lambda: mutual_info.mi_matrix(Xs, Ys, nx, ny, normalize=a["normalize"])), Xs + Ys + [nx, ny]


def b_weighted_mi(a):
    X, _ = feats(a)
    X = X.astype("int64")
    w = rs(a["seed"] + 5).rand(a["T"])
    if a["zero_w"]:
        w[::2] = 0
    if w.sum() == 0:
        w[0] = 1.0
    w = w / w.sum()
    nfs = np.full(a["fx"], a["nx"])
    return (lambda: mutual_info.weighted_mi(X, w, n_feature_states=nfs, normalize=a["normalize"])), [X, w, nfs]


def b_ccn(a):
    r = rs(a["seed"])
    mi = r.rand(a["fx"], a["fy"])
    nx = r.randint(2, 6, size=a["fx"])
    ny = r.randint(2, 6, size=a["fy"])
    return (lambda: mutual_info.channel_capacity_normalization(mi, nx, ny)), [mi, nx, ny]


def b_nmi_apc(a):
    X, _ = feats(a)
    jc = mutual_info.joint_counts(X, n_x=a["nx"])
    mi = mutual_info.mutual_information(jc)
    return (lambda: mutual_info.mi_to_apc(mi)), [mi]


@st.composite
def counts_args(draw, max_n=7):
    n = draw(st.integers(2, max_n))
    return {"n": n, "seed": draw(st.integers(0, 2 ** 31 - 1)), "density": draw(st.sampled_from([0.3, 0.6, 1.0])),
            "container": draw(st.sampled_from(["dense", "dense", "csr", "csr", "coo", "lil"])),
            "prior": draw(st.sampled_from([None, None, None, 0.5, 1])), "eq": draw(st.booleans()),
            "n_eigs": draw(st.sampled_from([None, 2, 3])), "threshold": draw(st.integers(1, 2)),
            "renumber": draw(st.booleans()), "steps": draw(st.integers(1, 6)),
            "lag": draw(st.sampled_from([1.0, 0.5, 7.0]))}


def count_matrix(a, connected=True):
    r = rs(a["seed"])
    n = a["n"]
    C = r.randint(1, 6, size=(n, n)) * (r.rand(n, n) < a["density"])
    if connected:
        perm = r.permutation(n)
        for i in range(n):
            C[perm[i], perm[(i + 1) % n]] += 1
    return C.astype(np.int64)


def wrap(C, container):
    if container == "dense":
        return C
    return getattr(scipy.sparse, container + "_matrix")(C)


def inputs_of(M):
    if scipy.sparse.issparse(M):
        return [M]
    return [M]


def b_builder(name):
    def b(a):
        # float counts in half of the cases: no dtype-conversion copy then stands between the caller's (sparse) matrix
        # and the arrays the builder works on
        C = wrap(count_matrix(a).astype(float if (a["prior"] is not None or a["seed"] % 3) else np.int64), a["container"])
        if name == "mle":
            C = wrap(count_matrix(a), "dense")
        fn = getattr(builders, name)
        return (lambda: fn(C, prior_counts=a["prior"], calculate_eq_probs=(a["eq"] or name == "mle"))), [C]
    return b


def b_bace(a):
    """Bayesian agglomerative coarse-graining on dense float64 symmetrised counts with heavy self-counts"""
    from enspara.msm import bace as bace_mod
    r = rs(a["seed"])
    n = a["n"] + 2
    C = r.randint(20, 60, size=(n, n)).astype(np.float64)
    C = C + C.T + np.diag(r.randint(2000, 4000, size=n).astype(np.float64))
    return (lambda: bace_mod.bace(C, 2 + a["seed"] % 2, n_procs=1)), [C]


def b_trim(a):
    C = wrap(count_matrix(a, connected=False), a["container"])
    return (lambda: tm.trim_disconnected(C, threshold=a["threshold"], renumber_states=a["renumber"])), [C]


def tprob(a):
    C = count_matrix(a).astype(float) + 0.0
    return C / C.sum(axis=1, keepdims=True)


def b_eigenspectrum(a):
    T = wrap(tprob(a), a["container"])
    if a["container"] == "dense" and a["seed"] % 3 != 0:
        T = np.asfortranarray(T)              # e.g. the transpose view of a row-major matrix
    return (lambda: tm.eigenspectrum(T, n_eigs=a["n_eigs"])), [T]


def b_eigenspectrum_right(a):
    """right eigenvectors (left=False, which no caller inside the library uses); dense input in either memory order"""
    T = wrap(tprob(a), a["container"])
    if a["container"] == "dense" and a["seed"] % 2:
        T = np.asfortranarray(T)
    return (lambda: tm.eigenspectrum(T, n_eigs=a["n_eigs"], left=False)), [T]


def b_eq_probs(a):
    T = wrap(tprob(a), a["container"])
    return (lambda: tm.eq_probs(T)), [T]


def b_synth(a):
    T = wrap(tprob(a), a["container"] if a["container"] in ("dense", "csr") else "dense")
    p0 = np.zeros(a["n"])
    p0[0] = 1.0
    return (lambda: synthetic_data.synthetic_ensemble(T, p0, a["steps"])), [T, p0]


def src_snk(a):
    n = a["n"]
    r = rs(a["seed"] + 3)
    perm = r.permutation(n)
    ns = 1 if n < 4 else r.randint(1, 3)
    return [int(x) for x in perm[:ns]], [int(x) for x in perm[ns:ns + (1 if n < 4 else r.randint(1, 3))]]


def b_committors(a):
    T = wrap(tprob(a), a["container"])
    s, k = src_snk(a)
    return (lambda: tcore.committors(T, s, k)), [T]


def b_mfpts(a):
    T = wrap(tprob(a), a["container"] if a["container"] == "dense" else "dense")
    s, k = src_snk(a)
    which = a["threshold"]
    if which == 1:
        return (lambda: tcore.mfpts(T, sinks=k, lagtime=a["lag"])), [T]
    return (lambda: tcore.mfpts(T, lagtime=a["lag"])), [T]


def rev_tprob(a):
    C = count_matrix(a).astype(float)
    C = C + C.T
    return C / C.sum(axis=1, keepdims=True), C.sum(axis=1) / C.sum()


def b_flux(name):
    def b(a):
        T, pi = rev_tprob(a)
        T = wrap(T, a["container"] if a["container"] == "dense" else "dense")
        s, k = src_snk(a)
        pops = pi if a["eq"] else None
        fn = getattr(ttpt, name)
        return (lambda: fn(T, s, k, populations=pops)), [T, pi]
    return b


def b_paths(a):
    T, pi = rev_tprob(a)
    s, k = src_snk(a)
    nf = np.asarray(ttpt.net_fluxes(T, s, k, populations=pi))
    scheme = "subtract" if a["renumber"] else "bottleneck"
    return (lambda: tpath.paths(s, k, nf, remove_path=scheme, num_paths=a["steps"] + 1, flux_cutoff=0.999)), [nf]


def b_top_path(a):
    T, pi = rev_tprob(a)
    s, k = src_snk(a)
    nf = np.asarray(ttpt.net_fluxes(T, s, k, populations=pi))
    return (lambda: tpath.top_path(s, k, nf)), [nf]


@st.composite
def points_args(draw, max_n=40, min_n=3):
    n = draw(st.integers(min_n, max_n))
    return {"n": n, "d": draw(st.integers(1, 4)), "seed": draw(st.integers(0, 2 ** 31 - 1)),
            "k": draw(st.integers(1, min(n, 6))), "metric": draw(st.sampled_from(["euclidean", "manhattan"])),
            "n_iters": draw(st.integers(1, 3)), "rs": draw(st.integers(0, 10 ** 6)),
            "dtype": draw(st.sampled_from(["float64", "float32"])), "lag": 1}


def points(a):
    X = rs(a["seed"]).normal(size=(a["n"], a["d"])).astype(a["dtype"])
    return X


def b_assign(a):
    X = points(a)
    ctrs = [X[i].copy() for i in rs(a["seed"] + 1).permutation(a["n"])[:a["k"]]]
    m = cutil._get_distance_method(a["metric"])
    return (lambda: cutil.assign_to_nearest_center(X, ctrs, m)), [X] + ctrs


def b_find_centers(a):
    r = rs(a["seed"])
    lab = r.randint(0, a["k"], size=a["n"])
    dist = np.abs(r.normal(size=a["n"]))
    return (lambda: cutil.find_cluster_centers(lab, dist)), [lab, dist]


def b_kcenters(a):
    X = points(a)
    return (lambda: kc.kcenters(X, a["metric"], n_clusters=a["k"])), [X]


def b_kcenters_warm(a):
    """warm start from a python LIST of frames (what a previous result's `.centers` is), one more center wanted"""
    X = points(a)
    m = max(1, min(a["k"], len(X) - 1))
    init = [X[i].copy() for i in range(m)]
    return (lambda: kc.kcenters(X, a["metric"], n_clusters=m + 1, init_centers=init)), [X, init]


def b_kmedoids(a):
    X = points(a)
    return (lambda: km.kmedoids(X, a["metric"], n_clusters=a["k"], n_iters=a["n_iters"], random_state=a["rs"])), [X]


def b_hybrid(a):
    X = points(a)
    return (lambda: hy.hybrid(X, a["metric"], n_iters=a["n_iters"], n_clusters=a["k"],
                              random_state=np.random.RandomState(a["rs"]))), [X]


def b_dist(name):
    def b(a):
        X = points(a)
        if name == "hamming":
            X = (np.abs(X) * 2).astype("int32")
        else:
            X = X.astype("float64")
        y = X[a["k"] % len(X)].copy()
        return (lambda: getattr(libdist, name)(X, y)), [X, y]
    return b


@st.composite
def wide_args(draw):
    return {"n": draw(st.integers(1, 15)), "d": draw(st.sampled_from([1024, 1025, 2048, 3000, 6000])),
            "seed": draw(st.integers(0, 2 ** 31 - 1)), "k": draw(st.integers(0, 14))}


def b_dist_wide(name):
    """few, very wide rows (a handful of frames against a long feature vector): sums of thousands of terms whose
    value would depend on the summation order if the features were split over threads"""
    def b(a):
        r = rs(a["seed"])
        X = r.randn(a["n"], a["d"]) * np.exp(r.uniform(-6, 6, size=a["d"]))
        if name == "hamming":
            X = np.round(X).astype("int32")
        y = X[a["k"] % len(X)][::-1].copy()
        return (lambda: getattr(libdist, name)(X, y)), [X, y]
    return b


def b_dist_out(name):
    def b(a):
        X = points(a)
        if name == "hamming":
            X = (np.abs(X) * 2).astype("int32")
        else:
            X = X.astype("float64")
        y = X[a["k"] % len(X)].copy()

        def f():
            # the previous content of a caller-supplied output buffer is "what the process computed before"
            outs = []
            for junk in (0.0, 7.5, float("nan"), -1e300):
                buf = np.full(len(X), junk)
                r = getattr(libdist, name)(X, y, out=buf)
                outs.append(np.array(r, copy=True))
            for o in outs[1:]:
                if o.tobytes() != outs[0].tobytes():
                    raise Violation("libdist.%s result depends on the previous content of the out buffer" % name)
            return outs[0]
        return f, [X, y]
    return b


@st.composite
def ragged_args(draw):
    n = draw(st.integers(1, 5))
    return {"lens": [draw(st.integers(1, 5)) for _ in range(n)], "seed": draw(st.integers(0, 2 ** 31 - 1)),
            "op": draw(st.sampled_from(["add", "mul", "sub", "truediv", "lt", "eq", "ge"])),
            "other": draw(st.sampled_from(["scalar", "ragged"]))}


def b_ragged(a):
    r = rs(a["seed"])
    A = ra.RaggedArray([r.randint(1, 9, size=L).astype(float) for L in a["lens"]])
    B = ra.RaggedArray([r.randint(1, 9, size=L).astype(float) for L in a["lens"]]) if a["other"] == "ragged" else 3.0
    ins = [A._data] + ([B._data] if a["other"] == "ragged" else [])
    return (lambda: getattr(A, "__%s__" % a["op"])(B)), ins


@st.composite
def angle_args(draw):
    return {"n": draw(st.integers(1, 60)), "seed": draw(st.integers(0, 2 ** 31 - 1)),
            "bounds": draw(st.sampled_from([[0, 180, 360], [0, 120, 240, 360]])),
            "buffer": draw(st.sampled_from([0, 15, 30]))}


def b_rotamers(a):
    ang = rs(a["seed"]).rand(a["n"]) * 359.9
    return (lambda: rotamer._rotamers(ang, a["bounds"], a["buffer"])), [ang]


def b_transitions(a):
    r = rs(a["seed"])
    tab = r.randint(0, 2, size=(3, max(2, a["n"] // 4)))
    tab[1] = 0
    return (lambda: disorder.transitions(tab)), [tab]


@st.composite
def assigns_args(draw):
    nt = draw(st.integers(1, 4))
    return {"lens": [draw(st.integers(2, 20)) for _ in range(nt)], "seed": draw(st.integers(0, 2 ** 31 - 1)),
            "lag": draw(st.integers(1, 3)), "n_states": draw(st.integers(2, 5)), "sliding": draw(st.booleans())}


def b_counts(a):
    r = rs(a["seed"])
    A = ra.RaggedArray([r.randint(0, a["n_states"], size=L) for L in a["lens"]])
    d0 = A._data
    return (lambda: tm.assigns_to_counts(A, a["lag"], max_n_states=a["n_states"], sliding_window=a["sliding"])), [d0]


@st.composite
def ragged_idx_args(draw):
    n = draw(st.integers(1, 5))
    lens = [draw(st.integers(1, 5)) for _ in range(n)]
    k = draw(st.integers(1, 4))
    rows = [draw(st.integers(-n, n - 1)) for _ in range(k)]
    cols = [draw(st.integers(-lens[r], lens[r] - 1)) for r in rows]
    return {"lens": lens, "rows": rows, "cols": cols, "seed": draw(st.integers(0, 2 ** 31 - 1)),
            "form": draw(st.sampled_from(["pairs", "row_int", "col_int"]))}


def _ragged_idx(a):
    r = rs(a["seed"])
    A = ra.RaggedArray([r.randint(1, 9, size=L).astype(float) for L in a["lens"]])
    if a["form"] == "pairs":
        ii, jj = np.array(a["rows"]), np.array(a["cols"])
    elif a["form"] == "row_int":
        L = a["lens"][a["rows"][0]]
        ii, jj = a["rows"][0], np.array([c % L - (L if c < 0 else 0) for c in a["cols"]])
    else:
        m = min(a["lens"][r] for r in a["rows"])
        ii, jj = np.array(a["rows"]), (a["cols"][0] % m) - (m if a["cols"][0] < 0 else 0)
    return A, ii, jj


def b_ragged_fancy_read(a):
    A, ii, jj = _ragged_idx(a)
    ins = [A._data] + [x for x in (ii, jj) if isinstance(x, np.ndarray)]
    return (lambda: A[(ii, jj)]), ins


def b_ragged_fancy_write(a):
    A, ii, jj = _ragged_idx(a)
    ins = [x for x in (ii, jj) if isinstance(x, np.ndarray)]      # A itself is documented to change

    def f():
        B = ra.RaggedArray([np.asarray(r).copy() for r in A])
        B[(ii, jj)] = 0.5
        return B
    return f, ins


def _sym_mi(a):
    X, _ = feats(a)
    jc = mutual_info.joint_counts(X, n_x=a["nx"])
    return mutual_info.mutual_information(jc)


def b_nmi(a):
    mi = _sym_mi(a)
    return (lambda: mutual_info.mi_to_nmi(mi)), [mi]


def b_nmi_apc_full(a):
    mi = _sym_mi(a)
    return (lambda: mutual_info.mi_to_nmi_apc(mi)), [mi]


def b_deconv(a):
    r = rs(a["seed"])
    G = r.rand(a["fx"] + 1, a["fx"] + 1) * 0.2
    G = (G + G.T) / 2
    return (lambda: mutual_info.deconvolute_network(G)), [G]


def b_rel_entropy(a):
    C1 = count_matrix(a).astype(float) + 0.5
    b = dict(a)
    b["seed"] = a["seed"] + 17
    C2 = count_matrix(b).astype(float) + 0.5
    P = C1 / C1.sum(axis=1, keepdims=True)
    Q = C2 / C2.sum(axis=1, keepdims=True)
    pops = C1.sum(axis=1) / C1.sum()
    if a["eq"]:
        return (lambda: entropy.relative_entropy_msm(P, Q, populations=pops, base=2.0)), [P, Q, pops]
    return (lambda: entropy.relative_entropy_per_state(P, Q, weights=pops)), [P, Q, pops]


def b_q_from_assigns(a):
    r = rs(a["seed"])
    A = np.vstack([r.randint(0, a["n_states"], size=max(a["lens"])) for _ in a["lens"]])
    return (lambda: entropy.Q_from_assignments(A, n_states=a["n_states"], lag_time=a["lag"])), [A]


def b_energy(a):
    u = rs(a["seed"]).normal(size=a["n"]) * 3
    return (lambda: entropy.energy_to_probability(u)), [u]


def b_msm_fit(a):
    from enspara.msm import MSM
    r = rs(a["seed"])
    L = max(max(a["lens"]), 3 * a["lag"] + 2)
    A = np.vstack([np.concatenate([np.arange(a["n_states"]), r.randint(0, a["n_states"], size=L)]) for _ in a["lens"]])

    def f():
        m = MSM(lag_time=a["lag"], method=builders.normalize, trim=True, sliding_window=a["sliding"])
        m.fit(A)
        return (m.tcounts_, m.tprobs_, m.eq_probs_, sorted(m.mapping_.to_original.items()))
    return f, [A]


def b_imp_times(a):
    from enspara.msm import implied_timescales
    r = rs(a["seed"])
    L = max(max(a["lens"]), 12)
    A = np.vstack([np.concatenate([np.arange(a["n_states"]), r.randint(0, a["n_states"], size=L)]) for _ in a["lens"]])
    return (lambda: implied_timescales(A, [1, 2], builders.normalize, n_times=2, trim=True)), [A]


def b_partition(a):
    r = rs(a["seed"])
    n = a["n"]
    lab = r.randint(0, a["k"], size=n)
    dist = np.abs(r.normal(size=n))
    ci = np.array(sorted(r.permutation(n)[:a["k"]].tolist()), dtype=np.int64)
    cuts = sorted(set(r.randint(1, n, size=2).tolist()))
    edges = [0] + cuts + [n]
    lengths = [edges[i + 1] - edges[i] for i in range(len(edges) - 1)]
    res = cutil.ClusterResult(center_indices=ci, assignments=lab, distances=dist, centers=[0] * a["k"])
    larr = np.array(lengths)
    return (lambda: res.partition(larr)[:3]), [lab, dist, ci, larr]


def b_ra_where(a):
    r = rs(a["seed"])
    A = ra.RaggedArray([r.randint(0, 3, size=L) for L in a["lens"]])
    mask = A > 0
    return (lambda: ra.where(mask)), [A._data, mask._data]


ROUTINES = {
    "shannon_entropy": (prob_args(), b_shannon),
    "kl_divergence": (kl_args(), b_kl),
    "js_divergence": (kl_args(), lambda a: b_kl(a, "js")),
    "joint_counts": (feat_args(), b_joint_counts),
    "joint_counts_self": (feat_args(), b_joint_counts_self),
    "mutual_information": (feat_args(), b_mutual_information),
    "mi_matrix": (feat_args(), b_mi_matrix),
    "weighted_mi": (feat_args(), b_weighted_mi),
    "channel_capacity_normalization": (feat_args(), b_ccn),
    "mi_to_apc": (feat_args(), b_nmi_apc),
    "builders.normalize": (counts_args(), b_builder("normalize")),
    "bace": (counts_args(), b_bace),
    "builders.transpose": (counts_args(), b_builder("transpose")),
    "builders.mle": (counts_args(max_n=5), b_builder("mle")),
    "trim_disconnected": (counts_args(), b_trim),
    "eigenspectrum": (counts_args(), b_eigenspectrum),
    "eigenspectrum_right": (counts_args(), b_eigenspectrum_right),
    "eq_probs": (counts_args(), b_eq_probs),
    "synthetic_ensemble": (counts_args(), b_synth),
    "committors": (counts_args(), b_committors),
    "mfpts": (counts_args(), b_mfpts),
    "reactive_fluxes": (counts_args(), b_flux("reactive_fluxes")),
    "net_fluxes": (counts_args(), b_flux("net_fluxes")),
    "reactive_populations": (counts_args(), b_flux("reactive_populations")),
    "paths": (counts_args(), b_paths),
    "top_path": (counts_args(), b_top_path),
    "assign_to_nearest_center": (points_args(), b_assign),
    "find_cluster_centers": (points_args(), b_find_centers),
    "kcenters": (points_args(), b_kcenters),
    "kcenters_warm": (points_args(), b_kcenters_warm),
    "kmedoids": (points_args(), b_kmedoids),
    "hybrid": (points_args(), b_hybrid),
    "libdist.euclidean": (points_args(), b_dist("euclidean")),
    "libdist.manhattan": (points_args(), b_dist("manhattan")),
    "libdist.hamming": (points_args(), b_dist("hamming")),
    "libdist.euclidean_wide": (wide_args(), b_dist_wide("euclidean")),
    "libdist.manhattan_wide": (wide_args(), b_dist_wide("manhattan")),
    "libdist.hamming_wide": (wide_args(), b_dist_wide("hamming")),
    "libdist.euclidean_out": (points_args(), b_dist_out("euclidean")),
    "libdist.manhattan_out": (points_args(), b_dist_out("manhattan")),
    "libdist.hamming_out": (points_args(), b_dist_out("hamming")),
    "ragged_operator": (ragged_args(), b_ragged),
    "mi_to_nmi": (feat_args(), b_nmi),
    "mi_to_nmi_apc": (feat_args(), b_nmi_apc_full),
    "deconvolute_network": (feat_args(), b_deconv),
    "relative_entropy": (counts_args(), b_rel_entropy),
    "Q_from_assignments": (assigns_args(), b_q_from_assigns),
    "energy_to_probability": (points_args(), b_energy),
    "MSM.fit": (assigns_args(), b_msm_fit),
    "implied_timescales": (assigns_args(), b_imp_times),
    "ClusterResult.partition": (points_args(), b_partition),
    "ra.where": (ragged_args(), b_ra_where),
    "ragged_fancy_read": (ragged_idx_args(), b_ragged_fancy_read),
    "ragged_fancy_write": (ragged_idx_args(), b_ragged_fancy_write),
    "joint_counts_long": (feat_args(max_t=30000, min_t=5000, max_f=2), b_joint_counts),
    "joint_counts_self_long": (feat_args(max_t=30000, min_t=5000, max_f=2), b_joint_counts_self),
    "libdist.euclidean_long": (points_args(max_n=60000, min_n=20000), b_dist("euclidean")),
    "libdist.hamming_long": (points_args(max_n=60000, min_n=20000), b_dist("hamming")),
    "_rotamers": (angle_args(), b_rotamers),
    "transitions": (angle_args(), b_transitions),
    "assigns_to_counts": (assigns_args(), b_counts),
}
GLOBAL_RNG_USERS = set()      # routines of the registry documented to draw from the global generator (none: all are seeded)
LONG = ["joint_counts_long", "joint_counts_self_long", "libdist.euclidean_long", "libdist.hamming_long"]
THREADED = {"libdist.euclidean_wide", "libdist.manhattan_wide", "libdist.hamming_wide", "joint_counts_long", "joint_counts_self_long", "libdist.euclidean_long", "libdist.hamming_long", "joint_counts", "joint_counts_self", "mi_matrix", "libdist.euclidean", "libdist.manhattan", "libdist.hamming",
            "assign_to_nearest_center", "kcenters", "kmedoids", "hybrid", "builders.mle"}


def routine_case(names):
    @st.composite
    def s(draw):
        name = draw(st.sampled_from(names))
        args = draw(ROUTINES[name][0])
        npre = draw(st.integers(0, 3))
        prefix = []
        for _ in range(npre):
            pn = draw(st.sampled_from(sorted(r for r in ROUTINES if r not in LONG)))
            prefix.append([pn, draw(ROUTINES[pn][0])])
        return {"routine": name, "args": args, "prefix": prefix,
                "threads": draw(st.sampled_from(THREADS)),
                "fills": draw(st.lists(st.integers(0, len(FILLS) - 1), min_size=2, max_size=len(FILLS), unique=True))}
    return s()


def snapshot(arrs):
    out = []
    for x in arrs:
        if scipy.sparse.issparse(x):
            out.append(canon(x.tocoo().copy()) + (str(x.dtype), type(x).__name__))
        elif isinstance(x, np.ndarray):
            out.append(canon(x.copy()))
        else:
            out.append(canon(np.array(x)))
    return out


def run_case(case):
    name, args = case["routine"], case["args"]
    build = ROUTINES[name][1]

    thunk, ins = build(args)
    before = snapshot(ins)
    g0 = np.random.get_state()
    base = outcome(thunk)
    g1 = np.random.get_state()
    require(snapshot(ins) == before, "routine %s modified an array passed to it" % name, args=args)
    # numpy's global generator is process state other computations draw from: a routine that is given its own seed (or
    # needs no randomness) leaves it alone - re-seeding it changes what every later unseeded computation returns
    if name not in GLOBAL_RNG_USERS:
        require(g0[0] == g1[0] and np.array_equal(g0[1], g1[1]) and g0[2:] == g1[2:],
                "routine %s changed the state of numpy's global random generator" % name, args=args)
    # (a) repetition on the same objects and on freshly built arguments
    again = outcome(thunk)
    require(again == base, "repeating %s on the same arguments changed the result" % name, first=describe(base),
            second=describe(again))
    thunk2, _ = build(args)
    fresh = outcome(thunk2)
    require(fresh == base, "calling %s on equal (rebuilt) arguments changed the result" % name, first=describe(base),
            second=describe(fresh))
    # (b) heap contents
    sites = set()
    for fi in case["fills"]:
        fill = FILLS[fi]
        t3, ins3 = build(args)
        b3 = snapshot(ins3)
        with poison.poison(fill) as rec:
            got = outcome(t3)
        sites.update(rec.sites)
        require(got == base, "%s depends on the contents of memory it did not initialise (fill=%r)" % (name, fill),
                plain=describe(base), poisoned=describe(got), sites=sorted(rec.sites))
        require(snapshot(ins3) == b3, "routine %s modified an array passed to it (under fill)" % name)
    # (c) threads
    tlist = sorted(set([case["threads"], 1])) if name not in LONG and not name.endswith("_wide") else [1, 2, 5, 16, 16, 7]
    for t in tlist:
        t4, _ = build(args)
        with threadpool_limits(limits=t, user_api="openmp"):
            got = outcome(t4)
        require(got == base, "%s depends on the number of OpenMP threads (%d)" % (name, t), plain=describe(base),
                threaded=describe(got))
    # (d) history
    for pn, pa in case["prefix"]:
        try:
            pt, _ = ROUTINES[pn][1](pa)
            pt()
        except Exception:
            pass
    t5, _ = build(args)
    got = outcome(t5)
    require(got == base, "%s depends on what the process computed before" % name, plain=describe(base),
            after_history=describe(got), prefix=[p[0] for p in case["prefix"]])
    # (f) object lifecycle. The arguments of a second data set (same recipe, other seed => same shapes) are used to
    #   - check that a RETURNED object is not a buffer the library reuses: it must keep its value while the routine
    #     runs on other data;
    #   - refill the first call's argument arrays IN PLACE with the second data set and call again on the same
    #     objects: the result must be that of the new contents (a cache keyed on object identity returns the old one).
    lifecycle = []
    if name not in LONG and base[0] == "ok" and isinstance(args, dict) and "seed" in args:
        args_b = dict(args)
        args_b["seed"] = int(args["seed"]) ^ 0x5A5A5
        try:
            tb, ins_b = build(args_b)
            ta, ins_a = build(args)
        except Exception:
            tb = None
        if tb is not None:
            try:
                obj_a = ta()
                kept = canon(obj_a)
                same = (len(ins_a) == len(ins_b) and all(
                    isinstance(x, np.ndarray) and isinstance(y, np.ndarray) and x.shape == y.shape and x.dtype == y.dtype
                    and x.flags.writeable and x.dtype != object for x, y in zip(ins_a, ins_b)))
                got_b = None
                if same and ins_a:
                    # IMMEDIATELY after the first call (nothing else may run in between: a one-entry cache keyed on the
                    # argument object would be evicted): refill the argument arrays in place, call again
                    for x, y in zip(ins_a, ins_b):
                        x[...] = y
                    got_b = outcome(ta)
                # a returned object keeps its value while the routine runs on OTHER argument objects (results may
                # legitimately be views of / the very arguments, so the refilled objects above are not used here)
                t3, _ = build(args)
                obj_a = t3()
                kept3 = canon(obj_a)
                outcome(tb)
                require(canon(obj_a) == kept3, "a result returned by %s changed when the routine was called again on other "
                        "data (the returned object aliases a buffer the library reuses)" % name,
                        first=_desc(kept3), now=_desc(canon(obj_a)))
                lifecycle.append("kept_result")
                if got_b is not None:
                    # the oracle is a FRESH set of argument objects (same recipe) refilled with the same contents
                    # before its first call: the only difference is that `ta`'s objects were seen by an earlier call.
                    t2, ins_2 = build(args)
                    for x, y in zip(ins_2, ins_b):
                        x[...] = y
                    want_b = outcome(t2)
                    require(got_b == want_b, "%s called again on the SAME argument objects after they were refilled in place "
                            "does not give the result that fresh objects with those contents give" % name,
                            got=describe(got_b), want=describe(want_b))
                    lifecycle.append("refilled_in_place")
                    if got_b != ("ok", kept):
                        lifecycle.append("refill_changed_result")
            except Violation:
                raise
            except Exception:
                pass
    nt = bool(sites) or name in THREADED or len(case["prefix"]) >= 2
    cl = ["routine=" + name, "outcome=" + base[0]] + ["site=" + s for s in sorted(sites)] + ["lifecycle=" + x for x in lifecycle]
    if base[0] == "exc":
        cl.append("exc=%s:%s" % (name, base[1]))
    return Info(nt, cl)


def strap_stat(block):
    """picklable statistic used by the bootstrap clause (histogram of the resampled rows)."""
    return np.bincount(np.asarray(block).ravel() % 7, minlength=7).tolist() + [int(np.asarray(block)[0].sum())]


@st.composite
def worker_case(draw):
    return {"rows": draw(st.integers(4, 30)), "cols": draw(st.integers(1, 4)), "seed": draw(st.integers(0, 2 ** 31 - 1)),
            "gseed": draw(st.integers(0, 2 ** 31 - 1)), "n_trials": draw(st.integers(2, 9)),
            "procs": draw(st.sampled_from([[1, 2], [1, 3], [2, 4], [1, 2, 5]]))}


def run_workers(case):
    """The number of worker processes must not change a bootstrap (same global seed -> same resamples -> same values)."""
    from enspara.msm import bootstrap as bs
    data = rs(case["seed"]).randint(0, 50, size=(case["rows"], case["cols"])).astype(np.int32)
    before = data.copy()
    results = []
    for p in case["procs"]:
        np.random.seed(case["gseed"])          # the routine draws from the global generator; pinned per call
        results.append(canon(bs.bootstrap(strap_stat, data, case["n_trials"], n_procs=p)))
    require(all(r == results[0] for r in results[1:]),
            "bootstrap result depends on the number of worker processes", procs=case["procs"],
            first=str(results[0])[:200], other=str(next(r for r in results if r != results[0]) if any(r != results[0] for r in results) else "")[:200])
    require(np.array_equal(data, before), "bootstrap modified the data array passed to it")
    distinct = len(set(str(x) for x in results[0][1])) if isinstance(results[0], tuple) else 0
    return Info(len(case["procs"]) >= 2 and case["n_trials"] >= 3, ["workers=%s" % case["procs"]])


# --------------------------------------------------------------------------
# BACE's pruning step for every worker count: the split of the states over the workers may not lose or duplicate a state

@st.composite
def prune_case(draw):
    return {"n": draw(st.integers(4, 130)), "seed": draw(st.integers(0, 10 ** 6))}


def exhaustive_prune(tier, shard, nshards):
    """every number of states from 4 to 130 against every worker count from 2 to 16 (thorough only)"""
    if tier != "thorough":
        return None
    return ({"n": n, "seed": n} for n in range(4, 131) if n % nshards == shard)


def run_prune_workers(case):
    from enspara.msm import bace as bace_mod
    n = case["n"]
    rng = rs(case["seed"])
    block = np.arange(n) * 4 // n
    C = np.where(block[:, None] == block[None, :], rng.poisson(40, (n, n)), rng.poisson(0.6, (n, n)))
    C = (C + C.T).astype(np.float64)
    np.fill_diagonal(C, 2000 + rng.poisson(50, n))
    for k in range(0, n, 7):                 # some barely sampled states, so that the step has something to prune
        C[k, :] *= 0.001
        C[:, k] *= 0.001
    before = C.copy()
    with warnings.catch_warnings():
        warnings.simplefilter("ignore")
        ref = [np.asarray(x) for x in bace_mod.baysean_prune(C, n_procs=1)]
        for p in range(2, 17):
            got = [np.asarray(x) for x in bace_mod.baysean_prune(C, n_procs=p)]
            require(len(got) == len(ref) and all(np.array_equal(a, b) for a, b in zip(ref, got)),
                    "baysean_prune: the result depends on the number of worker processes", n_states=n, n_procs=p,
                    kept_serial=len(ref[2]), kept_parallel=len(got[2]) if len(got) > 2 else None)
    require(np.array_equal(C, before), "baysean_prune modified the counts passed to it")
    return Info(len(ref[2]) < n, ["prune_n=%s" % ("<32" if n < 32 else "<64" if n < 64 else "64+"),
                                  "prune_removed_some=%s" % (len(ref[2]) < n)], key=[n, case["seed"]])


def run_denominator(case):
    """AST accounting clause: the list of masked call sites must be fully reachable by the registry (reported)."""
    root = os.path.dirname(enspara.__file__)
    sites = poison.masked_call_sites(root)
    cl = ["ast_masked_no_out=" + s for s in sites["masked_no_out"]]
    cl += ["ast_masked_with_out=" + s for s in sites["masked_with_out"]]
    cl += ["ast_empty=" + s for s in sites["empty"]]
    return Info(False, cl)


MASKED = ["shannon_entropy", "mutual_information", "mi_matrix", "weighted_mi", "assign_to_nearest_center", "kmedoids",
          "hybrid", "kcenters"]

# --------------------------------------------------------------------------
# the iterative eigen-solver branch (sparse, >= 1000 states): the value is determined by the matrix alone

@st.composite
def big_sparse_args(draw):
    return {"n": draw(st.sampled_from([1000, 1001, 1100])), "seed": draw(st.integers(0, 2 ** 31 - 1)),
            "fmt": draw(st.sampled_from(["csr", "coo", "csc"])), "which": draw(st.sampled_from(["eq_probs", "eigenspectrum", "normalize"]))}


def run_big_sparse(case):
    n = case["n"]

    def build():
        rng = rs(case["seed"])
        idx = np.arange(n)
        rows = np.concatenate([idx] * 5)
        cols = np.concatenate([(idx + 1) % n, idx, rng.permutation(n), rng.permutation(n), rng.permutation(n)])
        vals = rng.randint(1, 40, size=5 * n).astype(float)
        C = scipy.sparse.coo_matrix((vals, (rows, cols)), shape=(n, n)).tocsr()
        T = scipy.sparse.diags(1.0 / np.asarray(C.sum(axis=1)).ravel()) @ C
        return getattr(scipy.sparse, case["fmt"] + "_matrix")(C if case["which"] == "normalize" else T)

    def call(M):
        if case["which"] == "eq_probs":
            return tm.eq_probs(M)
        if case["which"] == "eigenspectrum":
            return tm.eigenspectrum(M, n_eigs=3)
        return builders.normalize(M, calculate_eq_probs=True)
    M = build()
    before = snapshot([M])
    base = outcome(lambda: call(M))
    require(base[0] == "ok", "%s failed on a %d-state sparse chain" % (case["which"], n), got=describe(base))
    require(snapshot([M]) == before, "routine %s modified an array passed to it" % case["which"])
    again = outcome(lambda: call(M))
    require(again == base, "repeating %s on the same %d-state sparse matrix changed the result (iterative eigen-solver "
            "branch)" % (case["which"], n), first=describe(base)[:200], second=describe(again)[:200])
    fresh = outcome(lambda: call(build()))
    require(fresh == base, "%s on freshly built equal arguments differs (%d-state sparse matrix)" % (case["which"], n))
    for t in (1, 4, 16):
        with threadpool_limits(limits=t):
            got = outcome(lambda: call(build()))
        require(got == base, "%s on a %d-state sparse matrix depends on the number of threads (%d)" % (case["which"], n, t))
    # history: another eigen-problem in between
    try:
        tm.eq_probs(scipy.sparse.csr_matrix(np.full((1000, 1000), 1e-3)))
    except Exception:
        pass
    got = outcome(lambda: call(build()))
    require(got == base, "%s on a %d-state sparse matrix depends on what the process computed before" % (case["which"], n))
    return Info(True, ["routine=big_sparse." + case["which"], "fmt=" + case["fmt"]],
                key=[n, case["seed"], case["fmt"], case["which"]])


CLAUSES = [
    Clause("masked_sites", routine_case(MASKED), run_case, quick=240, thorough=4000),
    Clause("all_routines", routine_case(sorted(r for r in ROUTINES if r not in LONG)), run_case, quick=3000, thorough=16000),
    Clause("threads_long_inputs", routine_case(LONG), run_case, quick=24, thorough=400),
    Clause("iterative_eigensolver_branch", big_sparse_args(), run_big_sparse, quick=8, thorough=80),
    Clause("worker_processes", worker_case(), run_workers, quick=12, thorough=120),
    Clause("prune_worker_counts", prune_case(), run_prune_workers, quick=64, thorough=0, exhaustive=exhaustive_prune,
           doc="bace.baysean_prune on 4..130 states with 2..16 worker processes equals the serial result (every number of "
               "states in the thorough tier)"),
    Clause("ast_denominator", st.just({"ast": True}), run_denominator, quick=4, thorough=16),
]
MATCHERS = {}
