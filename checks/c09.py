"""C09 - k-medoids refinement never worsens the cost and keeps centers in the data.

The cost of a result is recomputed by the float64 reference (mean squared
distance of every frame to the NEAREST reported center frame) and, as the
statement's own observable, also read from the reported distances.  Histories
are followed sweep by sweep through the public API: with explicit proposals,
or an integer seed, `n_iters = t+1` is a deterministic continuation of
`n_iters = t` (same start state, same proposals / same re-seeded draws in the
first t sweeps - checked against the source of _kmedoids_iterations and
_kmedoids_pam_update), so the sequence cost(1), cost(2), ... IS the sweep
history.
"""
import logging

import json
import numpy as np
from hypothesis import strategies as st

from vf.harness import Clause, Info, require
from vf import ref_cluster as rc

from enspara.cluster import kcenters as kc_mod
from enspara.cluster import kmedoids as km_mod
from enspara.cluster import hybrid as hy_mod
from enspara.cluster import util as cl_util
from enspara.cluster import KMedoids, KHybrid

logging.getLogger("enspara").setLevel(logging.ERROR)
_OMP_LIMIT = rc.single_thread_kernels()      # one OpenMP thread per shard process (see ref_cluster)

PROPERTY = "C09"
LEVEL = "exploration"
RULE = ("Hypothesis draws a data set of DISTINCT points (as C01: lattice sites, uniform or blobs + outliers, 3..40 x 1..4 "
        "quick / up to 200 x 8 thorough, six dtypes, jitter/scale, three layouts), a metric (euclidean, manhattan, "
        "Chebyshev user callable), k, 1..5 sweeps, a start (cold with integer seed; warm from center indices, from "
        "(labels, distances), from all three - states from the float64 reference assigner, from library k-centers or "
        "from a previous library k-medoids run) and a drive (explicit proposal list of arbitrary frames - members or "
        "non-members of the cluster, other centers, the current center - or an integer seed / RandomState). Histories "
        "are observed through the public API at n_iters = 1..s (deterministic continuation) and through "
        "_kmedoids_iterations at s and s+1 from identical state, as k-hybrid calls it. A history is non-trivial when "
        "it contains at least one accepted and one rejected proposal (accept = the center index of that cluster "
        "changed in that sweep); for reproducibility clauses when at least one proposal was accepted; distinct = "
        "distinct canonical JSON. Classes report accept/reject counts and, for explicit proposals, which PAM "
        "re-assignment branches accepted proposals exercised (brute-force replay). Thorough additionally enumerates every "
        "1-D integer set of 4..5 points out of {0..6} x ordered start-center pairs x proposal pairs through 3 sweeps.")
ASSUMPTIONS = [
    "points are pairwise distinct (by construction)",
    "n_iters >= 1 for stand-alone k-medoids; cold k-medoids only with k small enough that k random frames are distinct "
    "with probability >= 1e-3 (the library redraws until they are)",
    "supplied start states are consistent: distinct center frames, nearest-center labels, exact distances (float64)",
    "every call gets FRESH copies of the warm-start containers (the library's in-place update of cluster_center_inds "
    "is C01's finding and must not leak from one call of a history into the next)",
    "determinism is claimed for integer seeds, fresh RandomState objects / fresh estimators and explicit proposals; "
    "KMedoids.fit has no seed parameter and is driven with numpy's global RNG pinned per call",
    "cost comparisons allow a relative slack of 1e-9 (1e-4 for float32 data, whose kernel arithmetic is single precision)",
]
SHARDS = {"quick": 4, "thorough": 16}


# --------------------------------------------------------------------------
# strategies

@st.composite
def medoid_case(draw, max_n=40, max_d=4, min_n=3, starts=("inds", "state", "all", "cold"),
                drives=("proposals", "seed"), entries=("kmedoids",), max_sweeps=5):
    entry = draw(st.sampled_from(list(entries)))
    metric = draw(st.sampled_from(list(rc.METRICS_SELF_NONZERO)))
    start = draw(st.sampled_from(list(starts)))
    drive = draw(st.sampled_from(list(drives)))
    if entry == "KMedoids.fit":
        drive = "seed"
    shape = draw(rc.dataset_shape(max_n=max_n, max_d=max_d, min_n=min_n))
    n = shape["n"]
    kmax = rc.max_distinct_k(n) if start == "cold" else n
    kcls = draw(st.sampled_from(["few", "any", "few"]))
    k = draw(st.integers(1, kmax if kcls == "any" else max(1, min(kmax, 4))))
    case = {"data": None, "metric": metric, "entry": entry, "start": start, "drive": drive, "k": k,
            "sweeps": draw(st.integers(1, max_sweeps)), "seed": draw(st.one_of(st.sampled_from([0, 0, 1]), st.integers(0, 2 ** 31 - 1))),
            "g1": draw(st.integers(0, 2 ** 31 - 1)), "g2": draw(st.integers(0, 2 ** 31 - 1)),
            "centers": None, "proposals": None,
            "container": draw(st.sampled_from(["list", "ndarray", "pairs"])),
            "state_src": draw(st.sampled_from(["ref", "kcenters", "kmedoids"])),
            "chain": draw(st.lists(st.integers(1, 3), min_size=2, max_size=3))}
    if start != "cold":
        case["centers"] = draw(st.lists(st.integers(0, n - 1), min_size=k, max_size=k, unique=True))
    if drive == "proposals":
        case["proposals"] = draw(st.lists(st.integers(0, n - 1), min_size=k, max_size=k))
    # trajectory lengths for centers supplied as (trajectory, frame) pairs + X_lengths (container == "pairs")
    ncut = draw(st.integers(0, min(4, n - 1)))
    cuts = sorted(draw(st.lists(st.integers(1, n - 1), min_size=ncut, max_size=ncut, unique=True))) if n > 1 else []
    edges = [0] + cuts + [n]
    case["pair_lengths"] = [edges[i + 1] - edges[i] for i in range(len(edges) - 1)]
    case["data"] = draw(rc.dataset_sites(shape))
    if case["data"]["dtype"] == "float64" and case["data"]["step"] >= 0.3 and draw(st.integers(0, 4)) == 0:
        case["data"]["offset"] = draw(st.sampled_from([3e7, 1e8, -1e8]))
    return case


@st.composite
def hybrid_case(draw, max_n=40, max_d=4, min_n=3):
    entry = draw(st.sampled_from(["hybrid", "KHybrid.fit"]))
    metric = draw(st.sampled_from(list(rc.METRICS)))
    shape = draw(rc.dataset_shape(max_n=max_n, max_d=max_d, min_n=min_n))
    n = shape["n"]
    warm = draw(st.booleans())
    init = None
    m = 0
    if warm:
        m = draw(st.integers(1, min(3, n - 1)))
        init = draw(st.lists(st.integers(0, n - 1), min_size=m, max_size=m, unique=True))
    stop = draw(st.sampled_from(["n", "radius", "both"]))
    case = {"data": None, "metric": metric, "entry": entry, "init": init, "n_clusters": None, "radius_frac": None,
            "sweeps": draw(st.integers(1, 5)), "seed": draw(st.one_of(st.sampled_from([0, 0, 1]), st.integers(0, 2 ** 31 - 1))),
            "rs_kind": draw(st.sampled_from(["int", "RandomState"])) if entry == "hybrid" else "int",
            "g1": draw(st.integers(0, 2 ** 31 - 1)), "g2": draw(st.integers(0, 2 ** 31 - 1))}
    if stop in ("n", "both"):
        kcls = draw(st.sampled_from(["few", "any", "few"]))
        case["n_clusters"] = draw(st.integers(m + 1, n if kcls == "any" else min(n, m + 4)))
    if stop in ("radius", "both"):
        case["radius_frac"] = draw(st.floats(0.05, 0.95))
    case["data"] = draw(rc.dataset_sites(shape))
    if case["data"]["dtype"] == "float64" and case["data"]["step"] >= 0.3 and draw(st.integers(0, 4)) == 0:
        case["data"]["offset"] = draw(st.sampled_from([3e7, 1e8, -1e8]))
    return case


# --------------------------------------------------------------------------
# helpers

class Ctx:
    def __init__(self, case):
        self.case = case
        self.name = case["metric"]
        self.M = rc.library_metric(self.name)
        self.X = rc.build_points(case["data"])
        rc.assert_distinct(self.X)
        self.X0 = self.X.copy()
        self.n = len(self.X)
        dt = case["data"]["dtype"]
        self.crtol = 1e-4 if dt == "float32" else 1e-9
        self.catol = 1e-18 * float(case["data"]["step"]) ** 2
        self.classes = ["metric=" + self.name, "dtype=" + dt, "kind=" + case["data"]["kind"], "offset=%s" % bool(case["data"].get("offset")),
                        "layout=" + case["data"]["layout"]]

    def no_worse(self, after, before):
        return after <= before + self.catol + self.crtol * max(abs(after), abs(before))


def center_index_list(ctx, r, what="result"):
    idx = np.asarray(r.center_indices)
    require(idx.ndim == 1 and idx.dtype.kind in "iu", "%s: center indices are not a flat integer list" % what,
            got=r.center_indices)
    require(bool(np.all((idx >= 0) & (idx < ctx.n))), "%s: center index outside the data" % what,
            got=idx.tolist(), n=ctx.n)
    return [int(i) for i in idx]


def costs(ctx, r, what="result"):
    """(reported cost = mean(r.distances**2), reference cost = mean squared distance to the
    nearest frame among the reported center INDICES)."""
    idx = center_index_list(ctx, r, what)
    d = np.asarray(r.distances, dtype=np.float64)
    require(d.shape == (ctx.n,), "%s: distances do not have one entry per frame" % what, shape=d.shape)
    return float(np.mean(d * d)), rc.ref_cost(ctx.name, ctx.X0, [ctx.X0[i] for i in idx])


def check_count_kept(ctx, r, k, what):
    require(len(r.center_indices) == k, "%s: number of center indices changed" % what,
            got=len(r.center_indices), want=k)
    require(len(r.centers) == k, "%s: number of centers changed" % what, got=len(r.centers), want=k)
    idx = center_index_list(ctx, r, what)
    require(len(set(idx)) == k, "%s: two clusters share one center frame (a cluster was lost)" % what, got=idx)
    lab = np.asarray(r.assignments)
    require(lab.shape == (ctx.n,), "%s: labels do not have one entry per frame" % what)
    require(len(np.unique(lab)) == k, "%s: number of non-empty clusters changed" % what,
            labels_present=np.unique(lab).tolist(), want=k)


def check_centers_are_frames(ctx, r, what):
    idx = center_index_list(ctx, r, what)
    require(len(r.centers) == len(idx), "%s: centers and center indices differ in number" % what)
    for c, i in enumerate(idx):
        ctr = np.asarray(r.centers[c])
        require(ctr.shape == ctx.X0[i].shape and np.array_equal(ctr, ctx.X0[i]),
                "%s: center is not the input frame at its index" % what,
                center=c, index=i, reported=ctr.tolist(), frame=ctx.X0[i].tolist())
    require(np.array_equal(ctx.X, ctx.X0), "%s: the data were modified" % what)


def same_result(a, b):
    """Bit-identical outcomes."""
    if [int(i) for i in np.asarray(a.center_indices).ravel()] != [int(i) for i in np.asarray(b.center_indices).ravel()]:
        return "center_indices differ: %s vs %s" % (list(a.center_indices), list(b.center_indices))
    if not np.array_equal(np.asarray(a.assignments), np.asarray(b.assignments)):
        return "labels differ"
    da, db = np.asarray(a.distances), np.asarray(b.distances)
    if da.shape != db.shape or da.tobytes() != db.tobytes():
        return "distances differ"
    if len(a.centers) != len(b.centers) or any(not np.array_equal(x, y) for x, y in zip(a.centers, b.centers)):
        return "centers differ"
    return None


def start_kwargs(ctx, state=None):
    """Fresh warm-start keyword arguments for kmedoids()/KMedoids.fit from the case
    (or from an explicit (center_inds, labels, distances) state)."""
    case = ctx.case
    start = case["start"]
    if state is None:
        if start == "cold":
            return {"n_clusters": case["k"]}
        cidx = [int(i) for i in case["centers"]]
        lab, dist = rc.ref_assign(ctx.name, ctx.X0, [ctx.X0[i] for i in cidx])
    else:
        cidx, lab, dist = state
        cidx = [int(i) for i in cidx]
        start = "all"
    kw = {}
    if start in ("inds", "all"):
        if case["container"] == "pairs" and case.get("pair_lengths") and sum(case["pair_lengths"]) == ctx.n:
            L = [int(x) for x in case["pair_lengths"]]
            st_ = np.concatenate([[0], np.cumsum(L)])
            pairs = []
            for g in cidx:
                t = int(np.searchsorted(st_, g, side="right") - 1)
                pairs.append((t, int(g - st_[t])))
            kw["cluster_center_inds"] = pairs
            kw["X_lengths"] = L
        else:
            # (ndarray: every second time in the narrowest unsigned type that holds these ids - an id is an id)
            narrow = np.uint8 if max(cidx) < 256 else np.uint16
            kw["cluster_center_inds"] = (np.array(cidx, dtype=np.int64 if sum(cidx) % 2 else narrow)
                                         if case["container"] == "ndarray" else list(cidx))
    if start in ("state", "all"):
        kw["assignments"] = np.array(lab, dtype=np.int64)
        kw["distances"] = np.array(dist, dtype=np.float64)
    return kw


def drive_kwargs(ctx):
    case = ctx.case
    if case["drive"] == "proposals":
        # an explicit list makes the RNG irrelevant; a cold start still needs the seed for its initial draw
        return {"proposals": [int(p) for p in case["proposals"]],
                "random_state": case["seed"] if case["start"] == "cold" else None}
    return {"random_state": case["seed"]}


def call_kmedoids(ctx, n_iters, state=None, global_seed=None, kw=None):
    """One stand-alone k-medoids call through the entry point named in the case.  `kw`: warm-start keyword arguments
    built earlier by start_kwargs - the very same objects are handed to the library again."""
    case = ctx.case
    kw = start_kwargs(ctx, state) if kw is None else dict(kw)
    with rc.pinned_global_rng(case["seed"] if global_seed is None else global_seed):
        if case["entry"] == "KMedoids.fit":
            est = KMedoids(ctx.M, n_clusters=kw.pop("n_clusters", None), n_iters=n_iters)
            est.fit(ctx.X, **kw)
            return est.result_
        kw.update(drive_kwargs(ctx))
        return km_mod.kmedoids(ctx.X, ctx.M, n_iters=n_iters, **kw)


def history_classes(ctx, hist, k, start_idx=None):
    """hist: list of center-index lists after sweep 1..s (and optionally the start).
    Returns (n_accepted, n_rejected, classes)."""
    seq = ([list(start_idx)] if start_idx is not None else []) + [list(h) for h in hist]
    acc = 0
    for a, b in zip(seq[:-1], seq[1:]):
        acc += sum(1 for x, y in zip(a, b) if x != y)
    total = k * (len(seq) - 1)
    rej = total - acc
    cl = ["accepted=%s" % ("0" if acc == 0 else "1" if acc == 1 else ">=2"),
          "rejected=%s" % ("0" if rej == 0 else ">=1"),
          "k=%s" % ("1" if k == 1 else "n" if k == ctx.n else "2..n-1"),
          "n=%s" % ("2-9" if ctx.n < 10 else "10-40" if ctx.n <= 40 else ">40")]
    return acc, rej, cl


def replay_classes(ctx, start_idx, sweeps):
    case = ctx.case
    if case["proposals"] is None or start_idx is None:
        return []
    if sweeps * len(start_idx) ** 2 * ctx.n > 300000:      # the brute-force replay is O(sweeps * k^2 * n)
        return []
    cur, logs = list(start_idx), []
    for _ in range(sweeps):
        cur, lg = rc.ref_pam_sweep(ctx.name, ctx.X0, cur, case["proposals"])
        logs += lg
    cl = rc.branch_classes(logs)
    props = case["proposals"]
    kinds = set()
    lab, _ = rc.ref_assign(ctx.name, ctx.X0, [ctx.X0[i] for i in start_idx])
    for cid, p in enumerate(props):
        if p == start_idx[cid]:
            kinds.add("proposal=current_center")
        elif p in start_idx:
            kinds.add("proposal=other_center")
        elif lab[p] == cid:
            kinds.add("proposal=member")
        else:
            kinds.add("proposal=non_member")
    return cl + sorted(kinds)


def base_classes(ctx):
    case = ctx.case
    cl = list(ctx.classes)
    for key in ("entry", "start", "drive"):
        if key in case:
            cl.append("%s=%s" % (key, case[key]))
    return cl


# --------------------------------------------------------------------------
# clause 1: cost never increases along the sweep history (public API)

def run_sweep_cost_public(case):
    ctx = Ctx(case)
    s, k = case["sweeps"], case["k"]
    start_idx = None
    prev_rep = prev_ref = None
    if case["start"] != "cold":
        start_idx = [int(i) for i in case["centers"]]
        prev_ref = rc.ref_cost(ctx.name, ctx.X0, [ctx.X0[i] for i in start_idx])
        prev_rep = prev_ref
    hist = []
    for t in range(1, s + 1):
        r = call_kmedoids(ctx, t)
        rep, ref = costs(ctx, r, "n_iters=%d" % t)
        if prev_ref is not None:
            require(ctx.no_worse(ref, prev_ref),
                    "sweep %d increased the mean squared distance to the nearest center" % t,
                    before=prev_ref, after=ref, centers_before=(hist[-1] if hist else start_idx),
                    centers_after=center_index_list(ctx, r))
            require(ctx.no_worse(rep, prev_rep),
                    "sweep %d increased the reported mean squared distance" % t, before=prev_rep, after=rep)
        prev_rep, prev_ref = rep, ref
        hist.append(center_index_list(ctx, r))
    acc, rej, cl = history_classes(ctx, hist, k, start_idx)
    cl += base_classes(ctx) + replay_classes(ctx, start_idx, s)
    return Info(acc >= 1 and rej >= 1, cl)


# --------------------------------------------------------------------------
# clause 2: _kmedoids_iterations for s and s+1 sweeps from identical state (the way hybrid uses it)

def library_state(ctx, src):
    """A consistent (center_inds, labels, distances) state and where it came from."""
    case = ctx.case
    k = case["k"]
    if src == "kcenters":
        r = kc_mod.kcenters(ctx.X, ctx.M, n_clusters=k)
        return [int(i) for i in r.center_indices], np.array(r.assignments), np.array(r.distances)
    cidx = [int(i) for i in case["centers"]] if case["centers"] is not None else list(range(k))
    if src == "kmedoids":
        r = km_mod.kmedoids(ctx.X, ctx.M, n_iters=1, cluster_center_inds=list(cidx), random_state=case["g1"])
        return [int(i) for i in r.center_indices], np.array(r.assignments), np.array(r.distances)
    lab, dist = rc.ref_assign(ctx.name, ctx.X0, [ctx.X0[i] for i in cidx])
    return cidx, lab, dist


def run_sweep_cost_iterations(case):
    ctx = Ctx(case)
    s, k = case["sweeps"], case["k"]
    cidx, lab, dist = library_state(ctx, case["state_src"])
    fn = cl_util._get_distance_method(ctx.M)
    cost0 = rc.ref_cost(ctx.name, ctx.X0, [ctx.X0[i] for i in cidx])
    res = []
    for t in (s, s + 1):
        kw = ({"proposals": [int(p) for p in case["proposals"]]} if case["drive"] == "proposals"
              else {"random_state": case["seed"]})
        container = np.array(cidx, dtype=np.int64) if case["container"] == "ndarray" else list(cidx)
        with rc.pinned_global_rng(case["g1"] if t == s else case["g2"]):
            r = km_mod._kmedoids_iterations(ctx.X, fn, t, container, lab.copy(), dist.copy(), **kw)
        res.append(r)
    (rep_s, ref_s), (rep_s1, ref_s1) = costs(ctx, res[0], "s sweeps"), costs(ctx, res[1], "s+1 sweeps")
    require(ctx.no_worse(ref_s, cost0), "s sweeps ended above the starting cost", start=cost0, after=ref_s, s=s)
    require(ctx.no_worse(ref_s1, ref_s), "sweep s+1 increased the mean squared distance to the nearest center",
            after_s=ref_s, after_s1=ref_s1, s=s, centers_s=center_index_list(ctx, res[0]),
            centers_s1=center_index_list(ctx, res[1]))
    require(ctx.no_worse(rep_s1, rep_s), "sweep s+1 increased the reported mean squared distance",
            after_s=rep_s, after_s1=rep_s1, s=s)
    for r, what in zip(res, ("s sweeps", "s+1 sweeps")):
        check_count_kept(ctx, r, k, what)
        check_centers_are_frames(ctx, r, what)
    acc, rej, cl = history_classes(ctx, [center_index_list(ctx, res[0]), center_index_list(ctx, res[1])], k, cidx)
    cl += base_classes(ctx) + ["state_src=" + case["state_src"]]
    cl += replay_classes(ctx, cidx, s + 1)
    moved = center_index_list(ctx, res[0]) != cidx or center_index_list(ctx, res[1]) != center_index_list(ctx, res[0])
    return Info(moved and k >= 2 and ctx.n > k, cl)


# --------------------------------------------------------------------------
# clauses 3 + 4: number of clusters kept / centers stay frames, every entry point

def _hybrid_args(ctx):
    case = ctx.case
    X = ctx.X
    init = None if case["init"] is None else X[np.array(case["init"], dtype=int)]
    start = [ctx.X0[i] for i in case["init"]] if case["init"] is not None else [ctx.X0[0]]
    radius = None
    if case["radius_frac"] is not None:
        radius = case["radius_frac"] * rc.ref_radius(ctx.name, ctx.X0, start)
    k = case["n_clusters"]
    return init, k, radius


def call_hybrid(ctx, n_iters, global_seed=None, entry=None):
    case = ctx.case
    init, k, radius = _hybrid_args(ctx)
    entry = entry or case["entry"]
    with rc.pinned_global_rng(case["g1"] if global_seed is None else global_seed):
        if entry == "KHybrid.fit":
            est = KHybrid(ctx.M, n_clusters=k, cluster_radius=radius, kmedoids_updates=n_iters,
                          random_state=case["seed"])
            est.fit(ctx.X, init_centers=init) if init is not None else est.fit(ctx.X)
            return est.result_
        kw = {}
        if k is not None:
            kw["n_clusters"] = k
        if radius is not None:
            kw["dist_cutoff"] = radius
        if init is not None:
            kw["init_centers"] = init
        rs = case["seed"] if case["rs_kind"] == "int" else np.random.RandomState(case["seed"])
        return hy_mod.hybrid(ctx.X, ctx.M, n_iters=n_iters, random_state=rs, **kw)


def call_kcenters(ctx):
    init, k, radius = _hybrid_args(ctx)
    kw = {}
    if k is not None:
        kw["n_clusters"] = k
    if radius is not None:
        kw["dist_cutoff"] = radius
    if init is not None:
        kw["init_centers"] = init
    return kc_mod.kcenters(ctx.X, ctx.M, **kw)


def _any_entry_result(case):
    """Run the entry point named in the case once (s sweeps); return ctx, result, expected k,
    start center indices (None if unknown), classes."""
    ctx = Ctx(case)
    if case["entry"] in ("hybrid", "KHybrid.fit"):
        base = call_kcenters(ctx)
        k = len(base.center_indices)
        start_idx = [int(i) for i in base.center_indices]
        r = call_hybrid(ctx, case["sweeps"])
        cl = ctx.classes + ["entry=" + case["entry"], "start=" + ("cold" if case["init"] is None else "warm"),
                            "rs=" + case["rs_kind"]]
    else:
        k = case["k"]
        start_idx = None if case["start"] == "cold" else [int(i) for i in case["centers"]]
        r = call_kmedoids(ctx, case["sweeps"])
        cl = base_classes(ctx)
    moved = start_idx is None or center_index_list(ctx, r) != start_idx
    cl.append("centers_moved=%s" % moved)
    cl.append("k=%s" % ("1" if k == 1 else "n" if k == ctx.n else "2..n-1"))
    return ctx, r, k, start_idx, cl, (moved and k >= 2 and ctx.n > k)


def run_cluster_count_kept(case):
    ctx, r, k, start_idx, cl, nt = _any_entry_result(case)
    check_count_kept(ctx, r, k, "%s after %d sweeps" % (case["entry"], case["sweeps"]))
    return Info(nt, cl)


def run_centers_stay_frames(case):
    ctx, r, k, start_idx, cl, nt = _any_entry_result(case)
    check_centers_are_frames(ctx, r, "%s after %d sweeps" % (case["entry"], case["sweeps"]))
    return Info(nt, cl)


# --------------------------------------------------------------------------
# clause 5: k-hybrid is never worse than the k-centers solution it starts from

def run_hybrid_not_worse(case):
    ctx = Ctx(case)
    base = call_kcenters(ctx)
    rep0, ref0 = costs(ctx, base, "kcenters")
    k = len(base.center_indices)
    s = case["sweeps"]
    hist = []
    prev_rep, prev_ref = rep0, ref0
    # integer seeds and fresh estimators / RandomState objects make n_iters = t+1 a continuation of t
    for t in range(0, s + 1):
        r = call_hybrid(ctx, t)
        rep, ref = costs(ctx, r, "hybrid n_iters=%d" % t)
        require(ctx.no_worse(ref, ref0), "k-hybrid ended above the cost of its k-centers start",
                kcenters=ref0, hybrid=ref, n_iters=t, centers=center_index_list(ctx, r))
        require(ctx.no_worse(rep, rep0), "k-hybrid reports a larger mean squared distance than k-centers",
                kcenters=rep0, hybrid=rep, n_iters=t)
        require(ctx.no_worse(ref, prev_ref), "hybrid refinement sweep %d increased the cost" % t,
                before=prev_ref, after=ref)
        check_count_kept(ctx, r, k, "hybrid n_iters=%d" % t)
        prev_rep, prev_ref = rep, ref
        hist.append(center_index_list(ctx, r))
    acc, rej, cl = history_classes(ctx, hist[1:], k, hist[0])
    cl += ctx.classes + ["entry=" + case["entry"], "start=" + ("cold" if case["init"] is None else "warm"),
                         "rs=" + case["rs_kind"],
                         "stop=" + ("both" if case["n_clusters"] is not None and case["radius_frac"] is not None
                                    else "n" if case["n_clusters"] is not None else "radius"),
                         "improved=%s" % (ref < ref0 * (1 - 1e-6))]
    return Info(acc >= 1 and rej >= 1, cl)


# --------------------------------------------------------------------------
# clauses 6 + 7: reproducibility

def run_reproducible_seed(case):
    ctx = Ctx(case)
    s = case["sweeps"]
    if case["entry"] in ("hybrid", "KHybrid.fit"):
        a = call_hybrid(ctx, s, global_seed=case["g1"])
        b = call_hybrid(ctx, s, global_seed=case["g2"])
        start_idx = [int(i) for i in call_kcenters(ctx).center_indices]
        cl = ctx.classes + ["entry=" + case["entry"], "rs=" + case["rs_kind"]]
    else:
        # the unrelated global RNG state differs between the two calls: only the seed may matter
        a = call_kmedoids(ctx, s, global_seed=case["g1"])
        b = call_kmedoids(ctx, s, global_seed=case["g2"])
        start_idx = None if case["start"] == "cold" else [int(i) for i in case["centers"]]
        cl = base_classes(ctx)
    diff = same_result(a, b)
    require(diff is None, "same seed, different outcome: %s" % diff, seed=case["seed"])
    idx = center_index_list(ctx, a)
    moved = start_idx is None or idx != start_idx
    cl.append("centers_moved=%s" % moved)
    k = len(idx)
    return Info(moved and k >= 2 and ctx.n > k, cl)


def run_reproducible_proposals(case):
    ctx = Ctx(case)
    s = case["sweeps"]
    a = call_kmedoids(ctx, s, global_seed=case["g1"])
    b = call_kmedoids(ctx, s, global_seed=case["g2"])
    diff = same_result(a, b)
    require(diff is None, "same proposals, different outcome: %s" % diff, proposals=case["proposals"])
    # the history is reproducible too: the first s-1 sweeps of the s-sweep run are the (s-1)-sweep run
    start_idx = [int(i) for i in case["centers"]]
    idx = center_index_list(ctx, a)
    moved = idx != start_idx
    cl = base_classes(ctx) + ["centers_moved=%s" % moved] + replay_classes(ctx, start_idx, s)
    return Info(moved and len(idx) >= 2 and ctx.n > len(idx), cl)


# --------------------------------------------------------------------------
# clause 8: starting from a supplied consistent state preserves the guarantees (chains of restarts)

def run_warm_state_guarantees(case):
    ctx = Ctx(case)
    k = case["k"]
    cidx, lab, dist = library_state(ctx, case["state_src"])
    k = len(cidx)
    state = (cidx, lab, dist)
    cost_prev = rc.ref_cost(ctx.name, ctx.X0, [ctx.X0[i] for i in cidx])
    hist = [list(cidx)]
    total = 0
    for leg, sweeps in enumerate(case["chain"]):
        snap = (list(state[0]), np.array(state[1]).copy(), np.array(state[2]).copy())
        # the caller's own state arrays are handed over, and handed over AGAIN for the second run (a restart script
        # keeps them): the supplied state must still be the supplied state afterwards
        kw_state = start_kwargs(ctx, state)
        kw_snap = {k_: (v.copy() if isinstance(v, np.ndarray) else json.loads(json.dumps(v, default=int))) for k_, v in kw_state.items()}
        r = call_kmedoids(ctx, sweeps, global_seed=case["g1"], kw=kw_state)
        for k_, v in kw_state.items():
            same = (v.dtype == kw_snap[k_].dtype and v.tobytes() == kw_snap[k_].tobytes()) if isinstance(v, np.ndarray) \
                else json.loads(json.dumps(v, default=int)) == kw_snap[k_]
            require(same, "restart %d modified the caller's %s" % (leg + 1, k_),
                    before=np.asarray(kw_snap[k_]).tolist(), after=np.asarray(v).tolist())
        # KMedoids.fit has no seed parameter: its reproducibility is only claimed for an identical global RNG
        r2 = call_kmedoids(ctx, sweeps, global_seed=case["g1"] if case["entry"] == "KMedoids.fit" else case["g2"],
                           kw=kw_state)
        what = "restart %d (%d sweeps)" % (leg + 1, sweeps)
        check_count_kept(ctx, r, k, what)
        check_centers_are_frames(ctx, r, what)
        rep, ref = costs(ctx, r, what)
        require(ctx.no_worse(ref, cost_prev), "%s ended above the cost of the supplied state" % what,
                supplied=cost_prev, after=ref, supplied_centers=hist[-1], centers=center_index_list(ctx, r))
        require(ctx.no_worse(rep, cost_prev), "%s reports a cost above that of the supplied state" % what,
                supplied=cost_prev, reported=rep)
        diff = same_result(r, r2)
        require(diff is None, "%s is not reproducible from the same supplied state: %s" % (what, diff))
        require(np.array_equal(snap[1], np.asarray(state[1])) and snap[2].tobytes() == np.asarray(state[2]).tobytes(),
                "%s modified the supplied labels/distances" % what)
        cost_prev = ref
        total += sweeps
        state = ([int(i) for i in r.center_indices], np.array(r.assignments), np.array(r.distances))
        hist.append(list(state[0]))
    acc = sum(1 for a, b in zip(hist[:-1], hist[1:]) if a != b)
    cl = base_classes(ctx) + ["state_src=" + case["state_src"], "legs=%d" % len(case["chain"]),
                              "legs_that_moved=%d" % acc,
                              "k=%s" % ("1" if k == 1 else "n" if k == ctx.n else "2..n-1")]
    return Info(acc >= 1 and k >= 2 and ctx.n > k, cl)


# --------------------------------------------------------------------------

def exhaustive_small(tier, shard, nshards):
    """Every 1-D integer set of 4..5 points out of {0..6} x every ordered pair of start centers x every pair of
    proposals, followed through 3 sweeps (all accept/reject sequences that can occur on these tie-rich sets)."""
    if tier != "thorough":
        return None

    def gen():
        import itertools
        idx = 0
        for size in (4, 5):
            for pts in itertools.combinations(range(7), size):
                for ctrs in itertools.permutations(range(size), 2):
                    for props in itertools.product(range(size), repeat=2):
                        idx += 1
                        if idx % nshards != shard:
                            continue
                        yield {"data": {"sites": [[p] for p in pts], "step": 1, "jitter": None, "dtype": "int64",
                                        "layout": "C", "kind": "uniform"},
                               "metric": rc.TRUE_METRICS[idx % 3], "entry": "kmedoids", "start": "inds",
                               "drive": "proposals", "k": 2, "sweeps": 3, "seed": 0, "g1": 1, "g2": 2,
                               "centers": list(ctrs), "proposals": list(props), "container": "list",
                               "state_src": "ref", "chain": [1, 1]}
    return gen()


_KM = medoid_case()
_KM_WARM = medoid_case(starts=("inds", "state", "all"))
_KM_ALL_ENTRIES = medoid_case(entries=("kmedoids", "KMedoids.fit", "kmedoids"))
_HY = hybrid_case()


@st.composite
def any_entry_case(draw, **kw):
    if draw(st.booleans()):
        return draw(hybrid_case(**kw))
    return draw(medoid_case(entries=("kmedoids", "KMedoids.fit"), **kw))


@st.composite
def seed_case(draw, **kw):
    if draw(st.booleans()):
        return draw(hybrid_case(**kw))
    return draw(medoid_case(entries=("kmedoids",), drives=("seed",), **kw))


# --------------------------------------------------------------------------
# tens of thousands of frames (seeded): more frames than any internal block

@st.composite
def many_frames_case(draw):
    return {"n": draw(st.sampled_from([32767, 32768, 32769, 39768, 70001])), "d": draw(st.integers(1, 3)),
            "k": draw(st.integers(2, 5)), "seed": draw(st.integers(0, 2 ** 31 - 1)),
            "metric": draw(st.sampled_from(["euclidean", "manhattan", "chebyshev"])),
            "entry": draw(st.sampled_from(["kmedoids", "kmedoids", "hybrid"])), "sweeps": draw(st.integers(1, 2)),
            "tail": draw(st.sampled_from(["same", "far"]))}


def run_many_frames(case):
    rng = np.random.RandomState(case["seed"])            # seed drawn by Hypothesis
    n, d, k = case["n"], case["d"], case["k"]
    X = rng.normal(size=(n, d)) + rng.randint(0, 3, size=(n, 1)) * 4.0
    if case["tail"] == "far":
        # the last frames form a group of their own, far from everything else: losing them from a distance
        # computation cannot go unnoticed
        t = rng.randint(100, 5000)
        X[-t:] += 40.0
    name = case["metric"]
    M = rc.library_metric(name)

    def cost_of(centers_idx):
        D = np.stack([rc.ref_dist(name, X, X[i]) for i in centers_idx], axis=1)
        lab = D.argmin(axis=1)
        dist = D[np.arange(n), lab]
        return float(np.mean(dist * dist)), lab, dist
    if case["entry"] == "hybrid":
        base = kc_mod.kcenters(X, M, n_clusters=k)
        c0, _, _ = cost_of([int(i) for i in base.center_indices])
        r = hy_mod.hybrid(X, M, n_clusters=k, n_iters=case["sweeps"], random_state=case["seed"] % (2 ** 31))
    else:
        start = [int(i) for i in rng.choice(n, size=k, replace=False)]
        c0, lab0, dist0 = cost_of(start)
        # the warm-start state as a restart file holds it: center indices in the narrowest unsigned type that holds the
        # CURRENT ones (every second case; sorted start so that small ids are common), labels in a narrow type too
        st_arg = list(start)
        if case["seed"] % 2 == 0:
            low = sorted(int(i) for i in rng.choice(250, size=k, replace=False))
            start = low
            c0, lab0, dist0 = cost_of(start)
            st_arg = np.array(start, dtype=np.uint8)
        r = km_mod.kmedoids(X, M, cluster_center_inds=st_arg, assignments=lab0.astype(np.int64 if case["seed"] % 3 else np.int16), distances=dist0.copy(),
                            n_iters=case["sweeps"], random_state=case["seed"] % (2 ** 31))
    idx = [int(i) for i in np.asarray(r.center_indices).ravel()]
    require(len(idx) == k and len(set(idx)) == k, "the number of clusters was not kept", got=len(set(idx)), want=k)
    c1, lab1, dist1 = cost_of(idx)
    require(c1 <= c0 * (1 + 1e-9) + 1e-12, "the sweep(s) left the mean squared distance larger than before (%d frames)" % n,
            before=c0, after=c1, entry=case["entry"])
    got = np.asarray(r.distances, dtype=float)
    require(np.allclose(got, rc.ref_dist_matrix(name, X, [X[i] for i in idx])[np.arange(n), np.asarray(r.assignments)],
                        rtol=1e-9, atol=1e-12), "reported distances are not the distances to the labelled centers (%d frames)" % n)
    rep = float(np.mean(got * got))
    require(abs(rep - c1) <= 1e-9 * max(c1, 1e-300) + 1e-12, "reported cost differs from the true cost of the returned centers",
            reported=rep, true=c1)
    return Info(n > 32768 and c1 < c0, ["many_n=%d" % n, "many_entry=" + case["entry"], "many_metric=" + name,
                                        "improved=%s" % (c1 < c0)], key=[case[k_] for k_ in sorted(case)])


CLAUSES = [
    Clause("sweep_cost_public", _KM_ALL_ENTRIES, run_sweep_cost_public, quick=1100, thorough=18000,
           exhaustive=exhaustive_small,
           doc="every stand-alone sweep leaves the mean squared distance no larger (history via n_iters=1..s)"),
    Clause("sweep_cost_iterations", _KM_WARM, run_sweep_cost_iterations, quick=800, thorough=15000,
           doc="sweep s+1 of _kmedoids_iterations from identical state (as hybrid calls it) does not raise the cost"),
    Clause("cluster_count_kept", any_entry_case(), run_cluster_count_kept, quick=800, thorough=15000,
           doc="every sweep keeps the number of clusters"),
    Clause("centers_stay_frames", any_entry_case(), run_centers_stay_frames, quick=800, thorough=15000,
           doc="every center stays an actual frame of the input"),
    Clause("hybrid_not_worse", _HY, run_hybrid_not_worse, quick=700, thorough=13000,
           doc="k-hybrid is never worse in cost than the k-centers solution it starts from"),
    Clause("reproducible_seed", seed_case(), run_reproducible_seed, quick=700, thorough=13000,
           doc="with a fixed random seed the outcome is reproducible"),
    Clause("reproducible_proposals", medoid_case(starts=("inds", "state", "all"), drives=("proposals",)),
           run_reproducible_proposals, quick=550, thorough=11000,
           doc="with explicitly supplied proposals the outcome is reproducible"),
    Clause("warm_state_guarantees", medoid_case(starts=("all",), entries=("kmedoids", "KMedoids.fit", "kmedoids")),
           run_warm_state_guarantees, quick=550, thorough=11000,
           doc="starting from a supplied consistent state (centers, labels, distances) preserves the guarantees"),
    Clause("sweep_cost_many_frames", many_frames_case(), run_many_frames, quick=12, thorough=160,
           doc="32767..70001 frames: cost never grows, cluster count kept, reported distances are those of the returned centers"),
    Clause("sweep_cost_large", medoid_case(max_n=200, max_d=8, min_n=30), run_sweep_cost_public, quick=0,
           thorough=2000, doc="cost history on 30..200 frames"),
    Clause("hybrid_large", hybrid_case(max_n=200, max_d=8, min_n=30), run_hybrid_not_worse, quick=0,
           thorough=2000, doc="hybrid vs k-centers on 30..200 frames"),
]
MATCHERS = {}
