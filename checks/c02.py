"""C02 - k-centers: farthest-point rule, monotone radius, 2-approximation, exact stopping,
triangle-inequality shortcut equivalence.

Statement sentences -> clauses
  start            "starts from the first frame (or from the supplied initial centers)"
  farthest         "every further center is a frame whose distance to the centers chosen so far is
                    the largest of all frames at that moment"
  monotone         "the covering radius never grows as centers are added"
  two_approx       "the final radius is at most twice the optimal radius for that many centers"
  stop             "stops exactly when the requested number of centers is reached or the covering
                    radius is no longer above the requested cutoff, whichever happens first"
  stop_warm_noop   same sentence, sub-domain: warm start that already satisfies a criterion
  shortcut         "the triangle-inequality shortcut returns the same centers, labels and distances"
  shortcut_offdata same sentence, sub-domain: initial centers that are not frames of the data
"""
import bisect
import itertools
import logging

import numpy as np
from hypothesis import strategies as st

from vf.harness import Clause, Info, require, Skip, Violation
from vf import ref_c02 as R

from enspara.cluster.kcenters import kcenters, KCenters
from enspara.geometry import libdist

PROPERTY = "C02"
LEVEL = "exploration"
RULE = (
    "Hypothesis draws a set of DISTINCT points (1..14 lattice sites drawn one by one, or a seeded bulk set of "
    "blobs+outliers with up to 40 (quick) / 200 (thorough) frames; 1..4 dimensions; exact lattice values in "
    "int32/int64/float32/float64 = tie-heavy, or lattice+seeded jitter in float32/float64 = tie-free), a metric "
    "obeying the triangle inequality ('euclidean', 'manhattan', 'cityblock', Chebyshev and sqrt(L1) as user "
    "callables, libdist.hamming as callable on integer words), a start (cold; 1..3 data frames in drawn order, "
    "as array or list; 1..3 off-data points each of which owns a frame), the stopping criteria (n_clusters alone "
    "in 1..n+1; radius alone; both, with n_clusters drawn around the index at which the radius criterion fires), "
    "how an absent criterion is passed (omitted / None), the entry point (kcenters() / KCenters.fit) and the "
    "shortcut flag. Radius cutoffs are midpoints between well-separated consecutive values of the set of ALL "
    "frame<->candidate-center distances of the case (plus 0 and 'above everything'), aimed at a drawn step of the "
    "float64 reference greedy sequence, so no comparison radius>cutoff can sit on a rounding boundary whatever "
    "tie-break the code uses. Oracles: literal float64 replay of Gonzalez' rule along the centers the library "
    "reports (tie-tolerant validity), prefix runs for the radius sequence, exhaustive C(n,k) optimum (n<=12/14), "
    "neither-early-nor-late stopping predicate, plain-vs-shortcut differential. A case is non-trivial when >=3 "
    "centers are chosen beyond the initial ones or the radius criterion stops the run although n_clusters was "
    "also given (shortcut clauses: additionally the reference replay shows that the shortcut really skipped at "
    "least one frame); distinct = distinct canonical JSON of the case. Every run is watched through the per-center "
    "log record of kcenters: more added centers than frames aborts the case (count-bounded guard against a run "
    "that would never terminate). Thorough additionally enumerates every "
    "ordering of every <=4-subset of the 1-D lattice {0..5} x n_clusters x half-integer cutoffs x cold/warm x "
    "shortcut for the stopping clause.")
ASSUMPTIONS = [
    "data points are pairwise distinct (duplicates are outside the clustering checks, DESIGN 5)",
    "the metric obeys the triangle inequality and d(x,x)=0",
    "at least one stopping criterion is given; n_clusters >= 1; a radius cutoff of exactly 0 is only combined "
    "with a finite n_clusters (kcenters itself treats dist_cutoff=0 as 'not given')",
    "initial centers have the dtype of the data and every initial center owns at least one frame (otherwise "
    "kcenters' center bookkeeping is undefined); initial centers that are data frames are distinct frames",
    "the 2*OPT bound is only demanded where Gonzalez' theorem applies: cold start or a single data frame as "
    "initial center; OPT is the discrete optimum (centers restricted to frames), which is >= the continuous one",
    "serial code path only (mpi4py blocked -> DummyComm); random_first_center is NotImplemented by design",
]
SHARDS = {"quick": 4, "thorough": 16}

LOGGER = logging.getLogger("enspara.cluster.kcenters")

# libdist's kernels are OpenMP loops; with the default of one thread per core a distance call on a dozen frames
# costs ~0.5 s on a loaded machine (spinning barriers) against 3 us single-threaded. The thread count is a
# dimension of C13, not of this property, so it is pinned to 1 for this process.
try:
    from threadpoolctl import threadpool_limits
    _OMP_PIN = threadpool_limits(limits=1, user_api="openmp")
except Exception:                                   # pragma: no cover
    _OMP_PIN = None
LIB_METRICS = ("euclidean", "manhattan", "cityblock")
CALLABLE_METRICS = ("chebyshev", "sqrt_l1")
INT_DTYPES = ("int32", "int64")


# ------------------------------------------------------------------ helpers

def metric_obj(name, reuse=False):
    if name in LIB_METRICS:
        return name
    if name == "hamming":
        return libdist.hamming
    if name in CALLABLE_METRICS:
        if reuse:
            # a metric that writes every result into one work vector and returns it (partial(kernel, out=scratch))
            state = {"buf": None}

            def g(X, y, _name=name):
                d_ = R.ref_dist(_name, np.asarray(X), np.asarray(y))
                if state["buf"] is None or state["buf"].shape != d_.shape:
                    state["buf"] = np.empty_like(d_)
                state["buf"][...] = d_
                return state["buf"]
            return g

        def f(X, y, _name=name):
            return R.ref_dist(_name, np.asarray(X), np.asarray(y))
        return f
    raise ValueError(name)


def tol_of(case, scale):
    return (1e-5 if case["dtype"] == "float32" else 1e-9) * scale


def mingap_of(dtype, scale):
    return (1e-3 if dtype == "float32" else 1e-6) * scale


def build_X(case):
    X = np.array(case["X"], dtype=case["dtype"]).reshape(len(case["X"]), case["d"])
    lay = case.get("layout", "C")
    if lay == "F":
        return np.asfortranarray(X)
    if lay == "T":                    # the transpose of a (features, frames) table
        return np.ascontiguousarray(X.T).T
    if lay == "colstride":            # every second column of a wider table
        big = np.full((X.shape[0], 2 * X.shape[1] + 1), 3, dtype=X.dtype)
        big[:, 1::2] = X
        return big[:, 1::2]
    return X


def build_init(case, X):
    """-> (init argument for the library, (m0, d) array of the initial centers or None)."""
    ini = case["init"]
    if ini is None:
        return None, None
    if ini["kind"] == "frames":
        pts = X[np.array(ini["idx"], dtype=int)]
    else:
        pts = np.array(ini["pts"], dtype=ini.get("pts_dtype", case["dtype"])).reshape(len(ini["pts"]), case["d"])
    cont = ini.get("container", "array")
    if cont == "array":
        arg = pts.copy()
    elif cont == "tuple":
        arg = tuple(p.copy() for p in pts)
    elif cont == "generator":
        arg = (p.copy() for p in list(pts))       # a one-shot iterable (the documented type is "array-like")
    else:
        arg = [p.copy() for p in pts]
    return arg, pts


class Runaway(AssertionError):
    """The run kept adding centers after every frame must have been covered (would never terminate)."""


class _Cap(logging.Handler):
    """Collects the per-center log records of one run. It doubles as a watchdog: a run that has added more
    centers than there are frames can only be looping forever (radius-only criterion), so the handler aborts it
    from inside the loop instead of letting the check hang. Bounded by a count, not by time."""

    def __init__(self, limit):
        logging.Handler.__init__(self, level=logging.DEBUG)
        self.records = []
        self.limit = limit
        self.added = 0

    def emit(self, record):
        self.records.append((record.msg, record.args))
        if isinstance(record.msg, str) and record.msg.startswith("Center %s gives max dist"):
            self.added += 1
            if self.added > self.limit:
                raise Runaway("k-centers added %d centers to %d frames and is still running"
                              % (self.added, self.limit - 2))


def call_lib(case, n_clusters="case", cutoff="case", tri="case", entry="case"):
    """One call of the code under test with the arguments spelled out in the case.
    Returns (ClusterResult, list of radii the run logged after each added center)."""
    X = build_X(case)
    init_arg, _ = build_init(case, X)
    n_clusters = case["n_clusters"] if n_clusters == "case" else n_clusters
    cutoff = case["cutoff"] if cutoff == "case" else cutoff
    tri = case["tri"] if tri == "case" else tri
    entry = case["entry"] if entry == "case" else entry
    metric = metric_obj(case["metric"], reuse=bool(case.get("reuse_buffer")))
    cap = _Cap(len(X) + 2)
    old = (LOGGER.level, LOGGER.propagate, logging.root.manager.disable)
    logging.disable(logging.NOTSET)      # vf.env silences INFO globally; this logger is captured, not printed
    LOGGER.addHandler(cap)
    # the verbosity of the library's logger is a property of the process, not of the computation: DEBUG (what the
    # cluster app sets on rank 0, what pytest --log-level=DEBUG sets) must give the same clustering as INFO
    LOGGER.setLevel(logging.DEBUG if case.get("debug_log") else logging.INFO)
    LOGGER.propagate = False
    # ... and a user who wants debug output switches it on for the whole package (logging.getLogger('enspara')), so every
    # module's logger that has no level of its own - the metric helpers' included - answers isEnabledFor(DEBUG) with yes
    PKG = logging.getLogger("enspara")
    old_pkg = PKG.level
    if case.get("debug_log"):
        PKG.setLevel(logging.DEBUG)
    try:
        if entry.startswith("class") and not tri:
            if entry == "class":
                est = KCenters(metric=metric, n_clusters=n_clusters, cluster_radius=cutoff)
            else:
                # the request is changed on a live estimator (scikit-learn protocol): built - and for *_refit also
                # fitted once - with other stopping criteria, then given the criteria of the case
                est = KCenters(metric=metric, n_clusters=1 if n_clusters is None else n_clusters + 2,
                               cluster_radius=None if n_clusters is None and cutoff is not None else
                               (1e-3 if cutoff is None else 4.0 * cutoff))
                if entry.endswith("refit"):
                    est.fit(X)
                    cap.added = 0
                    del cap.records[:]
                if entry.startswith("class_set_params"):
                    est.set_params(n_clusters=n_clusters, cluster_radius=cutoff)
                else:
                    est.n_clusters = n_clusters
                    est.cluster_radius = cutoff
            if init_arg is None and case.get("style") == "omit":
                est.fit(X)
            elif case.get("style") == "positional":
                est.fit(X, init_arg)              # fit(X, init_centers): the documented order of the two parameters
            else:
                est.fit(X, init_centers=init_arg)
            res = est.result_
        else:
            kw = {}
            if n_clusters is not None or case.get("style") == "none":
                kw["n_clusters"] = n_clusters
            if cutoff is not None or case.get("style") == "none":
                kw["dist_cutoff"] = cutoff
            if init_arg is not None or case.get("style") == "none":
                kw["init_centers"] = init_arg
            if tri or case.get("style") == "none":
                kw["use_triangle_inequality"] = bool(tri)
            res = kcenters(X, metric, **kw)
    finally:
        LOGGER.removeHandler(cap)
        PKG.setLevel(old_pkg)
        LOGGER.setLevel(old[0])
        LOGGER.propagate = old[1]
        logging.disable(old[2])
    if isinstance(init_arg, list):
        # the same container is what a caller hands to a second run (plain vs shortcut, other stopping criteria):
        # if the run grew or rewrote it, that second run no longer "starts from the supplied initial centers"
        _, pts0 = build_init(case, X)
        require(len(init_arg) == len(pts0) and all(np.array_equal(a, b) for a, b in zip(init_arg, pts0)),
                "the run modified the caller's list of initial centers", before=len(pts0), after=len(init_arg))
    logged = [float(a[1]) for (m, a) in cap.records
              if isinstance(m, str) and m.startswith("Center %s gives max dist") and a and len(a) >= 2]
    return res, logged


class View:
    """Reference-side view of one library result."""

    def __init__(self, case, res):
        self.case = case
        self.X = X = build_X(case)
        self.n = n = len(X)
        _, self.init_pts = build_init(case, X)
        self.m0 = 0 if self.init_pts is None else len(self.init_pts)
        metric = case["metric"]
        self.D = R.pairwise(metric, X)
        self.init_cols = None if self.m0 == 0 else R.columns(metric, X, self.init_pts)
        self.scale = R.scale_of(self.D, self.init_cols)
        self.tol = tol_of(case, self.scale)
        # ---- structure of the result (needed before anything can be replayed)
        ci = list(res.center_indices)
        self.m = m = len(ci)
        require(len(res.centers) == m, "len(centers) != len(center_indices)", centers=len(res.centers), idx=ci)
        require(m >= max(self.m0, 1), "fewer centers than the run started with", m=m, m0=self.m0)
        for c in ci:
            require(isinstance(c, (int, np.integer)) and 0 <= int(c) < n, "center index is not a frame number", idx=ci)
        self.ci = [int(c) for c in ci]
        self.lab = np.asarray(res.assignments)
        self.dist = np.asarray(res.distances, dtype=float)
        require(self.lab.shape == (n,) and self.dist.shape == (n,), "assignments/distances are not one per frame",
                lab=self.lab.shape, dist=self.dist.shape)
        require(np.issubdtype(self.lab.dtype, np.integer) and self.lab.min() >= 0 and self.lab.max() < m,
                "labels outside [0, n_centers)", labels=self.lab.tolist(), m=m)
        self.centers = [np.asarray(c) for c in res.centers]
        # ---- reference distance columns of the reported centers, in reported order
        cols = np.empty((n, m))
        for i in range(m):
            if i < self.m0:
                cols[:, i] = self.init_cols[:, i]
            else:
                cols[:, i] = self.D[:, self.ci[i]]
        self.cols = cols
        self.radii = R.path_radii(cols)            # radii[j], j = 0..m ; radii[0] = inf
        self.lib_radius = float(self.dist.max())

    # -- stopping bookkeeping
    def ncl(self):
        return np.inf if self.case["n_clusters"] is None else self.case["n_clusters"]

    def cut(self):
        return 0.0 if self.case["cutoff"] is None else float(self.case["cutoff"])

    def stop_class(self):
        m, ncl, cut = self.m, self.ncl(), self.cut()
        by_count = m >= ncl
        by_radius = self.radii[m] <= cut
        if m == self.m0:
            return "immediate"
        if by_count and by_radius:
            return "both" if self.case["cutoff"] is not None else "count+exhausted"
        if by_count:
            return "count"
        if by_radius:
            return "radius" if cut > 0 else "exhausted"
        return "neither"

    def info(self, extra=()):
        case = self.case
        sc = self.stop_class()
        beyond = self.m - self.m0
        nt = beyond >= 3 or (sc == "radius" and case["n_clusters"] is not None)
        crit = ("both" if case["n_clusters"] is not None and case["cutoff"] is not None
                else "n" if case["n_clusters"] is not None else "radius")
        start = "cold" if case["init"] is None else "warm-" + case["init"]["kind"]
        cl = ["stop=" + sc, "criteria=" + crit, "start=" + start, "tri=%s" % bool(case["tri"]),
              "metric=" + case["metric"], "dtype=" + case["dtype"], "values=" + case["values"],
              "entry=" + (case["entry"] if not case["tri"] else "function"), "layout=" + case.get("layout", "C"),
              "frac_init=%s" % bool(case["init"] and case["init"].get("pts_dtype")),
              "n=" + ("1" if self.n == 1 else "2-14" if self.n <= 14 else "15-40" if self.n <= 40 else ">40"),
              "beyond_init=" + ("0" if beyond == 0 else "1-2" if beyond < 3 else "3+")]
        if case["n_clusters"] is not None and case["n_clusters"] > self.n:
            cl.append("n_clusters>n_frames")
        if case["init"] is not None:
            cl.append("init_container=" + case["init"].get("container", "array"))
        cl.extend(extra)
        return Info(nt, cl)


def ownership_guard(case, X, init_pts):
    """Off-data initial centers: every one must own a frame by a margin that cannot be flipped by rounding
    (exact-lattice cases are exact in the library too, so any strict ownership is fine there)."""
    cols = R.columns(case["metric"], X, init_pts)
    lab, dmin = R.nearest_assign(cols)
    owners = set(lab.tolist())
    if len(owners) != len(init_pts):
        raise Skip("an initial center owns no frame")
    if case["values"] == "lattice":
        return
    tol = 1e-4 * R.scale_of(cols)
    for j in range(len(init_pts)):
        others = np.delete(cols, j, axis=1)
        margin = (others.min(axis=1) if others.shape[1] else np.full(len(X), np.inf)) - cols[:, j]
        if not (margin > tol).any():
            raise Skip("ownership of an initial center depends on rounding")


def evaluate(case, **over):
    X = build_X(case)
    _, init_pts = build_init(case, X)
    if case["init"] is not None and case["init"]["kind"] == "points":
        ownership_guard(case, X, init_pts)
    res, logged = call_lib(case, **over)
    v = View(case, res)
    v.logged = logged
    return v


# ------------------------------------------------------------------ strategy

def _bulk_sites(seed, n, d):
    rng = np.random.RandomState(seed)
    nb = rng.randint(1, 5)
    ctr = rng.randint(-40, 41, size=(nb, d))
    pts = ctr[rng.randint(nb, size=n)] + rng.randint(-3, 4, size=(n, d))
    n_out = rng.randint(0, 4)
    if n_out:
        pts[rng.choice(n, size=min(n_out, n), replace=False)] = rng.randint(-60, 61, size=(min(n_out, n), d))
    _, first = np.unique(pts, axis=0, return_index=True)
    return pts[np.sort(first)]


@st.composite
def kc_case(draw, max_small=14, max_bulk=40, bulk_share=4, init_kinds=("none", "frames", "points"),
            immediate="no", tri=None, single_frame_init=False, metrics=None):
    """immediate: 'no' -> at least one center is added by the run; 'only' -> warm start that needs none."""
    metric = draw(st.sampled_from(metrics or (LIB_METRICS + CALLABLE_METRICS + ("hamming", "euclidean", "manhattan"))))
    if metric == "hamming":
        d = draw(st.integers(2, 5))
        lo, hi = 0, 2
        values = "lattice"
        dtype = draw(st.sampled_from(INT_DTYPES))
    else:
        d = draw(st.integers(1, 4))
        lo, hi = (-12, 12) if d == 1 else (-6, 6)
        values = draw(st.sampled_from(["lattice", "jitter"]))
        dtype = draw(st.sampled_from(INT_DTYPES + ("float64", "float32") if values == "lattice"
                                     else ("float64", "float64", "float32")))
    site = st.tuples(*([st.integers(lo, hi)] * d))
    # (the bulk branch is the *largest* value of its switch and n starts at 1, so that shrinking can both shorten a
    # bulk set and leave the bulk branch)
    bulk = (max_bulk > max_small and metric != "hamming"
            and draw(st.integers(0, bulk_share - 1)) == bulk_share - 1)
    if bulk:
        bmin = draw(st.sampled_from([1, 3, 10, 40]))
        sites = _bulk_sites(draw(st.integers(0, 2 ** 31 - 1)),
                            draw(st.integers(min(bmin, max_bulk), max_bulk)), d)
    else:
        nmin = draw(st.sampled_from([1, 2, 4, 6, 8]))         # keeps single-frame data sets rare but reachable
        sites = np.array(draw(st.lists(site, min_size=min(nmin, max_small), max_size=max_small, unique=True)),
                         dtype=np.int64).reshape(-1, d)
    A = sites.astype(np.float64)
    if values == "jitter":
        A = A + np.random.RandomState(draw(st.integers(0, 2 ** 31 - 1))).uniform(-0.25, 0.25, size=A.shape)
    X = A.astype(dtype)
    n = len(X)
    D = R.pairwise(metric, X)

    # ---- start
    kind = draw(st.sampled_from(init_kinds))
    if immediate == "only" and kind == "none":
        kind = "frames"
    init = None
    init_cols = None
    if kind == "frames":
        k0 = 1 if single_frame_init else draw(st.integers(1, min(3, n)))
        idx = draw(st.lists(st.integers(0, n - 1), min_size=k0, max_size=k0, unique=True))
        init = {"kind": "frames", "idx": idx, "container": draw(st.sampled_from(["array", "list", "array", "list", "tuple", "generator"]))}
        init_cols = D[:, idx]
    elif kind == "points":
        k0 = draw(st.integers(1, 3))
        blo, bhi = int(sites.min()) - 1, int(sites.max()) + 1
        raw = draw(st.lists(st.tuples(*([st.integers(blo, bhi)] * d)), min_size=k0, max_size=k0, unique=True))
        P = np.array(raw, dtype=np.float64).reshape(-1, d)
        # integer data with FRACTIONAL initial centers (group means, centers from another run): only meaningful for a
        # metric that accepts them (the user callables; the compiled kernels refuse mixed element types)
        frac = (not dtype.startswith("float")) and metric in CALLABLE_METRICS and draw(st.booleans())
        if dtype.startswith("float") or frac:
            off = draw(st.lists(st.sampled_from([0.0, 0.5, -0.5, 0.25, -0.25]), min_size=d, max_size=d))
            P = P + np.array(off)[None, :]
        P = P.astype("float64" if frac else dtype)
        cols = R.columns(metric, X, P)
        lab, _ = R.nearest_assign(cols)
        keep = [j for j in range(len(P)) if (lab == j).any()]      # every initial center must own a frame
        P = P[keep]
        init = {"kind": "points", "pts": P.tolist(), "container": draw(st.sampled_from(["array", "list", "array", "list", "tuple", "generator"]))}
        if frac:
            init["pts_dtype"] = "float64"
        init_cols = cols[:, keep]
    m0 = 0 if init is None else init_cols.shape[1]
    if init is not None and immediate == "no" and float(init_cols.min(axis=1).max()) <= 0:
        init, init_cols, m0 = None, None, 0      # the initial centers already cover everything: nothing to add

    # ---- stopping criteria, aimed at the reference greedy sequence
    scale = R.scale_of(D, init_cols)
    mingap = mingap_of(dtype, scale)
    _, radii = R.greedy(D, init_cols)              # radii[j], j = m0 .. jmax
    jmax = len(radii) - 1
    vals = D.ravel() if init_cols is None else np.concatenate([D.ravel(), init_cols.ravel()])
    mids = R.safe_midpoints(vals, mingap)
    above = float(vals.max()) * 1.5 + 1.0
    first = max(m0, 1)                              # number of centers after which a radius is first examined...
    targets = {}                                    # j -> cutoff that makes the radius criterion fire at exactly j centers
    for j in range(first + 1, jmax + 1):
        lo_i = bisect.bisect_right(mids, radii[j])
        hi_i = bisect.bisect_left(mids, radii[j - 1])
        if hi_i > lo_i:
            targets[j] = mids[(lo_i + hi_i - 1) // 2]
    targets_first = above                            # fires at `first` (cold: after center 1; warm: immediately)

    if immediate == "only":
        how = draw(st.sampled_from(["count", "radius", "both", "count_other_late", "radius_other_late"]))
        n_clusters = cutoff = None
        if how in ("count", "both", "count_other_late"):
            n_clusters = draw(st.integers(1, m0))
        if how in ("radius", "both", "radius_other_late"):
            ups = [c for c in mids if c > radii[m0]][:1]          # the closest safe value above the initial radius
            cutoff = draw(st.sampled_from(ups + [above])) if radii[m0] > 0 or draw(st.booleans()) else None
            if cutoff is None and n_clusters is None:
                n_clusters = draw(st.integers(m0 + 1, n + 1))     # radius already 0: default cutoff 0 is met
        if how == "count_other_late" and targets:
            cutoff = targets[draw(st.sampled_from(sorted(targets)))]
        if how == "radius_other_late":
            n_clusters = draw(st.integers(m0 + 1, n + 1))
    else:
        crit = draw(st.sampled_from(["n", "radius", "both", "both"]))
        n_clusters = cutoff = None
        j_r = None
        if crit in ("radius", "both"):
            choices = sorted(targets)
            if m0 == 0:
                choices.append("first")                    # fires right after the first center
            if crit == "both":
                choices.append("zero")                     # explicit 0: only together with a finite n_clusters
            if not choices:
                crit = "n"
            else:
                c = draw(st.sampled_from(choices))
                if c == "first":
                    cutoff, j_r = targets_first, 1
                elif c == "zero":
                    cutoff, j_r = 0.0, jmax
                else:
                    cutoff, j_r = targets[c], c
                    # "tight" variant: the cutoff sits only 4e-6 (relative) below the radius reached with c-1 centers.
                    # That is ~1e10 rounding errors away (distances are formed in double), so the exact rule
                    # `radius > cutoff` must still continue to c centers; a tolerance-based comparison stops early.
                    tight = radii[c - 1] * (1.0 - 4e-6)
                    if (dtype != "float32" and draw(st.integers(0, 3)) == 0
                            and tight > radii[c] * (1.0 + 1e-6) + 1e-9 * scale):
                        cutoff = tight
        if crit in ("n", "both"):
            lo_n = m0 + 1
            cand = list(range(lo_n, n + 2))
            if j_r is not None:
                near = [c for c in (j_r - 1, j_r, j_r + 1) if lo_n <= c <= n + 1]
                if near and draw(st.integers(0, 3)) > 0:
                    cand = near
            n_clusters = draw(st.sampled_from(cand))
        if n_clusters is None and cutoff is None:          # cannot happen, but keep the domain closed
            n_clusters = m0 + 1

    use_tri = draw(st.booleans()) if tri is None else tri
    if tri is None and init is not None and init["kind"] == "points":
        use_tri = False       # shortcut + off-data initial centers has its own clause (shortcut_offdata)
    return {"X": X.tolist(), "d": d, "dtype": dtype, "values": values, "metric": metric, "init": init,
            "n_clusters": n_clusters, "cutoff": cutoff, "tri": use_tri,
            "entry": draw(st.sampled_from(["function", "function", "class", "class_set_params", "class_setattr_refit",
                                          "class_set_params_refit"])),
            "style": draw(st.sampled_from(["omit", "none", "positional"])),
            "layout": draw(st.sampled_from(["C", "C", "C", "F", "T", "colstride"])),
            "debug_log": draw(st.sampled_from([False, False, True])),
            "reuse_buffer": draw(st.sampled_from([False, False, True]))}


# ------------------------------------------------------------------ clause bodies

def run_start(case):
    v = evaluate(case)
    if v.m0 == 0:
        require(v.ci[0] == 0, "cold start did not begin at frame 0", center_indices=v.ci)
        require(np.array_equal(v.centers[0], v.X[0]), "first center is not the first frame",
                center=v.centers[0].tolist(), frame0=v.X[0].tolist())
    else:
        for i in range(v.m0):
            require(np.array_equal(v.centers[i], v.init_pts[i]),
                    "initial center %d was not kept in place" % i, got=v.centers[i].tolist(),
                    want=v.init_pts[i].tolist())
        if case["init"]["kind"] == "frames":
            require(v.ci[:v.m0] == [int(i) for i in case["init"]["idx"]],
                    "center_indices do not begin with the supplied initial frames",
                    got=v.ci, want=case["init"]["idx"])
    return v.info()


def run_farthest(case):
    v = evaluate(case)
    dmin = np.full(v.n, np.inf) if v.m0 == 0 else v.init_cols.min(axis=1)
    start = v.m0
    if v.m0 == 0:
        dmin = v.cols[:, 0].copy()      # the first frame is the arbitrary seed of the traversal (clause `start`)
        start = 1
    for i in range(start, v.m):
        idx = v.ci[i]
        require(np.array_equal(v.centers[i], v.X[idx]), "center %d is not the frame its index names" % i,
                center=v.centers[i].tolist(), frame=v.X[idx].tolist(), idx=idx)
        far = float(dmin.max())
        require(dmin[idx] >= far - v.tol,
                "center %d is not a farthest frame at the moment it was chosen" % i,
                chosen=idx, its_distance=float(dmin[idx]), farthest=int(np.argmax(dmin)), farthest_distance=far,
                center_indices=v.ci)
        require(dmin[idx] > 0 or far == 0, "an already covered frame was chosen while uncovered ones exist", idx=idx)
        dmin = np.minimum(dmin, v.cols[:, i])
    ties = "ties=yes" if case["values"] == "lattice" else "ties=no"
    return v.info([ties])


def run_monotone(case):
    v = evaluate(case)
    # (1) the radii the run itself reported after each added center
    if v.logged:
        require(len(v.logged) == v.m - v.m0, "one radius is logged per added center",
                logged=len(v.logged), added=v.m - v.m0)
        prev = np.inf if v.m0 == 0 else float(v.init_cols.min(axis=1).max()) + v.tol
        for j, r in enumerate(v.logged):
            require(r <= prev + v.tol, "covering radius grew when center %d was added" % (v.m0 + j + 1),
                    sequence=v.logged)
            prev = r
            require(abs(r - v.radii[v.m0 + j + 1]) <= v.tol,
                    "radius reported after %d centers is not the covering radius of those centers" % (v.m0 + j + 1),
                    reported=r, reference=v.radii[v.m0 + j + 1])
    # (2) prefix runs: same data, same start, 1 .. m requested centers
    lo = v.m0 + 1
    js = list(range(lo, v.m + 1))
    if len(js) > 12:
        js = sorted(set(js[:6] + js[-3:] + js[6:-3:max(1, (len(js) - 9) // 3)]))
    prev_r, prev_d = None, None
    if v.m0:
        prev_d = v.init_cols.min(axis=1)
        prev_r = float(prev_d.max())
    for j in js:
        rj, _ = call_lib(case, n_clusters=j, cutoff=None)
        vj = View(dict(case, n_clusters=j, cutoff=None), rj)
        require(vj.m == j, "prefix run did not return the requested number of centers", want=j, got=vj.m)
        true_r = vj.radii[j]
        require(abs(vj.lib_radius - true_r) <= v.tol,
                "distances.max() is not the covering radius of the returned centers", lib=vj.lib_radius, ref=true_r)
        _, ref_d = R.nearest_assign(vj.cols)
        require(np.all(np.abs(vj.dist - ref_d) <= v.tol), "distances are not the distances to the nearest center",
                lib=vj.dist.tolist(), ref=ref_d.tolist())
        if prev_r is not None:
            require(vj.lib_radius <= prev_r + v.tol, "covering radius grew from %s to %d centers" % ("fewer", j),
                    before=prev_r, after=vj.lib_radius)
            require(np.all(vj.dist <= prev_d + v.tol), "a frame moved farther from its center when centers were added",
                    before=np.asarray(prev_d).tolist(), after=vj.dist.tolist())
        prev_r, prev_d = vj.lib_radius, vj.dist
    if js and js[-1] == v.m:
        require(abs(prev_r - v.lib_radius) <= v.tol, "final radius differs from the m-center prefix run",
                final=v.lib_radius, prefix=prev_r)
    return v.info(["logged=%s" % bool(v.logged)])


def run_two_approx(case):
    v = evaluate(case)
    k = v.m
    opt = R.opt_radius(v.D, k)
    true_r = v.radii[k]
    bound = 2.0 * opt * (1 + 1e-9) + v.tol
    require(true_r <= bound, "covering radius of the returned centers exceeds twice the optimum",
            k=k, radius=true_r, opt=opt, center_indices=v.ci)
    require(v.lib_radius <= bound, "reported final radius exceeds twice the optimum",
            k=k, radius=v.lib_radius, opt=opt, center_indices=v.ci)
    require(true_r >= opt - v.tol, "oracle self-check: greedy beat the exhaustive optimum", radius=true_r, opt=opt)
    ratio = true_r / opt if opt > 0 else 0.0
    info = v.info(["ratio=" + ("0" if opt == 0 else "1" if ratio <= 1 + 1e-9 else "1-1.5" if ratio <= 1.5
                               else "1.5-2"), "k=%s" % ("1" if k == 1 else "n" if k >= v.n else "2..n-1")])
    info.nontrivial = bool(1 < k < v.n and opt > 0)
    return info


def _check_stop(v):
    case = v.case
    m, m0, ncl, cut = v.m, v.m0, v.ncl(), v.cut()
    rm = v.radii[m]
    margin = mingap_of(case["dtype"], v.scale) / 4
    for r in ((rm, v.radii[m - 1]) if m > m0 else (rm,)):
        if cut > 0 and np.isfinite(r) and abs(r - cut) < margin:
            raise Skip("radius within rounding of the cutoff")
    require(abs(v.lib_radius - rm) <= v.tol, "reported final radius is not the covering radius of the centers",
            lib=v.lib_radius, ref=rm)
    # not early: something must have been satisfied
    require(m >= ncl or rm <= cut,
            "stopped early: %d centers < n_clusters and radius still above the cutoff" % m,
            m=m, n_clusters=case["n_clusters"], radius=rm, cutoff=case["cutoff"], center_indices=v.ci)
    # not late: the last added center was really needed
    if m > m0:
        require(m - 1 < ncl, "stopped late: more centers than requested", m=m, n_clusters=case["n_clusters"], m0=m0)
        require(v.radii[m - 1] > cut,
                "stopped late: radius was already at or below the cutoff with %d centers" % (m - 1),
                m=m, radius_before=v.radii[m - 1], cutoff=case["cutoff"], center_indices=v.ci)
    if case["n_clusters"] is not None:
        require(m <= max(case["n_clusters"], m0), "more centers than requested", m=m, n_clusters=case["n_clusters"])


def run_stop(case):
    v = evaluate(case)
    _check_stop(v)
    extra = []
    if case["values"] == "jitter":
        # tie-free data: the float64 replay predicts the exact number of centers
        _, radii = R.greedy(v.D, v.init_cols)
        exp = v.m0
        while exp < v.ncl() and (np.inf if exp == 0 else radii[exp]) > v.cut():
            exp += 1
        require(v.m == exp, "number of centers differs from the replay of the stopping rule", got=v.m, want=exp,
                n_clusters=case["n_clusters"], cutoff=case["cutoff"], radii=radii[:exp + 2])
        extra.append("predicted_m=checked")
    return v.info(extra)


def run_stop_warm_noop(case):
    v = evaluate(case)
    _check_stop(v)
    require(v.m == v.m0, "a warm start that already meets a criterion must add nothing", m=v.m, m0=v.m0)
    for i in range(v.m0):
        require(np.array_equal(v.centers[i], v.init_pts[i]), "initial center %d not returned" % i)
    lab, dmin = R.nearest_assign(v.init_cols)
    require(np.all(np.abs(v.dist - dmin) <= v.tol), "distances are not those to the nearest initial center",
            lib=v.dist.tolist(), ref=dmin.tolist())
    chosen = v.init_cols[np.arange(v.n), v.lab]
    require(np.all(np.abs(chosen - dmin) <= v.tol), "labels do not name a nearest initial center",
            labels=v.lab.tolist(), ref=lab.tolist())
    info = v.info(["why=" + ("count" if v.m0 >= v.ncl() else "") + ("radius" if v.radii[v.m] <= v.cut() else "")])
    info.nontrivial = v.m0 >= 2 or v.n >= 3
    return info


def _shortcut_activity(v):
    """Replay the shortcut's pruning rule in float64 along the reported centers.
    Returns (number of (iteration, frame) pairs skipped, smallest relative margin of the pruning test)."""
    n, m = v.n, v.m
    skipped, margin = 0, np.inf
    if v.m0:
        lab, dmin = R.nearest_assign(v.init_cols)
        start = v.m0
    else:
        lab, dmin = np.zeros(n, dtype=int), v.cols[:, 0].copy()
        start = 1
    pts = [v.init_pts[i] if i < v.m0 else v.X[v.ci[i]] for i in range(m)]
    for i in range(start, m):
        new = pts[i]
        cc = np.array([R.ref_dist(v.case["metric"], np.asarray(pts[c]).reshape(1, -1), new)[0] for c in range(i)])
        half = cc[lab] / 2.0
        skipped += int(np.count_nonzero(dmin <= half))
        margin = min(margin, float(np.abs(dmin - half).min()) / v.scale)
        upd = v.cols[:, i] < dmin
        dmin[upd] = v.cols[upd, i]
        lab[upd] = i
    return skipped, margin


def run_shortcut(case):
    plain = evaluate(case, tri=False, entry="function")
    fast = evaluate(case, tri=True, entry="function")
    skipped, margin = _shortcut_activity(plain)
    if case["values"] == "jitter" and margin < 1e-9:
        raise Skip("pruning test within rounding of its boundary")
    require(fast.ci == plain.ci, "shortcut returns different center_indices", plain=plain.ci, shortcut=fast.ci)
    require(len(fast.centers) == len(plain.centers) and
            all(np.array_equal(a, b) for a, b in zip(fast.centers, plain.centers)),
            "shortcut returns different centers")
    bad = np.nonzero(fast.lab != plain.lab)[0]
    require(len(bad) == 0, "shortcut returns different labels", frames=bad.tolist(),
            plain=plain.lab[bad].tolist(), shortcut=fast.lab[bad].tolist(), center_indices=plain.ci)
    err = np.abs(fast.dist - plain.dist)
    require(np.all(err <= 1e-12 * np.maximum(1.0, np.maximum(np.abs(fast.dist), np.abs(plain.dist)))),
            "shortcut returns different distances", frames=np.nonzero(err > 0)[0].tolist(),
            plain=plain.dist.tolist(), shortcut=fast.dist.tolist())
    info = plain.info(["pruned=%s" % (skipped > 0)])
    info.nontrivial = bool(info.nontrivial and skipped > 0)
    return info


# ------------------------------------------------------------------ exhaustive sub-domain (stop)

def exhaustive_stop(tier, shard, nshards):
    if tier != "thorough":
        return None

    def gen():
        idx = 0
        for size in range(1, 5):
            for pts in itertools.permutations(range(6), size):
                n = len(pts)
                for init in (None, [n - 1]):
                    m0 = 0 if init is None else 1
                    for ncl in [None] + list(range(m0 + 1, n + 2)):
                        for cut in [None, 0.5, 1.5, 2.5, 3.5, 4.5]:
                            if ncl is None and cut is None:
                                continue
                            # warm start: keep the run non-trivial (a center must be needed): the no-op warm
                            # start has its own clause
                            if init is not None:
                                r0 = max(abs(p - pts[-1]) for p in pts)
                                if r0 <= (cut or 0.0):
                                    continue
                            for tri in (False, True):
                                idx += 1
                                if idx % nshards != shard:
                                    continue
                                yield {"X": [[p] for p in pts], "d": 1, "dtype": "float64", "values": "lattice",
                                       "metric": "euclidean" if idx % 2 else "manhattan",
                                       "init": None if init is None else
                                       {"kind": "frames", "idx": init, "container": "array"},
                                       "n_clusters": ncl, "cutoff": cut, "tri": tri, "entry": "function",
                                       "style": "omit"}
    return gen()


# ------------------------------------------------------------------ registry

_GEN = dict(init_kinds=("none", "none", "frames", "frames", "points"))

# ------------------------------------------------------------------ md.Trajectory data (RMSD), shortcut == plain

@st.composite
def md_case(draw):
    return {"n": draw(st.integers(4, 40)), "n_atoms": draw(st.integers(4, 8)), "seed": draw(st.integers(0, 2 ** 31 - 1)),
            "blobs": draw(st.integers(1, 4)), "init": draw(st.sampled_from(["none", "frames", "offdata", "offdata", "offdata_traj"])),
            "k0": draw(st.integers(1, 3)), "stop": draw(st.sampled_from(["n", "n", "radius", "both"])),
            "k": draw(st.integers(1, 8)), "radius_q": draw(st.sampled_from([0.2, 0.4, 0.7]))}


def run_shortcut_md(case):
    import mdtraj as md
    rng = np.random.RandomState(case["seed"])            # seed drawn by Hypothesis
    n, na = case["n"], case["n_atoms"]
    top = md.Topology()
    ch = top.add_chain()
    for _ in range(na):
        top.add_atom("CA", md.element.carbon, top.add_residue("ALA", ch))
    shapes = rng.normal(size=(case["blobs"], na, 3))                  # a few distinct conformations ...
    which = rng.randint(0, case["blobs"], size=n)
    xyz = (shapes[which] + rng.normal(scale=0.15, size=(n, na, 3))).astype(np.float32)       # ... and noise around them
    trj = md.Trajectory(xyz, top)
    init = None
    if case["init"] == "frames":
        idx = rng.choice(n, size=min(case["k0"], n), replace=False)
        init = [trj[int(i)] for i in idx]
    elif case["init"].startswith("offdata"):
        # reference structures that are NOT frames of the data (half-way between conformations, plus noise)
        ref = (shapes[rng.randint(0, case["blobs"], size=case["k0"])] * 0.5 +
               shapes[rng.randint(0, case["blobs"], size=case["k0"])] * 0.5 +
               rng.normal(scale=0.05, size=(case["k0"], na, 3))).astype(np.float32)
        init = md.Trajectory(ref, top) if case["init"] == "offdata_traj" else [md.Trajectory(r[None], top) for r in ref]
    kw = {}
    if case["stop"] in ("n", "both"):
        kw["n_clusters"] = (0 if init is None else len(init)) + case["k"]
    if case["stop"] in ("radius", "both"):
        d0 = md.rmsd(trj, trj[0])
        kw["dist_cutoff"] = float(case["radius_q"] * d0.max()) if d0.max() > 0 else 0.1
    cap = len(trj) + 6

    def go(tri):
        if "n_clusters" not in kw:
            kw2 = dict(kw, n_clusters=cap)          # count-bounded watchdog for the radius-only runs
        else:
            kw2 = dict(kw)
        return kcenters(trj, md.rmsd, init_centers=init, use_triangle_inequality=tri, **kw2)
    plain, short = go(False), go(True)        # (md.rmsd itself centres the coordinates in place: not compared)
    # md.rmsd works in float32: a distance is good to ~5e-4 nm near zero (sqrt of the float32 residual), so decisions
    # whose margin is below TIE are not claimed - the case is skipped when the plain run itself was that close to a tie
    TIE, ATOL = 5e-3, 2e-3
    Dp = np.array([md.rmsd(trj, c) for c in plain.centers], dtype=float)            # centers x frames
    m0 = 0 if init is None else len(init)
    if m0:
        Di = np.array([md.rmsd(trj, c) for c in init], dtype=float)
        own = Di.argmin(axis=0)
        if len(set(own.tolist())) < m0:
            raise Skip("an initial center owns no frame (outside the asserted domain, see DESIGN 7.7)")
        srt = np.sort(Di, axis=0)
        if m0 > 1 and float((srt[1] - srt[0]).min()) < TIE:
            raise Skip("a frame is equally far from two initial centers (float32 RMSD)")
    for k_ in range(max(m0, 1), len(plain.centers)):
        dmin = Dp[:k_].min(axis=0)
        top2 = np.sort(dmin)[-2:]
        if len(top2) == 2 and top2[1] - top2[0] < TIE:
            raise Skip("near tie in the farthest-frame choice (float32 RMSD)")
        if abs(dmin.max() - kw.get("dist_cutoff", 0.0)) < TIE:
            raise Skip("radius within float32 noise of the cutoff")
    fin = Dp.min(axis=0)
    if abs(fin.max() - kw.get("dist_cutoff", 0.0)) < TIE:
        raise Skip("radius within float32 noise of the cutoff (e.g. every frame is a center)")
    require(len(plain.centers) == len(short.centers), "shortcut and plain algorithm return different numbers of centers "
            "(md.Trajectory data)", plain=len(plain.centers), shortcut=len(short.centers), init=case["init"])
    require([int(i) for i in plain.center_indices] == [int(i) for i in short.center_indices],
            "shortcut and plain algorithm pick different centers (md.Trajectory data)",
            plain=[int(i) for i in plain.center_indices], shortcut=[int(i) for i in short.center_indices], init=case["init"])
    lp, ls = np.asarray(plain.assignments, dtype=int), np.asarray(short.assignments, dtype=int)
    for f in np.where(lp != ls)[0]:
        require(abs(Dp[lp[f], f] - Dp[ls[f], f]) < TIE, "shortcut and plain algorithm label a frame differently although "
                "its two centers are not equally far (md.Trajectory data)", frame=int(f), plain=int(lp[f]), shortcut=int(ls[f]),
                d_plain=float(Dp[lp[f], f]), d_shortcut=float(Dp[ls[f], f]), init=case["init"])
    require(np.allclose(plain.distances, short.distances, rtol=0, atol=ATOL),
            "shortcut and plain algorithm report different distances (md.Trajectory data)", init=case["init"],
            worst=float(np.max(np.abs(np.asarray(plain.distances) - np.asarray(short.distances)))))
    # and each result itself: every frame at the RMSD of its labelled center, no center closer
    for nm, r_ in (("plain", plain), ("shortcut", short)):
        got = np.asarray(r_.distances, dtype=float)
        lab = np.asarray(r_.assignments, dtype=int)
        require(np.allclose(Dp[lab, np.arange(n)], got, atol=ATOL), "reported distance is not the RMSD to the labelled center "
                "(%s, md.Trajectory data)" % nm, worst=float(np.max(np.abs(Dp[lab, np.arange(n)] - got))), init=case["init"])
        require(bool(np.all(fin >= got - TIE)), "a frame is not labelled with its nearest center (%s, md.Trajectory data)" % nm,
                worst=float(np.max(got - fin)), init=case["init"])
    return Info(len(short.centers) >= 3 and case["init"].startswith("offdata"),
                ["md_init=" + case["init"], "md_stop=" + case["stop"], "md_centers=%d" % min(len(short.centers), 6)],
                key=[case[k_] for k_ in sorted(case)])


CLAUSES = [
    Clause("start", kc_case(**_GEN), run_start, quick=1500, thorough=20000),
    Clause("farthest", kc_case(**_GEN), run_farthest, quick=2500, thorough=40000),
    Clause("monotone", kc_case(**_GEN), run_monotone, quick=1000, thorough=15000),
    Clause("two_approx", kc_case(max_small=12, max_bulk=0, init_kinds=("none", "none", "frames"),
                                 single_frame_init=True), run_two_approx, quick=1200, thorough=0),
    Clause("two_approx_14", kc_case(max_small=14, max_bulk=0, init_kinds=("none", "none", "frames"),
                                    single_frame_init=True), run_two_approx, quick=0, thorough=20000),
    Clause("stop", kc_case(**_GEN), run_stop, quick=3000, thorough=60000, exhaustive=exhaustive_stop),
    Clause("stop_warm_noop", kc_case(init_kinds=("frames", "frames", "points"), immediate="only"),
           run_stop_warm_noop, quick=800, thorough=10000),
    Clause("shortcut", kc_case(init_kinds=("none", "frames"), tri=True), run_shortcut, quick=2500, thorough=40000),
    Clause("shortcut_offdata", kc_case(init_kinds=("points",), tri=True), run_shortcut, quick=1200, thorough=20000),
    Clause("shortcut_md_trajectory", md_case(), run_shortcut_md, quick=200, thorough=3000,
           doc="md.Trajectory data with RMSD, cold / frames / off-data reference structures: shortcut == plain, labels nearest"),
    Clause("farthest_large", kc_case(max_bulk=200, bulk_share=1, **_GEN), run_farthest, quick=0, thorough=4000),
    Clause("stop_large", kc_case(max_bulk=200, bulk_share=1, **_GEN), run_stop, quick=0, thorough=4000),
    Clause("shortcut_large", kc_case(max_bulk=200, bulk_share=1, init_kinds=("none", "frames"), tri=True),
           run_shortcut, quick=0, thorough=4000),
]


def _is_unbound_center_inds(case, exc):
    return (isinstance(exc, UnboundLocalError) and "center_inds" in str(exc) and case.get("init") is not None)


def _is_offdata_shortcut(case, exc):
    """use_triangle_inequality=True together with initial centers that are not frames of the data: the shortcut
    measures center-to-center distances from traj[center_inds] (the nearest frame) instead of the center itself,
    so it returns other labels/distances than the plain run, or never terminates."""
    if case.get("init") is None or case["init"]["kind"] != "points":
        return False
    if isinstance(exc, Runaway):
        return True
    return isinstance(exc, Violation) and str(exc).startswith("shortcut returns different")


MATCHERS = {
    "warm_noop_unbound_center_inds": _is_unbound_center_inds,
    "shortcut_offdata_init_centers": _is_offdata_shortcut,
}
