"""C13 - distance kernels are exact for every dtype, memory layout and thread count."""
import math

import numpy as np
from hypothesis import strategies as st
from threadpoolctl import threadpool_limits

from vf.harness import Clause, Info, require, Violation, Skip
from vf import childproc

from enspara.geometry import libdist
# a process that uses the kernels has the rest of the library loaded (clustering imports them next to the MSM and
# information-theory extensions): import those too, they share the process-wide floating-point environment
import enspara.msm            # noqa: F401,E402
import enspara.info_theory    # noqa: F401,E402
import enspara.cluster        # noqa: F401,E402

PROPERTY = "C13"
LEVEL = "exploration"
RULE = ("Hypothesis draws a kernel (euclidean/manhattan/hamming), a supported dtype (int8..int64, float32/64; "
        "uint8..uint64 too for hamming), an n x d value table (n 1..40, d 1..9; thorough up to 400 x 33) mixing small "
        "values, dtype extremes (|int64| <= 2^53 so that the float64 result is well defined) and near-equal rows, a "
        "memory layout for X (C, Fortran, row-strided, column-strided, negative strides) and y (contiguous, strided, "
        "reversed), an out mode (None / junk-filled buffer / strided or offset view into a larger canary buffer) and an "
        "OpenMP thread count in {1,2,3,7,16} (threadpoolctl). Oracle: exact integer / float64 reference. A case is "
        "non-trivial if the layout is not C-contiguous or threads > 1 with n > threads. Invalid-input cases (wrong rank, "
        "width mismatch, mixed / unsupported dtypes, bad out buffers) run in a child interpreter so that a crash is a "
        "recorded violation; thorough repeats valid + invalid campaigns under an ASan+UBSan build of the extensions.")
ASSUMPTIONS = ["OpenMP schedules cannot be controlled beyond the thread count; races are searched by repetition",
               "int64 magnitudes are limited to 2^53 (each value exactly representable in the float64 result type)",
               "float magnitudes <= 1e6 (no overflow of float32 squares), no NaN/inf inputs"]
SHARDS = {"quick": 4, "thorough": 16}

FLOATISH = ["int8", "int16", "int32", "int64", "float32", "float64"]
INTEGRAL = ["uint8", "uint16", "uint32", "uint64", "int8", "int16", "int32", "int64"]
KERNELS = {"euclidean": FLOATISH, "manhattan": FLOATISH, "hamming": INTEGRAL}
THREADS = [1, 2, 3, 7, 16]


def lim(dtype):
    if dtype.startswith("float"):
        return -1e6, 1e6
    ii = np.iinfo(dtype)
    lo, hi = int(ii.min), int(ii.max)
    if dtype == "int64":
        lo, hi = -2 ** 53, 2 ** 53
    return lo, hi


@st.composite
def values(draw, dtype, n, d):
    lo, hi = lim(dtype)
    if dtype.startswith("float"):
        w = 32 if dtype == "float32" else 64
        small = st.integers(-3, 3).map(float)
        anyv = st.floats(lo, hi, allow_nan=False, allow_infinity=False, width=w, allow_subnormal=False)
        elem = st.one_of(small, anyv)
    else:
        small = st.integers(max(lo, -3), min(hi, 3))
        ext = st.sampled_from([lo, hi, lo + 1, hi - 1, lo // 2, hi // 2])
        elem = st.one_of(small, small, ext, st.integers(lo, hi))
    y = draw(st.lists(elem, min_size=d, max_size=d))
    rows = []
    for _ in range(n):
        kind = draw(st.sampled_from(["free", "free", "near_y", "equal_y"]))
        if kind == "free":
            rows.append(draw(st.lists(elem, min_size=d, max_size=d)))
        elif kind == "equal_y":
            rows.append(list(y))
        else:
            r = list(y)
            j = draw(st.integers(0, d - 1))
            r[j] = draw(elem)
            rows.append(r)
    return rows, y


@st.composite
def valid_case(draw, max_n=40, max_d=9, kernels=None):
    kernel = draw(st.sampled_from(kernels or list(KERNELS)))
    dtype = draw(st.sampled_from(KERNELS[kernel]))
    n = draw(st.integers(1, max_n))
    d = draw(st.integers(1, max_d))
    X, y = draw(values(dtype, n, d))
    return {"kernel": kernel, "dtype": dtype, "X": X, "y": y,
            "xlayout": draw(st.sampled_from(["C", "F", "rowstride", "colstride", "negative", "C"])),
            "ylayout": draw(st.sampled_from(["contig", "contig", "strided", "reversed", "row_of_X"])),
            "out": draw(st.sampled_from(["none", "fresh", "view_strided", "view_offset"])),
            "threads": draw(st.sampled_from(THREADS)),
            "readonly": draw(st.sampled_from([False, False, True])),
            "junk": draw(st.sampled_from([float("nan"), 1e300, -7.25, 0.0, 3.0]))}


def lay_X(V, how):
    n, d = V.shape
    if how == "C":
        return np.ascontiguousarray(V)
    if how == "F":
        return np.asfortranarray(V)
    if how == "rowstride":
        big = np.zeros((2 * n + 1, d), dtype=V.dtype)
        big[1::2] = V
        return big[1::2]
    if how == "colstride":
        big = np.zeros((n, 3 * d + 1), dtype=V.dtype)
        big[:, 1::3] = V
        return big[:, 1::3]
    if how == "negative":
        return np.ascontiguousarray(V[::-1, ::-1])[::-1, ::-1]
    raise ValueError(how)


def lay_y(v, how):
    if how == "contig":
        return np.ascontiguousarray(v)
    if how == "strided":
        big = np.zeros(2 * len(v) + 1, dtype=v.dtype)
        big[1::2] = v
        return big[1::2]
    if how == "reversed":
        return np.ascontiguousarray(v[::-1])[::-1]
    raise ValueError(how)


def make_out(n, how, junk):
    """returns (out, backing buffer or None, mask of cells belonging to out)."""
    if how == "none":
        return None, None, None
    if how == "fresh":
        o = np.full(n, junk, dtype=np.float64)
        return o, None, None
    if how == "view_strided":
        buf = np.full(2 * n + 3, junk, dtype=np.float64)
        o = buf[1:1 + 2 * n:2]
        m = np.zeros(len(buf), bool)
        m[1:1 + 2 * n:2] = True
        return o, buf, m
    if how == "view_offset":
        buf = np.full(n + 5, junk, dtype=np.float64)
        o = buf[3:3 + n]
        m = np.zeros(len(buf), bool)
        m[3:3 + n] = True
        return o, buf, m
    raise ValueError(how)


def reference(kernel, X, y):
    """Exact reference: python ints for integer dtypes, float64 for floats."""
    if X.dtype.kind in "iu":
        Xo = X.astype(object)
        yo = y.astype(object)
        out = []
        for r in Xo:
            if kernel == "euclidean":
                s = sum((int(a) - int(b)) ** 2 for a, b in zip(r, yo))
                out.append(math.sqrt(s) if s < 2 ** 1000 else float("inf"))
            elif kernel == "manhattan":
                out.append(float(sum(abs(int(a) - int(b)) for a, b in zip(r, yo))))
            else:
                out.append(sum(1 for a, b in zip(r, yo) if int(a) != int(b)) / len(yo))
        return np.array(out, dtype=np.float64)
    Xd = X.astype(np.float64)
    yd = y.astype(np.float64)
    if kernel == "euclidean":
        return np.sqrt(((Xd - yd) ** 2).sum(axis=1))
    if kernel == "manhattan":
        return np.abs(Xd - yd).sum(axis=1)
    return (Xd != yd).mean(axis=1)


def same_bits(a, b):
    return a.shape == b.shape and a.dtype == b.dtype and a.tobytes() == b.tobytes()


def eval_valid(c):
    """Evaluate one valid case. Returns {"ok": True} or {"violation": msg}. Used in-process and in children."""
    try:
        _eval_valid(c)
    except Violation as e:
        return {"violation": str(e)[:1500]}
    return {"ok": True}


def _eval_valid(c):
    fn = getattr(libdist, c["kernel"])
    V = np.array(c["X"], dtype=c["dtype"])
    v = np.array(c["y"], dtype=c["dtype"])
    n, d = V.shape
    X = lay_X(V, c["xlayout"])
    if c["ylayout"] == "row_of_X":
        # the target is a row of the data itself, handed over as a VIEW of X (what `X[i]` gives in every clustering
        # loop): X and y share memory
        k = (len(c["y"]) + int(abs(float(np.asarray(c["y"], dtype=float).ravel()[0])))) % n
        v = V[k].copy()
        y = X[k]
    else:
        y = lay_y(v, c["ylayout"])
    require(np.array_equal(X, V) and np.array_equal(y, v), "harness: layout changed values")
    if c.get("readonly"):        # read-only inputs (e.g. memory-mapped data) are valid: the kernels only read X and y
        X.flags.writeable = False
        y.flags.writeable = False
    Xbuf = X.base if X.base is not None else X
    ybuf = y.base if y.base is not None else y
    Xb, yb = Xbuf.tobytes(), ybuf.tobytes()
    out, buf, mask = make_out(n, c["out"], c["junk"])
    before = None if buf is None else buf.copy()
    with threadpool_limits(limits=c["threads"], user_api="openmp"):
        if out is None:
            r = fn(X, y)
        else:
            r = fn(X, y, out=out) if c["threads"] % 2 else fn(X, y, out)
    require(isinstance(r, np.ndarray), "result is not an ndarray", type=type(r))
    require(r.dtype == np.float64 and r.ndim == 1 and r.shape == (n,),
            "result is not a 1-D float64 array of length n", dtype=str(r.dtype), shape=r.shape)
    if out is not None:
        require(r is out, "caller-supplied out buffer is not the returned object")
    if buf is not None:
        require(same_bits(buf[~mask], before[~mask]), "bytes outside the out view were modified",
                before=before[~mask].tolist(), after=buf[~mask].tolist())
    require(Xbuf.tobytes() == Xb and ybuf.tobytes() == yb, "input arrays were modified")
    ref = reference(c["kernel"], V, v)
    rtol = 1e-5 if c["dtype"] == "float32" else 1e-12
    if c["kernel"] == "hamming":
        rtol = 1e-15
    err = np.abs(r - ref)
    tol = rtol * np.maximum(np.abs(ref), np.abs(r)) + 1e-300
    bad = ~(err <= tol)
    require(not bad.any(), "kernel result differs from reference", kernel=c["kernel"], dtype=c["dtype"],
            row=int(np.argmax(bad)), got=r[bad][:3].tolist(), want=ref[bad][:3].tolist(),
            x=V[bad][:1].tolist(), y=v.tolist())
    # a returned array belongs to the caller: a later call on other data of the same size may not change it
    r_copy = r.copy()
    other = fn(np.ascontiguousarray(V[::-1]), np.ascontiguousarray(v[::-1]))
    require(other is not r and not np.shares_memory(other, r), "two calls returned the same / overlapping result buffer")
    require(same_bits(r, r_copy), "the result of an earlier call was changed by a later call on other data",
            before=r_copy.tolist()[:5], after=r.tolist()[:5])
    # metamorphic: identical bits with the plain presentation (C layout, 1 thread, no out)
    with threadpool_limits(limits=1, user_api="openmp"):
        base = fn(np.ascontiguousarray(V), np.ascontiguousarray(v))
    require(same_bits(np.ascontiguousarray(r), base),
            "result depends on layout / thread count / out buffer (not bit-identical to plain call)",
            got=r.tolist()[:5], plain=base.tolist()[:5])
    # the same array OBJECT with new contents (a buffer refilled in place, X *= s): the kernel sees the new values
    if not c.get("readonly") and n > 1 and c["ylayout"] != "row_of_X":
        V_saved = V.copy()              # (X may BE V for the C layout)
        V2 = V_saved[::-1].copy()
        X[...] = V2
        with threadpool_limits(limits=c["threads"], user_api="openmp"):
            r2 = fn(X, y)
        ref2 = reference(c["kernel"], V2, v)
        bad2 = ~(np.abs(r2 - ref2) <= rtol * np.maximum(np.abs(ref2), np.abs(r2)) + 1e-300)
        require(not bad2.any(), "kernel result on an array that was refilled in place is not that of its new contents",
                kernel=c["kernel"], dtype=c["dtype"], xlayout=c["xlayout"], row=int(np.argmax(bad2)),
                got=r2[bad2][:3].tolist(), want=ref2[bad2][:3].tolist())
        X[...] = V_saved
    # repetition with many threads (race search)
    if c["threads"] > 1 and n > 1:
        with threadpool_limits(limits=c["threads"], user_api="openmp"):
            for _ in range(3):
                again = fn(X, y)
                require(same_bits(again, base), "repeated multi-threaded call gave a different result")


def run_values(case):
    res = eval_valid(case)
    require("violation" not in res, res.get("violation", ""))
    n = len(case["X"])
    nt = case["xlayout"] != "C" or (case["threads"] > 1 and n > case["threads"])
    return Info(nt, ["kernel=" + case["kernel"], "dtype=" + case["dtype"], "xlayout=" + case["xlayout"],
                     "ylayout=" + case["ylayout"], "out=" + case["out"], "threads=%d" % case["threads"],
                     "readonly=%s" % bool(case.get("readonly"))])


# ---------------------------------------------------------------------------
# invalid inputs (child process)

INVALID_KINDS = ["X_rank1", "X_rank3", "y_rank0", "y_rank2", "y_longer", "y_shorter", "mixed_dtype",
                 "unsupported_dtype", "out_dtype", "out_short", "out_long", "out_rank2_col", "out_rank2_row",
                 "out_rank0", "X_rank0", "byteswapped", "out_readonly"]


@st.composite
def invalid_item(draw):
    kernel = draw(st.sampled_from(list(KERNELS)))
    dtype = draw(st.sampled_from(KERNELS[kernel]))
    kind = draw(st.sampled_from(INVALID_KINDS))
    n = draw(st.integers(1, 12))
    d = draw(st.integers(1, 6))
    it = {"kernel": kernel, "dtype": dtype, "kind": kind, "n": n, "d": d,
          "with_out": draw(st.booleans()),      # a perfectly valid out buffer is passed along with the invalid X / y
          "delta": draw(st.integers(1, 40)),
          "xlayout": draw(st.sampled_from(["C", "F", "rowstride"]))}
    if kind == "mixed_dtype":
        others = [t for t in KERNELS[kernel] if t != dtype]
        it["other"] = draw(st.sampled_from(others))
        it["which"] = draw(st.sampled_from(["X", "y"]))
    if kind == "unsupported_dtype":
        pool = ["complex128", "float16", "object"]
        # bool buffers are accepted by the Hamming kernel (as uint8, with correct results), so bool is "unsupported"
        # only for the two arithmetic kernels
        pool += ["bool", "uint8", "uint16", "uint32", "uint64"] if kernel != "hamming" else ["float32", "float64"]
        it["other"] = draw(st.sampled_from(pool))
    if kind == "out_dtype":
        it["other"] = draw(st.sampled_from(["float32", "int64", "float16", "complex128", "uint8"]))
    return it


def eval_invalid(it):
    """Child side: the call must raise a Python exception. Returns {"raised": name} or {"returned": repr}."""
    fn = getattr(libdist, it["kernel"])
    n, d, k = it["n"], it["d"], it["kind"]
    dt = it["dtype"]
    V = (np.arange(n * d).reshape(n, d) % 5).astype(dt)
    X = lay_X(V, it["xlayout"])
    y = (np.arange(d) % 3).astype(dt)
    out = None
    if k == "X_rank1":
        X = X.ravel().copy()
        y = y[:1] if False else y
    elif k == "X_rank3":
        X = X.reshape(n, d, 1)
    elif k == "X_rank0":
        X = np.array(3, dtype=dt)
    elif k == "y_rank0":
        y = np.array(1, dtype=dt)
    elif k == "y_rank2":
        y = y.reshape(1, d) if it["delta"] % 2 else y.reshape(d, 1)
    elif k == "y_longer":
        y = (np.arange(d + it["delta"]) % 3).astype(dt)
    elif k == "y_shorter":
        m = max(0, d - it["delta"])
        if m == d:
            m = d - 1
        y = (np.arange(m) % 3).astype(dt)
    elif k == "mixed_dtype":
        if it["which"] == "X":
            X = X.astype(it["other"])
        else:
            y = y.astype(it["other"])
    elif k == "unsupported_dtype":
        X = X.astype(it["other"])
        y = y.astype(it["other"])
    elif k == "out_dtype":
        out = np.zeros(n, dtype=it["other"])
    elif k == "out_short":
        out = np.zeros(max(0, n - it["delta"]) if n - it["delta"] != n else n - 1, dtype=np.float64)
    elif k == "out_long":
        out = np.zeros(n + it["delta"], dtype=np.float64)
    elif k == "out_rank2_col":
        out = np.zeros((n, 1), dtype=np.float64)
    elif k == "out_rank2_row":
        out = np.zeros((1, n), dtype=np.float64) if n > 1 else np.zeros((1, 1, 1), dtype=np.float64)
    elif k == "out_rank0":
        out = np.array(0.0)
    elif k == "byteswapped":          # non-native byte order is an unsupported buffer type
        X = X.astype(X.dtype.newbyteorder())
        y = y.astype(y.dtype.newbyteorder())
        if X.dtype.itemsize == 1:
            out = np.zeros(n + 1, dtype=np.float64)      # 1-byte types have no byte order: fall back to a bad out
    elif k == "out_readonly":
        out = np.zeros(n, dtype=np.float64)
        out.flags.writeable = False
    if out is None and it.get("with_out") and k in ("y_longer", "y_shorter", "mixed_dtype", "unsupported_dtype", "y_rank2",
                                                  "X_rank3", "byteswapped"):
        out = np.zeros(n, dtype=np.float64)
    try:
        r = fn(X, y, out) if out is not None else fn(X, y)
    except Exception as e:
        return {"raised": type(e).__name__}
    return {"returned": repr(r)[:200]}


def run_invalid(case, asan=False):
    items = case["items"]
    results, died = childproc.run_batch("checks.c13", "eval_invalid", items, asan=asan)
    for it, r in zip(items, results):
        require("raised" in r, "invalid input was accepted instead of raising", item=it, result=r)
    if died is not None:
        raise Violation("interpreter died (rc=%s) on invalid input %r: %s" %
                        (died["rc"], items[min(died["index"], len(items) - 1)], died["stderr"][-1200:]))
    kinds = sorted(set(it["kind"] for it in items))
    return Info(len(kinds) >= 3, ["invalid_kind=" + k for k in kinds] + ["invalid_items=%d" % (len(items) // 5 * 5)],
                key=[(i["kernel"], i["dtype"], i["kind"], i["n"], i["d"]) for i in items])


def run_asan_valid(case):
    items = case["items"]
    results, died = childproc.run_batch("checks.c13", "eval_valid", items, asan=True)
    for it, r in zip(items, results):
        require("ok" in r, "ASan-build evaluation failed: %s" % (r.get("violation") or r.get("error")), item=it)
    if died is not None:
        raise Violation("sanitizer abort / crash (rc=%s) on valid input %r: %s" %
                        (died["rc"], items[min(died["index"], len(items) - 1)], died["stderr"][-1500:]))
    nt = sum(1 for c in items if c["xlayout"] != "C" or c["threads"] > 1)
    return Info(nt >= 2, ["asan_valid_items=%d" % (len(items) // 5 * 5)])


def run_asan_invalid(case):
    return run_invalid(case, asan=True)


invalid_batch = st.fixed_dictionaries({"items": st.lists(invalid_item(), min_size=12, max_size=30)})
valid_batch = st.fixed_dictionaries({"items": st.lists(valid_case(max_n=24, max_d=7), min_size=10, max_size=25)})

# ---------------------------------------------------------------------------
# few, very wide rows (seeded): thousands of terms per row, every thread count

@st.composite
def wide_case(draw):
    kernel = draw(st.sampled_from(list(KERNELS)))
    return {"kernel": kernel, "dtype": draw(st.sampled_from(KERNELS[kernel])), "n": draw(st.integers(1, 15)),
            "d": draw(st.sampled_from([4096, 4099, 9000, 1024, 1025, 2048, 1023, 4095])), "seed": draw(st.integers(0, 2 ** 31 - 1)),
            "threads": draw(st.sampled_from([2, 3, 7, 16])), "xlayout": draw(st.sampled_from(["C", "F", "rowstride"]))}


def run_wide(case):
    fn = getattr(libdist, case["kernel"])
    rng = np.random.RandomState(case["seed"])          # seed drawn by Hypothesis
    n, d, dt = case["n"], case["d"], case["dtype"]
    if dt.startswith("float"):
        V = (rng.randn(n, d) * np.exp(rng.uniform(-6, 6, size=d))).astype(dt)
    else:
        hi = min(int(np.iinfo(dt).max), 1000)
        V = rng.randint(max(int(np.iinfo(dt).min), -1000), hi + 1, size=(n, d)).astype(dt)
    v = V[rng.randint(n)][::-1].copy()
    X = lay_X(V, case["xlayout"])
    with threadpool_limits(limits=1, user_api="openmp"):
        base = fn(np.ascontiguousarray(V), v)
    if dt.startswith("float"):
        Xd, yd = V.astype(np.float64), v.astype(np.float64)
        ref = {"euclidean": lambda: np.sqrt(((Xd - yd) ** 2).sum(axis=1)), "manhattan": lambda: np.abs(Xd - yd).sum(axis=1),
               "hamming": lambda: (Xd != yd).mean(axis=1)}[case["kernel"]]()
    else:
        ref = reference(case["kernel"], V, v)
    rtol = 1e-5 if dt == "float32" else 1e-12
    require(base.dtype == np.float64 and base.shape == (n,), "result is not a 1-D float64 array of length n")
    require(bool(np.all(np.abs(base - ref) <= rtol * np.maximum(np.abs(ref), np.abs(base)) + 1e-300)),
            "kernel result differs from reference on very wide rows", kernel=case["kernel"], dtype=dt, d=d,
            got=base[:3].tolist(), want=ref[:3].tolist())
    for t in (case["threads"], 16, case["threads"]):
        with threadpool_limits(limits=t, user_api="openmp"):
            r = fn(X, v)
        require(same_bits(np.ascontiguousarray(r), base), "result on very wide rows depends on the number of OpenMP threads / layout",
                threads=t, got=r[:3].tolist(), plain=base[:3].tolist(), kernel=case["kernel"], dtype=dt, n=n, d=d)
    return Info(d >= 1024, ["wide_kernel=" + case["kernel"], "wide_dtype=" + dt, "wide_d=%d" % d, "threads=%d" % case["threads"]],
                key=[case["kernel"], dt, n, d, case["seed"], case["threads"], case["xlayout"]])


# ---------------------------------------------------------------------------
# thousands of rows in a non-C layout (seeded): rows beyond any internal block of rows

@st.composite
def many_rows_case(draw):
    kernel = draw(st.sampled_from(list(KERNELS)))
    return {"kernel": kernel, "dtype": draw(st.sampled_from(KERNELS[kernel])), "n": draw(st.sampled_from([4095, 4096, 4097, 5000, 10007])),
            "d": draw(st.integers(1, 6)), "seed": draw(st.integers(0, 2 ** 31 - 1)), "threads": draw(st.sampled_from([1, 3, 16])),
            "xlayout": draw(st.sampled_from(["F", "F", "colstride", "rowstride", "negative", "C"])),
            "out": draw(st.sampled_from(["none", "fresh"]))}


def run_many_rows(case):
    fn = getattr(libdist, case["kernel"])
    rng = np.random.RandomState(case["seed"])          # seed drawn by Hypothesis
    n, d, dt = case["n"], case["d"], case["dtype"]
    if dt.startswith("float"):
        V = (rng.randn(n, d) * 50).astype(dt)
    else:
        V = rng.randint(max(int(np.iinfo(dt).min), -100), min(int(np.iinfo(dt).max), 100) + 1, size=(n, d)).astype(dt)
    V[:, 0] = (np.arange(n) % 97).astype(dt)             # every row identifiable by position
    v = V[n // 2].copy()
    X = lay_X(V, case["xlayout"])
    ref = reference(case["kernel"], V, v) if not dt.startswith("float") or n <= 0 else None
    if ref is None:
        Xd, yd = V.astype(np.float64), v.astype(np.float64)
        ref = {"euclidean": lambda: np.sqrt(((Xd - yd) ** 2).sum(axis=1)), "manhattan": lambda: np.abs(Xd - yd).sum(axis=1),
               "hamming": lambda: (Xd != yd).mean(axis=1)}[case["kernel"]]()
    out = np.full(n, 7.5) if case["out"] == "fresh" else None
    with threadpool_limits(limits=case["threads"], user_api="openmp"):
        r = fn(X, v) if out is None else fn(X, v, out=out)
    require(isinstance(r, np.ndarray) and r.dtype == np.float64 and r.shape == (n,), "result is not a 1-D float64 array of length n")
    rtol = 1e-5 if dt == "float32" else 1e-12
    bad = ~(np.abs(r - ref) <= rtol * np.maximum(np.abs(ref), np.abs(r)) + 1e-300)
    require(not bad.any(), "kernel result differs from reference on thousands of rows", kernel=case["kernel"], dtype=dt, n=n,
            layout=case["xlayout"], n_bad=int(bad.sum()), first_bad_row=int(np.argmax(bad)), got=r[bad][:3].tolist(),
            want=ref[bad][:3].tolist())
    return Info(n > 4096 and case["xlayout"] != "C", ["rows_n=%d" % n, "rows_layout=" + case["xlayout"], "rows_kernel=" + case["kernel"]],
                key=[case[k_] for k_ in sorted(case)])


# ---------------------------------------------------------------------------
# denormal inputs: the kernels compute in IEEE double precision - values below the normal range are numbers, not zeros
# (and no part of the library may switch the process to flush-to-zero arithmetic)

@st.composite
def denormal_case(draw):
    return {"kernel": draw(st.sampled_from(["euclidean", "manhattan"])), "dtype": draw(st.sampled_from(["float32", "float64"])),
            "ks": draw(st.lists(st.integers(1, 2 ** 20), min_size=1, max_size=12)), "threads": draw(st.sampled_from([1, 2, 16])),
            "sign": draw(st.sampled_from([1, -1]))}


def run_denormal(case):
    if case["kernel"] == "euclidean" and case["dtype"] == "float64":
        # the SQUARE of a float64 denormal is below every representable number: the 2-norm legitimately underflows
        raise Skip("square of a float64 denormal underflows in exact IEEE arithmetic too")
    fn = getattr(libdist, case["kernel"])
    ks = case["ks"]
    if case["dtype"] == "float32":
        X = np.array(ks, dtype=np.uint32).view(np.float32).reshape(-1, 1).copy()       # k * 2**-149, built from bit patterns
        expo = -149
    else:
        X = np.array(ks, dtype=np.uint64).view(np.float64).reshape(-1, 1).copy()       # k * 2**-1074
        expo = -1074
    if case["sign"] < 0:
        X = -X
    y = np.zeros(1, dtype=case["dtype"])
    with threadpool_limits(limits=case["threads"], user_api="openmp"):
        r = fn(X, y)
    got_bits = np.asarray(r, dtype=np.float64).view(np.uint64).tolist()
    # |x - 0| = k * 2**expo exactly; as float64 bit pattern: for float64 denormals the pattern is k itself, for float32
    # denormals it is the normal double ldexp(k, -149) (computed with integer arithmetic only)
    want_bits = []
    for k in ks:
        if expo == -1074:
            want_bits.append(int(k))
        else:
            e = k.bit_length() - 1                     # k = m * 2**e with 1 <= m < 2
            mant = (k << (52 - e)) & ((1 << 52) - 1)
            want_bits.append(((e + expo + 1023) << 52) | mant)
    require(got_bits == want_bits, "a distance below the normal floating-point range is not returned exactly (flushed to "
            "zero / rounded)", kernel=case["kernel"], dtype=case["dtype"], got=[hex(b) for b in got_bits][:4],
            want=[hex(b) for b in want_bits][:4], ks=ks[:4])
    return Info(True, ["denormal_dtype=" + case["dtype"], "denormal_kernel=" + case["kernel"]])


CLAUSES = [
    Clause("values", valid_case(), run_values, quick=1600, thorough=24000),
    Clause("values_large", valid_case(max_n=400, max_d=33), run_values, quick=40, thorough=1600),
    Clause("wide_rows", wide_case(), run_wide, quick=400, thorough=4000),
    Clause("many_rows_layouts", many_rows_case(), run_many_rows, quick=40, thorough=600),
    Clause("denormal_inputs", denormal_case(), run_denormal, quick=200, thorough=3000),
    Clause("invalid_raises", invalid_batch, run_invalid, quick=12, thorough=160),
]

CLAUSES += [
    Clause("asan_values", valid_batch, run_asan_valid, quick=0, thorough=96),
    Clause("asan_invalid", invalid_batch, run_asan_invalid, quick=0, thorough=64),
]


def prepare(tier):
    """Called once by the runner before shards start."""
    if tier == "thorough":
        from vf import build
        build.ensure(asan=True)


MATCHERS = {}
