"""C16 - MSM estimator == function pipeline; save/load round-trip; eigenspectrum; implied timescales;
synthetic ensemble propagation."""
import logging
import os
import shutil
import tempfile
import warnings

import numpy as np
import scipy.sparse as sp
from hypothesis import strategies as st

from vf.harness import Clause, Info, require, Skip, Violation
from vf import ref_c16 as R

from enspara import ra
from enspara.msm import MSM, builders
from enspara.msm.transition_matrices import (assigns_to_counts, trim_disconnected, eigenspectrum,
                                             eq_probs)
from enspara.msm.timescales import implied_timescales
from enspara.msm.synthetic_data import synthetic_ensemble

logging.getLogger("enspara.msm.msm").setLevel(logging.WARNING)
logging.getLogger("enspara.msm.transition_matrices").setLevel(logging.ERROR)

PROPERTY = "C16"
LEVEL = "exploration"
RULE = ("Assignment sets are CONSTRUCTED (not filtered): per lag one trajectory whose frames 0, lag, 2 lag, ... walk "
        "a closed cycle over all 'core' states `laps` times (other residues hold core states only), optionally "
        "preceded/followed by non-core states (only when trim=True), plus 0-2 extra trajectories (random / shorter "
        "than the lag / a disconnected island); laps is chosen so the core component is strictly the heaviest. "
        "Hypothesis draws lag 1..5, sliding on/off, trim on/off, max_n_states in {None, observed, observed+1..3 "
        "(trim only)}, builder in {normalize, transpose, mle} by name and by callable plus a dense-returning "
        "callable (normalize with prior_counts=1), presentation (padded ndarray / RaggedArray), constructor vs "
        "from_assignments; core size 1..6 (<= 4 for mle; up to 12 and lag up to 8 in the thorough-only *_large "
        "clauses). Thorough also enumerates all 1344 configurations (7 builders x trim x sliding x max_n_states x "
        "lag 1..3 x presentation x constructor) on two fixed assignment sets. Spectral clauses draw ergodic matrices from integer weights (all-positive, reversible, "
        "rotor = strong cyclic drift -> complex pairs, bipartite = exactly/nearly periodic -> negative eigenvalues, "
        "sparse pattern = ring + random edges), n 1..9 (10..40 from a drawn seed; 1000..1200-state sparse chains for "
        "the ARPACK branch: reversible metastable blocks, the same nearly bipartite (eigenvalues near -1), and "
        "with a directed drift), container ndarray/csr/coo/csc matrix and csr/coo array, n_eigs in {None,2,3,n,n+2}, "
        "left/right. Non-trivial: (pipeline, roundtrip) trim=True actually removed >= 1 state and at least one more "
        "field differs from its default (sliding_window=False or max_n_states given); (timescales) >= 1 finite "
        "positive timescale and (a state trimmed or sliding off or >= 2 lag times); (spectrum) n >= 3 with a complex "
        "pair or a negative eigenvalue; (propagate) n >= 2, n_steps >= 3. Distinct = distinct canonical JSON.")
ASSUMPTIONS = [
    "every kept state has outgoing counts (by construction); with trim=False max_n_states never exceeds the observed "
    "state count (unvisited states would give zero rows: outside the domain)",
    "builders.mle needs the C04/C12 repair (sparse input / exact-equality assertions) to run at all; it is counted "
    "as its own builder class",
    "the eigen-equation is asserted only for returned eigenvalues that are real eigenvalues of T (for complex pairs "
    "the library returns the real part); forward comparison of eigenvalues and the realness decision only for "
    "reference eigenvalues with condition number 1/|y^H x| <= 1e6 (near-defective eigenvalues move by eps**(1/m))",
    "ARPACK uses its own random start vector: results are checked as validity predicates (1e-8), not for identity",
    "implied_timescales: when trimming leaves fewer than n_times+1 states for some but not all lag times the rows "
    "would be ragged (np.array raises); such cases are evaluated one lag time per call",
    "MSM.save(force=True), zip archives and non-picklable builders (lambdas) are outside the domain",
]
SHARDS = {"quick": 4, "thorough": 16}


# --------------------------------------------------------------------------
# builders


def prior_builder(C):
    """A user-supplied builder (callable) that returns DENSE arrays: normalize with one pseudo-count."""
    return builders.normalize(C, prior_counts=1)


import functools      # noqa: E402

# builders with a FRACTIONAL pseudo-count, bound the way the library's own apps do it (functools.partial): the counts
# that reach the estimation are then dense float64
prior_quarter_normalize = functools.partial(builders.normalize, prior_counts=0.25)
prior_quarter_transpose = functools.partial(builders.transpose, prior_counts=0.25)

METHODS = {
    "name:normalize": "normalize", "name:transpose": "transpose", "name:mle": "mle",
    "fn:normalize": builders.normalize, "fn:transpose": builders.transpose, "fn:mle": builders.mle,
    "fn:prior": prior_builder, "fn:priorq_normalize": prior_quarter_normalize, "fn:priorq_transpose": prior_quarter_transpose,
}
ALL_METHODS = ["name:normalize", "fn:normalize", "name:transpose", "fn:transpose", "fn:prior", "name:mle", "fn:mle",
               "fn:priorq_normalize", "fn:priorq_transpose"]
FN_METHODS = [m for m in ALL_METHODS if m.startswith("fn:")]


def method_fn(key):
    v = METHODS[key]
    return getattr(builders, v) if isinstance(v, str) else v


def dense(x):
    return np.asarray(x.toarray() if sp.issparse(x) else x)


# --------------------------------------------------------------------------
# assignment-set strategy


@st.composite
def assign_case(draw, multi_lag=False, methods=ALL_METHODS, max_core=6, min_core=1, max_lag=5, with_mns=True):
    method = draw(st.sampled_from(methods))
    trim = draw(st.booleans())
    sliding = draw(st.booleans())
    if multi_lag:
        # any order: a descending scan, a coarse scan followed by a refinement ... row i belongs to lag_times[i]
        lags = draw(st.lists(st.integers(1, min(4, max_lag)), min_size=1, max_size=3, unique=True))
    else:
        lags = [draw(st.integers(1, max_lag))]
    kmax = min(4, max_core) if method.endswith("mle") else max_core
    k = draw(st.integers(min_core, max(kmax, min_core)))
    n_non = draw(st.integers(0, 3)) if trim else 0
    labels = list(draw(st.permutations(list(range(k + n_non)))))
    core, non = labels[:k], labels[k:]
    core_st = st.sampled_from(core)
    any_st = st.sampled_from(labels)
    recipes = []
    F = 0
    for lag in lags:
        perm = list(draw(st.permutations(core)))
        pre = draw(st.lists(st.sampled_from(non), max_size=2)) if non else []
        post = draw(st.lists(st.sampled_from(non), max_size=2)) if non else []
        chords = draw(st.lists(core_st, max_size=6))
        tail = draw(st.integers(0, lag - 1))
        others = [draw(st.lists(core_st, min_size=1, max_size=4)) for _ in range(min(lag - 1, 2))] or [[core[0]]]
        recipes.append((perm, chords, pre, post, lag, tail, others))
        F += len(pre) + len(post)
    extras = []
    for _ in range(draw(st.integers(0, 2))):
        kind = draw(st.sampled_from(["random", "short", "island"] if non else ["random", "short"]))
        if kind == "random":
            t = draw(st.lists(any_st, min_size=1, max_size=2 * max(lags) + 3))
        elif kind == "short":
            t = draw(st.lists(any_st, min_size=1, max_size=min(lags)))
        else:
            a, b = draw(st.sampled_from(non)), draw(st.sampled_from(non))
            t = [a if i % 2 == 0 else b for i in range(draw(st.integers(2, 6)))]
        extras.append(t)
        F += sum(1 for s in t if s in non)
    laps = F // k + 1 + draw(st.integers(0, 2))
    trajs = [R.main_traj(perm, laps, chords, pre, post, lag, tail, others)
             for (perm, chords, pre, post, lag, tail, others) in recipes] + extras
    order = draw(st.permutations(list(range(len(trajs)))))
    trajs = [trajs[i] for i in order]
    obs = max(max(t) for t in trajs) + 1
    mns = None
    if with_mns:
        kind = draw(st.sampled_from([None, "obs", "extra"] if trim else [None, "obs"]))
        mns = None if kind is None else obs if kind == "obs" else obs + draw(st.integers(1, 3))
    case = {"trajs": trajs, "sliding": sliding, "trim": trim, "method": method, "max_n_states": mns,
            "how": draw(st.sampled_from(["padded", "ragged"])),
            "via": draw(st.sampled_from(["fit", "from_assignments", "set_params", "setattr"])),
            "core": sorted(core)}
    if multi_lag:
        case["lags"] = lags
        case["n_times"] = draw(st.sampled_from([None, 1, 2, 3, 10]))
    else:
        case["lag"] = lags[0]
        case["custom_names"] = draw(st.booleans())
    return case


def make_assigns(trajs, how):
    if how == "ragged":
        return ra.RaggedArray([np.array(t, dtype=np.int64) for t in trajs])
    m = max(len(t) for t in trajs)
    a = -np.ones((len(trajs), m), dtype=np.int64)
    for i, t in enumerate(trajs):
        a[i, :len(t)] = t
    return a


def fit_msm(case, a, lag):
    kw = dict(lag_time=lag, method=METHODS[case["method"]], trim=case["trim"],
              sliding_window=case["sliding"], max_n_states=case["max_n_states"])
    if case["via"] == "fit":
        m = MSM(**kw)
        m.fit(a)
    elif case["via"] in ("set_params", "setattr"):
        # the estimator is built with other counting arguments and re-configured before it is fitted (scikit-learn
        # protocol: set_params / public attributes), e.g. one object scanned over lag times
        decoy = dict(kw, lag_time=lag + 1, sliding_window=not case["sliding"],
                     max_n_states=None if case["max_n_states"] is not None else 50)
        m = MSM(**decoy)
        if case["via"] == "set_params":
            m.set_params(lag_time=lag, sliding_window=case["sliding"], max_n_states=case["max_n_states"])
        else:
            m.lag_time, m.sliding_window, m.max_n_states = lag, case["sliding"], case["max_n_states"]
        m.fit(a)
    else:
        m = MSM.from_assignments(a, **kw)
    return m


def reference(case, lag, n=None):
    """Independent model of counts + trimming. Returns (Cref_full, candidates, comps)."""
    trajs = case["trajs"]
    obs = max(max(t) for t in trajs) + 1
    n = n or case.get("max_n_states") or obs
    C = R.ref_counts(trajs, lag, case["sliding"], n)
    if case["trim"]:
        cands, comps = R.ref_trim(C)
    else:
        cands, comps = [list(range(n))], None
    # domain guard (holds by construction; counted as skip if the construction were ever wrong)
    for keep in cands:
        sub = C[np.ix_(keep, keep)]
        if not np.all(sub.sum(axis=1) > 0):
            raise Skip("a kept state has no outgoing counts")
    return C, cands


def mapping_dict(mp):
    return {int(k): int(v) for k, v in mp.to_original.items()}


def assign_classes(case, lag, n_full, n_kept):
    return ["method=" + case["method"], "trim=%s" % case["trim"], "sliding=%s" % case["sliding"],
            "mns=%s" % ("None" if case["max_n_states"] is None else
                        "obs" if case["max_n_states"] == max(max(t) for t in case["trajs"]) + 1 else "extra"),
            "how=" + case["how"], "via=" + case["via"], "lag=%d" % lag,
            "removed=%s" % ("0" if n_full == n_kept else ">=1"),
            "n_kept=%s" % ("1" if n_kept == 1 else "2" if n_kept == 2 else ">=3"),
            "ntraj=%s" % (">=2" if len(case["trajs"]) > 1 else "1")]


def assign_nt(case, n_full, n_kept):
    return bool(case["trim"] and n_kept < n_full and ((not case["sliding"]) or case["max_n_states"] is not None))


# --------------------------------------------------------------------------
# clause 1: estimator == function pipeline (+ independent reference)

TS = float(os.environ.get("C16_TOL_SCALE", "1"))     # calibration only: C16_TOL_SCALE=0.01 must still pass
TOL_SAME = 1e-12 * TS


def close(a, b, tol):
    a, b = np.asarray(a, dtype=float), np.asarray(b, dtype=float)
    return a.shape == b.shape and bool(np.all(np.abs(a - b) <= tol + tol * np.maximum(np.abs(a), np.abs(b))))


def run_pipeline(case):
    lag = case["lag"]
    a = make_assigns(case["trajs"], case["how"])
    Cref, cands = reference(case, lag)
    fn = method_fn(case["method"])

    m = fit_msm(case, a, lag)

    # --- the function pipeline with the same settings
    C = assigns_to_counts(a, lag, max_n_states=case["max_n_states"], sliding_window=case["sliding"])
    if case["trim"]:
        mp, C = trim_disconnected(C)
        to_orig = mapping_dict(mp)
    else:
        to_orig = {i: i for i in range(C.shape[0])}
    Cp, Tp, pip = fn(C)

    require(mapping_dict(m.mapping_) == to_orig, "state mapping differs from trim_disconnected / identity",
            got=mapping_dict(m.mapping_), want=to_orig)
    Cm, Tm, pim = dense(m.tcounts_), dense(m.tprobs_), np.asarray(m.eq_probs_)
    require(Cm.shape == dense(Cp).shape and np.array_equal(Cm, dense(Cp)),
            "MSM counts differ from the function pipeline", got=Cm.tolist(), want=dense(Cp).tolist())
    require(close(Tm, dense(Tp), TOL_SAME), "MSM transition probabilities differ from the function pipeline",
            got=Tm.tolist(), want=dense(Tp).tolist())
    require(close(pim, np.asarray(pip), TOL_SAME), "MSM populations differ from the function pipeline",
            got=pim.tolist(), want=np.asarray(pip).tolist())
    require(m.n_states_ == Tm.shape[0], "n_states_ inconsistent")

    # --- independent reference (literal counting, own SCC, closed-form builders)
    keep = [to_orig[i] for i in range(len(to_orig))]
    require(sorted(keep) == keep and any(keep == c for c in cands),
            "kept states are not (one of) the heaviest strongly connected component(s), ascending",
            got=keep, candidates=cands)
    Ct = Cref[np.ix_(keep, keep)]
    mk = case["method"].split(":")[1]
    if mk in ("normalize", "mle"):
        require(np.array_equal(Cm, Ct), "counts differ from literal lagged-pair counting (+ trimming)",
                got=Cm.tolist(), want=Ct.tolist())
    if mk == "normalize":
        require(close(Tm, R.ref_normalize(Ct), TOL_SAME), "T differs from row-normalised reference counts",
                got=Tm.tolist(), want=R.ref_normalize(Ct).tolist())
        if R.is_irreducible(Ct):
            pr = R.stationary(R.ref_normalize(Ct))
            require(close(pim, pr, 1e-9 * TS), "populations are not the stationary distribution of T",
                    got=pim.tolist(), want=pr.tolist())
    elif mk == "transpose":
        Cs, Ts, ps = R.ref_transpose(Ct)
        require(np.array_equal(Cm, Cs), "counts differ from (C + C^T)/2 of the reference counts",
                got=Cm.tolist(), want=Cs.tolist())
        require(close(Tm, Ts, TOL_SAME) and close(pim, ps, TOL_SAME), "transpose T / populations differ from reference",
                gotT=Tm.tolist(), wantT=Ts.tolist(), gotp=pim.tolist(), wantp=ps.tolist())
    elif mk == "priorq_normalize":
        require(np.array_equal(Cm, Ct + 0.25), "counts differ from reference counts + 0.25", got=Cm.tolist())
        require(close(Tm, R.ref_normalize(Ct + 0.25), TOL_SAME), "T differs from row-normalised (counts + 0.25)")
        require(close(pim, R.stationary(R.ref_normalize(Ct + 0.25)), 1e-9 * TS), "populations not stationary (counts + 0.25)")
    elif mk == "priorq_transpose":
        Cs, Ts, ps = R.ref_transpose(Ct + 0.25)
        require(np.array_equal(Cm, Cs), "counts differ from ((C + 0.25) + (C + 0.25)^T)/2", got=Cm.tolist(), want=Cs.tolist())
        require(close(Tm, Ts, TOL_SAME) and close(pim, ps, TOL_SAME), "transpose T / populations differ from reference "
                "(counts + 0.25)", gotT=Tm.tolist(), wantT=Ts.tolist(), gotp=pim.tolist(), wantp=ps.tolist())
    elif mk == "prior":
        require(np.array_equal(Cm, Ct + 1), "counts differ from reference counts + 1", got=Cm.tolist())
        require(close(Tm, R.ref_normalize(Ct + 1), TOL_SAME), "T differs from row-normalised (counts + 1)")
        require(close(pim, R.stationary(R.ref_normalize(Ct + 1)), 1e-9 * TS), "populations not stationary")
    else:  # mle: validity (the fixed-point property itself is C12's)
        require(np.all(Tm >= 0) and close(Tm.sum(axis=1), np.ones(len(Tm)), 1e-9 * TS), "mle T not row-stochastic")
        require(np.all(pim > 0) and abs(pim.sum() - 1) <= 1e-9 * TS, "mle populations not a distribution")
        F = pim[:, None] * Tm
        require(np.max(np.abs(F - F.T)) <= 1e-9 * TS, "mle T not reversible w.r.t. its populations")
        require(np.array_equal(Tm > 0, (Ct + Ct.T) > 0), "mle T support differs from the support of C + C^T")

    n_full = Cref.shape[0]
    return Info(assign_nt(case, n_full, len(keep)), assign_classes(case, lag, n_full, len(keep)))


def exhaustive_configs(tier, shard, nshards):
    if tier != "thorough":
        return None

    def blocks(seq, b=3):
        return [s for s in seq for _ in range(b)]

    def gen():
        idx = 0
        t1 = [blocks([0, 1, 2, 0, 2, 1, 0]), [1, 1]]
        t2 = [blocks([0, 4, 1, 2, 4, 1, 2, 4, 5]), [1, 1]]
        for tname, trajs, trims in (("t1", t1, (False, True)), ("t2", t2, (True,))):
            obs = max(max(t) for t in trajs) + 1
            for method in ALL_METHODS:
                for trim in trims:
                    for sliding in (True, False):
                        for mns in ((None, obs, obs + 2) if trim else (None, obs)):
                            for lag in (1, 2, 3):
                                for how in ("padded", "ragged"):
                                    for via in ("fit", "from_assignments"):
                                        idx += 1
                                        if idx % nshards != shard:
                                            continue
                                        yield {"trajs": trajs, "sliding": sliding, "trim": trim, "method": method,
                                               "max_n_states": mns, "how": how, "via": via, "lag": lag,
                                               "custom_names": False, "core": [0, 1, 2] if tname == "t1" else [1, 2, 4]}
    return gen()


# --------------------------------------------------------------------------
# clause 2: save -> load gives an equal model


def run_roundtrip(case):
    lag = case["lag"]
    a = make_assigns(case["trajs"], case["how"])
    Cref, cands = reference(case, lag)
    m = fit_msm(case, a, lag)
    snap = (dense(m.tcounts_).copy(), dense(m.tprobs_).copy(), np.array(m.eq_probs_, copy=True),
            mapping_dict(m.mapping_), dict(m.config))
    names = {}
    if case.get("custom_names"):
        names = {"mapping_": "map.csv", "tcounts_": "c.mtx", "tprobs_": "t.mtx", "eq_probs_": "p.dat",
                 "config": "cfg.pkl"}
    d = tempfile.mkdtemp(prefix="c16-")
    try:
        path = os.path.join(d, "model")
        m.save(path, **names)
        m2 = MSM.load(path)
        files = sorted(os.listdir(path))
    finally:
        shutil.rmtree(d, ignore_errors=True)

    # saving must not change the model
    require(np.array_equal(dense(m.tcounts_), snap[0]) and np.array_equal(dense(m.tprobs_), snap[1])
            and np.array_equal(np.asarray(m.eq_probs_), snap[2]) and mapping_dict(m.mapping_) == snap[3],
            "save() modified the fitted model")
    want_files = sorted(list((names or {"mapping_": "mapping.csv", "tcounts_": "tcounts.mtx", "tprobs_": "tprobs.mtx",
                                        "eq_probs_": "eq-probs.dat", "config": "config.pkl"}).values())
                        + ["manifest.json"])
    require(files == want_files, "unexpected files written", got=files, want=want_files)

    c1, c2 = m.config, m2.config
    def same_method(f, g):
        if isinstance(f, functools.partial) and isinstance(g, functools.partial):      # a pickled partial is a new object
            return f.func is g.func and f.args == g.args and f.keywords == g.keywords
        return f is g
    require(set(c1) == set(c2) and all(c1[k] == c2[k] for k in c1 if k != "method") and same_method(c1["method"], c2["method"]),
            "config changed by save/load", before={k: str(v) for k, v in c1.items()},
            after={k: str(v) for k, v in c2.items()})
    require(c2["lag_time"] == lag and c2["trim"] == case["trim"] and c2["sliding_window"] == case["sliding"],
            "loaded config does not carry the constructor arguments",
            got={k: str(v) for k, v in c2.items()})
    require(mapping_dict(m2.mapping_) == snap[3], "state mapping changed by save/load",
            before=snap[3], after=mapping_dict(m2.mapping_))
    C2, T2 = dense(m2.tcounts_), dense(m2.tprobs_)
    p2 = np.asarray(m2.eq_probs_)
    require(C2.shape == snap[0].shape and np.array_equal(C2, snap[0]), "counts changed by save/load",
            before=snap[0].tolist(), after=C2.tolist())
    require(T2.shape == snap[1].shape and np.array_equal(T2, snap[1]),
            "transition probabilities not bit-identical after save/load",
            maxdiff=float(np.max(np.abs(T2 - snap[1]))) if T2.shape == snap[1].shape else None)
    require(p2.shape == snap[2].shape and np.array_equal(p2, snap[2]),
            "populations not bit-identical after save/load",
            maxdiff=float(np.max(np.abs(p2 - snap[2]))) if p2.shape == snap[2].shape else None)
    if not isinstance(c1["method"], functools.partial):
        # (MSM.__eq__ compares the configuration dicts with ==, and functools.partial objects only equal themselves: for
        # a partial builder the class's own == cannot hold after unpickling; the contents were compared above)
        eq12 = (m == m2)
        eq21 = (m2 == m)
        require(eq12 is True or eq12 == True, "model != loaded model according to MSM.__eq__")   # noqa: E712
        require(bool(eq21), "loaded model != model according to MSM.__eq__")
    # and the equality is not vacuous: a different lag time is a different model
    other = MSM(lag_time=lag + 1, method=METHODS[case["method"]], trim=case["trim"],
                sliding_window=case["sliding"], max_n_states=case["max_n_states"])
    require(not (other == m2), "MSM.__eq__ says an unfitted model with another lag time equals the loaded model")

    n_full, n_kept = Cref.shape[0], len(snap[3])
    cl = assign_classes(case, lag, n_full, n_kept) + ["custom_names=%s" % bool(case.get("custom_names")),
                                                      "stored=%s" % ("sparse" if sp.issparse(m.tprobs_) else "dense")]
    return Info(assign_nt(case, n_full, n_kept), cl)


# --------------------------------------------------------------------------
# clause 3: implied timescales = -lag / ln(eigenvalue)


def _nan_equal(got, want, rtol=1e-10 * TS):
    got, want = np.asarray(got, dtype=float), np.asarray(want, dtype=float)
    if got.shape != want.shape:
        return False
    for g, w in zip(got.ravel(), want.ravel()):
        if np.isnan(w) or np.isnan(g):
            if not (np.isnan(w) and np.isnan(g)):
                return False
        elif np.isinf(w) or np.isinf(g):
            if g != w:
                return False
        elif abs(g - w) > rtol * max(abs(g), abs(w)) + 1e-300:
            return False
    return True


def run_timescales(case):
    lags = case["lags"]
    trajs = case["trajs"]
    a = make_assigns(trajs, case["how"])
    fn = method_fn(case["method"])
    n_states = max(max(t) for t in trajs) + 1
    n_times = case["n_times"]
    nt_eff = int(np.floor(n_states / 10.0)) + 1 if n_times is None else n_times
    nt_eff = min(nt_eff, n_states - 1)

    want, kept, lam_ref = [], [], []
    for lag in lags:
        Cref, cands = reference(case, lag, n=n_states)
        C = assigns_to_counts(a, lag, max_n_states=n_states, sliding_window=case["sliding"])
        if case["trim"]:
            mp, C = trim_disconnected(C)
            keep = [int(mp.to_original[i]) for i in range(len(mp.to_original))]
        else:
            keep = list(range(n_states))
        kept.append(len(keep))
        _, T, _ = fn(C)
        vals, _ = eigenspectrum(T, n_eigs=nt_eff + 1)
        with np.errstate(all="ignore"):
            want.append(-lag / np.log(vals[1:]))
        # independent spectrum for the closed-form reversible builder: symmetric eigenproblem
        if case["method"] == "fn:transpose" and any(keep == c for c in cands):
            S = Cref[np.ix_(keep, keep)].astype(float)
            S = S + S.T
            dd = 1.0 / np.sqrt(S.sum(axis=1))
            lam_ref.append(np.sort(np.linalg.eigvalsh(S * dd[:, None] * dd[None, :]))[::-1])
        else:
            lam_ref.append(None)

    kw = dict(n_times=n_times, sliding_window=case["sliding"], trim=case["trim"])
    ragged = len(set(len(w) for w in want)) > 1
    with np.errstate(all="ignore"), warnings.catch_warnings():
        warnings.simplefilter("ignore")
        if ragged:
            got = []
            for lag in lags:
                g = implied_timescales(a, [lag], fn, **kw)
                require(g.ndim == 2 and g.shape[0] == 1, "result is not (n_lag_times, n_times)", shape=g.shape)
                got.append(g[0])
        else:
            g = implied_timescales(a, list(lags), fn, **kw)
            require(g.shape == (len(lags), len(want[0])), "result shape is not (len(lag_times), n_times)",
                    got=g.shape, want=(len(lags), len(want[0])))
            got = [g[i] for i in range(len(lags))]

    finite_pos = False
    for lag, g, w, lr in zip(lags, got, want, lam_ref):
        require(_nan_equal(g, w), "implied timescales differ from -lag/ln(eigenvalue) of the function pipeline",
                lag=lag, got=np.asarray(g).tolist(), want=np.asarray(w).tolist())
        finite_pos = finite_pos or bool(np.any(np.isfinite(g) & (np.asarray(g) > 0)))
        if lr is not None:
            for k, t in enumerate(np.asarray(g, dtype=float)):
                lam = lr[k + 1]
                with np.errstate(all="ignore"):
                    back = 0.0 if t == 0 else float(np.exp(-lag / t)) if np.isfinite(t) else 1.0
                if lam > 1 - 1e-7:
                    continue
                if lam > 1e-7:
                    require(np.isfinite(t) and t > 0 and abs(back - lam) <= 1e-9 * TS,
                            "timescale does not correspond to the k-th eigenvalue of the reversible reference",
                            lag=lag, k=k + 1, timescale=float(t), eigenvalue=float(lam), back=back)
                elif lam < -1e-7:
                    require(np.isnan(t), "negative eigenvalue must give NaN", lag=lag, k=k + 1, got=float(t),
                            eigenvalue=float(lam))
                else:
                    require(np.isnan(t) or (t >= 0 and back <= 1e-6), "zero eigenvalue: expected NaN or ~0",
                            lag=lag, got=float(t))

    has_nan = any(np.any(np.isnan(g)) for g in got)
    nt = finite_pos and (min(kept) < n_states or not case["sliding"] or len(lags) >= 2)
    cl = ["method=" + case["method"], "trim=%s" % case["trim"], "sliding=%s" % case["sliding"],
          "n_lags=%d" % len(lags), "n_times=%s" % n_times, "how=" + case["how"], "has_nan=%s" % has_nan,
          "ragged_rows=%s" % ragged, "removed=%s" % ("0" if min(kept) == n_states else ">=1"),
          "indep_reversible=%s" % any(l is not None for l in lam_ref), "width=%s" % min(3, max(len(w) for w in want))]
    return Info(nt, cl)


# --------------------------------------------------------------------------
# clause 4/5: eigenspectrum

FORMATS = ["ndarray", "csr_matrix", "coo_matrix", "csc_matrix", "csr_array", "coo_array", "npmatrix"]


def as_format(T, fmt):
    if fmt == "ndarray":
        return np.array(dense(T), dtype=float)
    if fmt == "npmatrix":
        # what `tprobs_.todense()` gives (the idiom of the library's own tests): ndarray sub-class
        import warnings
        with warnings.catch_warnings():
            warnings.simplefilter("ignore")
            return np.matrix(np.array(dense(T), dtype=float))
    return getattr(sp, fmt)(T)


@st.composite
def weights(draw, min_n=1, max_n=9):
    fam = draw(st.sampled_from(["dense_pos", "reversible", "rotor", "bipartite", "sparse_pattern", "near_symmetric"]))
    n = draw(st.integers(max(min_n, 2 if fam == "bipartite" else min_n), max_n))
    W = [[0] * n for _ in range(n)]
    if fam == "dense_pos":
        W = [[draw(st.integers(1, 30)) for _ in range(n)] for _ in range(n)]
    elif fam == "reversible":
        for i in range(n):
            for j in range(i, n):
                w = draw(st.integers(0, 20))
                if j == (i + 1) % n or i == (j + 1) % n:
                    w += 1
                W[i][j] = W[j][i] = w
        if n == 1:
            W[0][0] += 1
    elif fam == "near_symmetric":
        # a symmetric (circulant) well-connected chain plus a relative asymmetry of 1e-7 .. 1e-5: "symmetric" to
        # np.allclose, yet its stationary distribution is measurably (>= 1e-7) not uniform; well conditioned
        c = [draw(st.integers(1, 30)) for _ in range(n // 2 + 1)]
        scale = draw(st.sampled_from([10 ** 6, 10 ** 7, 10 ** 8]))
        for i in range(n):
            for j in range(n):
                d = abs(i - j)
                W[i][j] = c[min(d, n - d)] * scale + (draw(st.integers(0, 40)) if i != j else 0)
    elif fam == "rotor":
        big = draw(st.integers(10, 60))
        for i in range(n):
            for j in range(n):
                W[i][j] = draw(st.integers(0, 3))
            W[i][(i + 1) % n] += big
    elif fam == "bipartite":
        leak = draw(st.sampled_from([0, 0, 1, 2]))
        for i in range(n):
            for j in range(n):
                if (i + j) % 2 == 1:
                    W[i][j] = draw(st.integers(1, 20))
                elif leak:
                    W[i][j] = draw(st.integers(0, leak))
    else:
        for i in range(n):
            for j in range(n):
                if draw(st.integers(0, 9)) < 3:
                    W[i][j] = draw(st.integers(1, 9))
            W[i][(i + 1) % n] += 1
    return fam, W


@st.composite
def spectral_case(draw, seeded=False):
    if seeded:
        n = draw(st.integers(10, 40))
        kind = draw(st.sampled_from(["dense_pos", "reversible", "rotor", "sparse_pattern"]))
        case = {"family": "seeded_" + kind, "seeded": {"n": n, "seed": draw(st.integers(0, 2 ** 31 - 1)), "kind": kind}}
    else:
        fam, W = draw(weights())
        n = len(W)
        case = {"family": fam, "W": W}
    ne = draw(st.sampled_from([None, None, 2, 3, n, n + 2]))
    if ne is not None and ne < 2:
        ne = None
    case.update({"fmt": draw(st.sampled_from(FORMATS)), "n_eigs": ne,
                 "left": draw(st.sampled_from([True, True, True, False]))})
    return case


@st.composite
def big_case(draw):
    return {"family": "big", "big": {"n": draw(st.sampled_from([1000, 1001, 1100, 1200])),
                                     "seed": draw(st.integers(0, 2 ** 31 - 1)),
                                     "kind": draw(st.sampled_from(["rev_bipartite", "rev_clusters", "nonrev_drift"])),
                                     "n_clusters": draw(st.integers(2, 5))},
            "fmt": draw(st.sampled_from(["coo_matrix", "csr_matrix", "csc_matrix", "csr_array"])),
            "n_eigs": draw(st.integers(2, 6)), "left": True}


def build_T(case):
    if "W" in case:
        return R.T_from_weights(case["W"])
    if "seeded" in case:
        s = case["seeded"]
        return R.seeded_dense(s["n"], s["seed"], s["kind"])
    b = case["big"]
    return R.seeded_big_sparse(b["n"], b["seed"], b["kind"], b["n_clusters"])


def run_spectrum(case):
    T0 = build_T(case)
    Td = dense(T0)
    n = Td.shape[0]
    big = "big" in case
    tol = (1e-8 if big else 1e-9) * TS
    T = as_format(T0, case["fmt"])
    Tcopy = Td.copy()
    left = case["left"]

    vals, vecs = eigenspectrum(T, n_eigs=case["n_eigs"], left=left)
    require(np.array_equal(dense(T), Tcopy), "eigenspectrum modified its input")

    m = n if case["n_eigs"] is None else min(case["n_eigs"], n)
    require(np.shape(vecs[:, 0]) == (n,) and np.shape(vals) == (min(n, n if case["n_eigs"] is None else case["n_eigs"]),),
            "eigenvalues / the leading eigenvector are not 1-D arrays (an eigenvector column must be usable as a vector)",
            vals_shape=np.shape(vals), column_shape=np.shape(vecs[:, 0]), type=type(vecs).__name__)
    vals, vecs = np.asarray(vals), np.asarray(vecs)
    require(vals.dtype.kind == "f" and vecs.dtype.kind == "f", "eigenvalues / eigenvectors are not real arrays",
            vals=str(vals.dtype), vecs=str(vecs.dtype))
    require(vals.shape == (m,) and vecs.shape == (n, m), "wrong number of eigenpairs returned",
            vals=vals.shape, vecs=vecs.shape, want=m)
    require(np.all(np.isfinite(vals)) and np.all(np.isfinite(vecs)), "non-finite eigenpairs")
    require(bool(np.all(vals[:-1] >= vals[1:])), "eigenvalues not in descending order", vals=vals.tolist())
    require(abs(vals[0] - 1.0) <= tol, "leading eigenvalue is not one", got=float(vals[0]))
    require(bool(np.all(np.abs(vals) <= 1 + tol)), "eigenvalue outside the unit disc", vals=vals.tolist())

    v0 = vecs[:, 0]
    require(abs(v0.sum() - 1.0) <= tol, "leading eigenvector does not sum to one", got=float(v0.sum()))
    require(float(v0.min()) >= -1e-12 * TS, "leading eigenvector has negative entries", min=float(v0.min()))
    pi = R.stationary(Td)
    if left:
        require(np.max(np.abs(v0 @ Td - v0)) <= tol, "leading left eigenvector is not stationary (v T != v)",
                resid=float(np.max(np.abs(v0 @ Td - v0))))
        require(np.max(np.abs(v0 - pi)) <= 10 * tol, "leading left eigenvector differs from the stationary distribution",
                maxdiff=float(np.max(np.abs(v0 - pi))))
    else:
        require(np.max(np.abs(v0 - 1.0 / n)) <= tol, "leading right eigenvector (sum 1) is not constant 1/n",
                got=v0.tolist())

    # the rest of the spectrum against LAPACK on the plain dense matrix (note: not transposed, other driver).
    # A forward comparison / the realness decision is only meaningful for well-conditioned eigenvalues:
    # kappa_k = 1 / |y_k^H x_k| (unit left/right vectors); near-defective eigenvalues move by eps**(1/m).
    kind = case.get("big", case.get("seeded", {})).get("kind", case["family"])
    symmetrizable = kind.startswith("rev")      # similar to a symmetric matrix: all eigenvalues well conditioned
    if symmetrizable:
        ref = np.linalg.eigvals(Td)
        kap = np.ones(n)
    else:
        import scipy.linalg
        ref, vl, vr = scipy.linalg.eig(Td, left=True, right=True)
        ov = np.abs(np.sum(vl.conj() * vr, axis=0)) / (np.linalg.norm(vl, axis=0) * np.linalg.norm(vr, axis=0))
        kap = 1.0 / np.maximum(ov, 1e-300)
    order = np.argsort(-ref.real, kind="stable")
    ref, kap = ref[order], kap[order]
    top = min(m + 1, n)
    illcond = bool(np.any(kap[:top] > 1e6))
    if not illcond:
        require(np.max(np.abs(vals - ref.real[:m])) <= 1e-7 * TS,
                "eigenvalues are not the largest real parts of the spectrum", got=vals.tolist(),
                want=ref.real[:m].tolist())
    n_checked = 0
    for k in range(m):
        sel = np.abs(ref.real - vals[k]) <= 1e-6
        near = ref[sel]
        if len(near) == 0 or np.any(near.imag != 0) or np.any(kap[sel] > 1e6):
            continue            # (real part of) a complex pair, or cannot be decided: eigen-equation not claimed
        v = vecs[:, k]
        nv = float(np.max(np.abs(v)))
        require(nv > 1e-12, "zero eigenvector returned", k=k)
        res = (v @ Td - vals[k] * v) if left else (Td @ v - vals[k] * v)
        require(float(np.max(np.abs(res))) <= (1e-7 if big else 1e-9) * TS * max(nv, 1e-300),
                "returned pair does not satisfy the eigen-equation", k=k, val=float(vals[k]),
                resid=float(np.max(np.abs(res))), vnorm=nv)
        n_checked += 1

    # eq_probs() is the same leading left eigenvector
    if left:
        q = eq_probs(T)
        require(np.asarray(q).shape == (n,) and np.max(np.abs(np.asarray(q) - pi)) <= 10 * tol,
                "eq_probs(T) is not the stationary distribution", maxdiff=float(np.max(np.abs(np.asarray(q) - pi))))

    has_cplx = bool(np.any(np.abs(ref.imag) > 1e-9))
    has_neg = bool(np.any((ref.real < -1e-9) & (np.abs(ref.imag) <= 1e-9)))
    cplx_ret = bool(np.any(np.abs(ref.imag[:m]) > 1e-9))
    cl = ["family=" + case["family"], "fmt=" + case["fmt"], "left=%s" % left,
          "n_eigs=%s" % ("None" if case["n_eigs"] is None else "2" if case["n_eigs"] == 2 else
                         ">n" if case["n_eigs"] > n else "k"),
          "complex_pairs=%s" % has_cplx, "negative_real=%s" % has_neg, "complex_among_returned=%s" % cplx_ret,
          "illconditioned_ref=%s" % illcond, "n=%s" % ("1" if n == 1 else "2" if n == 2 else "3-9" if n < 10 else
                                                        "10-40" if n <= 40 else ">=1000"),
          "branch=%s" % ("arpack" if (n >= 1000 and case["fmt"] != "ndarray") else "lapack"),
          "eigeq_checked=%s" % ("0" if n_checked == 0 else "1" if n_checked == 1 else ">=2")]
    return Info(n >= 3 and (has_cplx or has_neg), cl)


# --------------------------------------------------------------------------
# clause 6: propagation


@st.composite
def propagate_case(draw):
    n_steps = draw(st.sampled_from([1, 2, 3, 4, 5, 7, 12]))
    fam, W = draw(weights(max_n=8))
    n = len(W)
    p0 = draw(st.lists(st.integers(0, 9), min_size=n, max_size=n))
    if sum(p0) == 0:
        p0[draw(st.integers(0, n - 1))] = 1
    obs = None
    if draw(st.booleans()):
        obs = [draw(st.integers(-50, 50)) / 4.0 for _ in range(n)]
    return {"family": fam, "W": W, "p0": p0, "n_steps": n_steps,
            "fmt": draw(st.sampled_from(FORMATS)), "observable": obs,
            # initial probabilities may arrive as a float64 vector, an integer one-hot vector or float32
            # ... or as un-normalised occupation numbers (head counts): propagation is linear
            "p0_kind": draw(st.sampled_from(["float64", "float64", "int_onehot", "float32", "counts", "counts"])),
            "hot": draw(st.integers(0, n - 1))}


def run_propagate(case):
    Td = R.T_from_weights(case["W"])
    n = len(Td)
    T = as_format(Td, case["fmt"])
    p0 = np.array(case["p0"], dtype=float)
    p0 /= p0.sum()
    kind = case.get("p0_kind", "float64")
    TSK = 1.0
    if kind == "int_onehot":
        p0 = np.zeros(n, dtype=np.int64)
        p0[case["hot"]] = 1
    elif kind == "float32":
        p0 = p0.astype(np.float32)
        TSK = 1e6            # single-precision input: rows are compared to 1e-6
    elif kind == "counts":
        p0 = np.array(case["p0"], dtype=float) * 3.0
    p0c = p0.copy()
    ns = case["n_steps"]
    obs = None if case["observable"] is None else np.array(case["observable"], dtype=float)

    out = synthetic_ensemble(T, p0, ns, observable_per_state=obs)
    require(isinstance(out, tuple) and len(out) == 2, "expected (final populations, time series)")
    pf, series = np.asarray(out[0]), np.asarray(out[1])
    require(np.array_equal(p0, p0c), "init_pops was modified")
    require(np.array_equal(dense(T), Td), "T was modified")

    rows = [p0c.astype(np.float64)]
    p = p0c.astype(np.float64)
    for _ in range(ns - 1):
        q = np.zeros(n)
        for j in range(n):                       # literal n multiplications p <- p T
            q[j] = float(np.dot(p, Td[:, j]))
        p = q
        rows.append(p)
    rows = np.array(rows)
    want = rows if obs is None else rows @ obs
    require(series.shape == want.shape, "time series has the wrong shape", got=series.shape, want=want.shape)
    require(np.max(np.abs(series - want)) <= 1e-12 * TS * TSK * max(1.0, float(np.max(np.abs(want)))),
            "ensemble at step k is not p0 T^k", maxdiff=float(np.max(np.abs(series - want))))
    require(pf.shape == (n,) and np.max(np.abs(pf - rows[-1])) <= 1e-12 * TS * TSK * max(1.0, float(np.max(np.abs(rows[-1])))),
            "final populations are not p0 T^(n_steps-1)",
            got=pf.tolist(), want=rows[-1].tolist())
    tot = float(p0c.astype(np.float64).sum())
    require(abs(pf.sum() - tot) <= 1e-12 * TS * TSK * max(1.0, tot), "the ensemble's total weight is not conserved",
            got=float(pf.sum()), want=tot)
    cl = ["p0_kind=" + kind, "family=" + case["family"], "fmt=" + case["fmt"], "observable=%s" % (obs is not None),
          "n_steps=%s" % ("1" if ns == 1 else "2" if ns == 2 else ">=3"), "n=%s" % ("1" if n == 1 else ">=2")]
    return Info(n >= 2 and ns >= 3, cl)


# --------------------------------------------------------------------------

# --------------------------------------------------------------------------
# clause 1b: the estimator and the function pipeline treat missing frames (-1 anywhere, not only trailing) alike

@st.composite
def holes_case(draw):
    c = draw(assign_case())
    c["how"] = "padded"
    c["trim"] = True
    c["method"] = draw(st.sampled_from(["name:normalize", "fn:normalize", "name:transpose"]))
    holes = []
    for t in c["trajs"]:
        k = draw(st.integers(0, 3))
        holes.append(sorted(set(draw(st.lists(st.integers(0, len(t)), min_size=k, max_size=k)))))
    c["holes"] = holes
    return c


def run_pipeline_holes(case):
    """Pure differential clause (the statement: same counts / T / populations / mapping as composing the functions with
    the same settings): -1 entries in the interior or at the start of a trajectory are dropped by the counting function,
    so the estimator must see exactly the same frames."""
    lag = case["lag"]
    trajs = []
    for t, hs in zip(case["trajs"], case["holes"]):
        t = list(t)
        for h in sorted(hs, reverse=True):
            t.insert(h, -1)
        trajs.append(t)
    m_len = max(len(t) for t in trajs)
    a = -np.ones((len(trajs), m_len), dtype=np.int64)
    for i, t in enumerate(trajs):
        a[i, :len(t)] = t
    fn = method_fn(case["method"])
    with np.errstate(all="ignore"):
        m = fit_msm(case, a, lag)
        C = assigns_to_counts(a, lag, max_n_states=case["max_n_states"], sliding_window=case["sliding"])
        mp, C = trim_disconnected(C)
        Cp, Tp, pip = fn(C)
    require(mapping_dict(m.mapping_) == mapping_dict(mp), "state mapping differs from the function pipeline (holes)",
            got=mapping_dict(m.mapping_), want=mapping_dict(mp))
    Cm, Tm, pim = dense(m.tcounts_), dense(m.tprobs_), np.asarray(m.eq_probs_)
    require(Cm.shape == dense(Cp).shape and np.array_equal(Cm, dense(Cp)),
            "MSM counts differ from the function pipeline when trajectories contain -1 before assigned frames",
            got=Cm.tolist(), want=dense(Cp).tolist(), assigns=a.tolist(), lag=lag, sliding=case["sliding"],
            max_n_states=case["max_n_states"])
    same = lambda x, y: np.shape(x) == np.shape(y) and bool(np.allclose(x, y, rtol=1e-12, atol=1e-12, equal_nan=True))
    require(same(Tm, dense(Tp)), "MSM transition probabilities differ from the function pipeline (holes)")
    require(same(pim, np.asarray(pip)), "MSM populations differ from the function pipeline (holes)")
    n_holes = sum(len(h) for h in case["holes"])
    interior = any(0 < h for t, hs in zip(case["trajs"], case["holes"]) for h in hs)
    return Info(n_holes >= 1 and (not case["sliding"] or case["max_n_states"] is not None),
                ["holes=%d" % min(n_holes, 3), "interior_hole=%s" % interior, "sliding=%s" % case["sliding"],
                 "mns=%s" % (case["max_n_states"] is not None), "lag=%d" % min(lag, 3)])


# --------------------------------------------------------------------------
# clause 1c: one estimator object fitted twice (refit) equals the pipeline on the data of the LAST fit

@st.composite
def refit_case(draw):
    a = draw(assign_case(max_lag=1, methods=("name:normalize", "fn:normalize", "name:transpose"), with_mns=False))
    b = draw(assign_case(max_lag=1, methods=("name:normalize",), with_mns=False))
    a["second_trajs"] = b["trajs"]
    a["second_how"] = b["how"]
    a["order"] = draw(st.sampled_from(["ab", "ba"]))
    a["max_n_states"] = None
    # with trim off every state must have outgoing counts in BOTH data sets; each generator guarantees that only when
    # it was drawn with trim off, so the refit runs untrimmed only if both sets were generated that way
    a["trim"] = bool(a["trim"] or b["trim"])
    return a


def run_refit(case):
    lag = case["lag"]
    sets = [(case["trajs"], case["how"]), (case["second_trajs"], case["second_how"])]
    if case["order"] == "ba":
        sets.reverse()
    fn = method_fn(case["method"])
    m = MSM(lag_time=lag, method=METHODS[case["method"]], trim=case["trim"], sliding_window=case["sliding"])
    with np.errstate(all="ignore"):
        for trajs, how in sets:
            a = make_assigns(trajs, how)
            m.fit(a)
        C = assigns_to_counts(a, lag, sliding_window=case["sliding"])
        if case["trim"]:
            mp, C = trim_disconnected(C)
            want_map = mapping_dict(mp)
        else:
            want_map = {i: i for i in range(C.shape[0])}
        Cp, Tp, pip = fn(C)
    Cm, Tm, pim = dense(m.tcounts_), dense(m.tprobs_), np.asarray(m.eq_probs_)
    require(Cm.shape == dense(Cp).shape and np.array_equal(Cm, dense(Cp)),
            "a re-fitted estimator does not report the counts of the function pipeline on the data of its last fit",
            got_shape=Cm.shape, want_shape=dense(Cp).shape, got=Cm.tolist(), want=dense(Cp).tolist())
    require(mapping_dict(m.mapping_) == want_map, "a re-fitted estimator reports a different state mapping",
            got=mapping_dict(m.mapping_), want=want_map)
    same = lambda x, y: np.shape(x) == np.shape(y) and bool(np.allclose(x, y, rtol=1e-12, atol=1e-12, equal_nan=True))
    require(same(Tm, dense(Tp)) and same(pim, np.asarray(pip)), "a re-fitted estimator differs from the function pipeline")
    n1 = max(max(t) for t in sets[0][0]) + 1
    n2 = max(max(t) for t in sets[1][0]) + 1
    return Info(n1 != n2, ["refit_states=%s" % ("fewer" if n2 < n1 else "more" if n2 > n1 else "same"),
                           "trim=%s" % case["trim"], "sliding=%s" % case["sliding"]])


# --------------------------------------------------------------------------
# a thousand states (seeded): estimator == function pipeline, with one-way bridges / source and sink states

@st.composite
def thousand_case(draw):
    return {"n": draw(st.sampled_from([999, 1000, 1001, 1200])), "seed": draw(st.integers(0, 2 ** 31 - 1)),
            "extras": draw(st.sampled_from(["none", "source", "sink", "one_way_bridge", "source_and_sink"])),
            "method": draw(st.sampled_from(["name:normalize", "name:transpose"])), "lag": draw(st.sampled_from([1, 1, 2])),
            "how": draw(st.sampled_from(["ragged", "padded"])), "sliding": draw(st.booleans())}


def run_thousand(case):
    rng = np.random.RandomState(case["seed"])            # seed drawn by Hypothesis
    n, lag = case["n"], case["lag"]
    ex = case["extras"]
    n_extra = {"none": 0, "source": 1, "sink": 1, "one_way_bridge": 2, "source_and_sink": 2}[ex]
    core = n - n_extra                  # every state id below n is visited: no isolated (unvisited) state hides the extras
    # a long walk that visits every core state many times (strongly connected core) ...
    walk = np.concatenate([rng.permutation(core) for _ in range(4)] + [np.arange(core), np.arange(core)[::-1]])
    if lag == 2:
        walk = np.repeat(walk, 2)
    trajs = [walk.tolist()]
    rep = lag
    nxt = core
    if ex in ("source", "source_and_sink"):
        trajs.append([nxt] * rep + [5] * rep + [6] * rep)             # a state that is only ever left
        nxt += 1
    if ex in ("sink", "source_and_sink"):
        trajs.append([7] * rep + [8] * rep + [nxt] * rep)             # a state that is only ever entered
        nxt += 1
    if ex == "one_way_bridge":
        trajs.append([9] * rep + [nxt] * rep + [nxt + 1] * rep + [nxt] * rep + [nxt + 1] * rep)   # core -> pair, never back
    a = make_assigns(trajs, case["how"])
    fn = method_fn(case["method"])
    m = MSM(lag_time=lag, method=METHODS[case["method"]], trim=True, sliding_window=case["sliding"], max_n_states=n)
    with np.errstate(all="ignore"):
        m.fit(a)
        C = assigns_to_counts(a, lag, max_n_states=n, sliding_window=case["sliding"])
        mp, Ct = trim_disconnected(C)
        Cp, Tp, pip = fn(Ct)
    want_map = mapping_dict(mp)
    require(mapping_dict(m.mapping_) == want_map, "state mapping of a %d-state model differs from trim_disconnected" % n,
            n_kept=len(mapping_dict(m.mapping_)), n_want=len(want_map), extras=ex)
    Cm = dense(m.tcounts_)
    require(Cm.shape == dense(Cp).shape and np.array_equal(Cm, dense(Cp)), "MSM counts differ from the function pipeline (%d states)" % n)
    require(close(dense(m.tprobs_), dense(Tp), TOL_SAME), "MSM transition probabilities differ from the function pipeline (%d states)" % n)
    require(close(np.asarray(m.eq_probs_), np.asarray(pip), 1e-9), "MSM populations differ from the function pipeline (%d states)" % n)
    # independent anchor: the kept set is the strongly connected core
    kept = sorted(want_map.values())
    require(kept == list(range(core)), "trimming did not keep exactly the strongly connected core", n_kept=len(kept), core=core)
    return Info(n >= 1000 and ex != "none", ["thousand_n=%d" % n, "thousand_extras=" + ex, "thousand_method=" + case["method"]],
                key=[case[k_] for k_ in sorted(case)])


# --------------------------------------------------------------------------
# stateful clause: the life of ONE estimator object (Hypothesis RuleBasedStateMachine, recorded as a JSON history)
#
# operations: construct, reconfigure (set_params / public attributes), fit(data k), refused fit (assignments beyond the
# declared state count), save + load (the loaded object takes the original's place), fit again ...
# invariant after every step: if the object has been fitted successfully, its counts, transition probabilities,
# populations and mapping are those of the function pipeline run with the configuration it had AT THAT FIT on the data
# OF THAT FIT; its configuration attributes are the ones last set.

from hypothesis.stateful import RuleBasedStateMachine, rule, initialize, precondition    # noqa: E402

LIFE_METHODS = ["name:normalize", "name:transpose", "fn:normalize"]


def life_data(seed, n_states, lag):
    """Strongly connected at every lag <= 2 by construction: each state is held for two frames while a cycle is walked
    forwards and backwards, followed by seeded random steps."""
    rng = np.random.RandomState(seed)
    cyc = list(range(n_states)) + list(range(n_states - 2, -1, -1)) if n_states > 1 else [0, 0]
    base = [s_ for s_ in cyc for _ in range(2)] * 2
    trajs = [base + rng.randint(0, n_states, size=rng.randint(0, 12)).tolist()]
    for _ in range(rng.randint(0, 3)):
        t = rng.randint(0, n_states, size=rng.randint(1, 10)).tolist()
        trajs.append(t)
    return trajs


class LifeCore:
    def __init__(self):
        self.m = None
        self.cfg = None
        self.fitted = None       # (cfg at fit, trajs, how)

    def pipeline(self, cfg, trajs, how):
        a = make_assigns(trajs, how)
        fn = method_fn(cfg["method"])
        with np.errstate(all="ignore"):
            C = assigns_to_counts(a, cfg["lag"], max_n_states=cfg["mns"], sliding_window=cfg["sliding"])
            if cfg["trim"]:
                mp, C = trim_disconnected(C)
                want_map = mapping_dict(mp)
            else:
                want_map = {i: i for i in range(C.shape[0])}
            Cp, Tp, pip = fn(C)
        return dense(Cp), dense(Tp), np.asarray(pip), want_map

    def check(self, where):
        m = self.m
        if m is None:
            return
        cfg = self.cfg
        require(m.lag_time == cfg["lag"] and m.sliding_window == cfg["sliding"] and m.max_n_states == cfg["mns"]
                and m.trim == cfg["trim"], "the estimator's configuration attributes are not the ones last set",
                after=where, got=dict(lag=m.lag_time, sliding=m.sliding_window, mns=m.max_n_states, trim=m.trim), want=cfg)
        if self.fitted is None:
            return
        fcfg, trajs, how = self.fitted
        Cw, Tw, pw, mapw = self.pipeline(fcfg, trajs, how)
        require(mapping_dict(m.mapping_) == mapw, "state mapping differs from the function pipeline of the last fit",
                after=where, got=mapping_dict(m.mapping_), want=mapw)
        Cm = dense(m.tcounts_)
        require(Cm.shape == Cw.shape and np.array_equal(Cm, Cw), "counts differ from the function pipeline of the last fit",
                after=where, got=Cm.tolist(), want=Cw.tolist(), cfg=fcfg)
        require(close(dense(m.tprobs_), Tw, TOL_SAME), "transition probabilities differ from the function pipeline of the "
                "last fit", after=where, cfg=fcfg)
        require(close(np.atleast_1d(np.asarray(m.eq_probs_)), np.atleast_1d(pw), TOL_SAME),
                "populations differ from the function pipeline of the last fit", after=where, cfg=fcfg)

    def step(self, op):
        k = op["op"]
        if k == "construct":
            c = op["cfg"]
            self.m = MSM(lag_time=c["lag"], method=METHODS[c["method"]], trim=c["trim"], sliding_window=c["sliding"],
                         max_n_states=c["mns"])
            self.cfg = dict(c)
            self.fitted = None
        elif k == "reconfigure":
            new = dict(self.cfg)
            new.update(op["changes"])
            ch = {"lag_time": new["lag"], "sliding_window": new["sliding"], "max_n_states": new["mns"], "trim": new["trim"]}
            ch = {a_: v for a_, v in ch.items() if {"lag_time": "lag", "sliding_window": "sliding", "max_n_states": "mns",
                                                     "trim": "trim"}[a_] in op["changes"]}
            if op["how"] == "set_params":
                self.m.set_params(**ch)
            else:
                for a_, v in ch.items():
                    setattr(self.m, a_, v)
            self.cfg = new
        elif k == "fit":
            trajs = life_data(op["seed"], op["n_states"], self.cfg["lag"])
            if self.cfg["mns"] is not None and op["n_states"] > self.cfg["mns"]:
                raise Skip("harness: data beyond the declared state count belongs to refused_fit")
            a = make_assigns(trajs, op["how"])
            with np.errstate(all="ignore"):
                self.m.fit(a)
            self.fitted = (dict(self.cfg), trajs, op["how"])
        elif k == "refused_fit":
            # assignments that visit a state beyond the declared count: the counting function refuses them; whatever the
            # estimator does, it must remain the model of its last successful fit with its configuration untouched
            bad = [[int(self.cfg["mns"])] * 8]         # every counted pair (any lag, sliding or not) involves the state
            try:
                with np.errstate(all="ignore"):
                    self.m.fit(make_assigns(bad, "padded"))
            except Exception:
                pass
            else:
                raise Violation("fit() accepted assignments that visit state %d although max_n_states=%d"
                                % (self.cfg["mns"], self.cfg["mns"]))
        elif k == "save_load":
            d = tempfile.mkdtemp(prefix="c16life-")
            try:
                path = os.path.join(d, "model")
                self.m.save(path)
                m2 = MSM.load(path)
            finally:
                shutil.rmtree(d, ignore_errors=True)
            require(bool(m2 == self.m) and bool(self.m == m2), "loaded model != saved model according to MSM.__eq__")
            self.m = m2                   # life goes on with the loaded object
            # the stored configuration is documented as (lag_time, sliding_window, trim, method): a declared state count
            # is not part of it, the loaded object has none
            self.cfg = dict(self.cfg, mns=None)
        else:
            raise ValueError(k)
        self.check(k)

    @staticmethod
    def replay(history):
        c = LifeCore()
        for op in history:
            c.step(op)
        return c


def life_info(history):
    kinds = [h["op"] for h in history]
    fits = kinds.count("fit")
    cl = ["life_op=" + k for k in sorted(set(kinds))] + ["life_fits=%d" % min(fits, 3), "life_steps=%d+" % (len(kinds) // 5 * 5)]
    # non-trivial: a fit that FOLLOWS a reconfiguration or a save/load or a refused fit of an already fitted object
    nt = False
    seen_fit = False
    pending = False
    for k in kinds:
        if k == "fit":
            nt = nt or (seen_fit and pending)
            seen_fit, pending = True, False
        elif k in ("reconfigure", "save_load", "refused_fit"):
            pending = True
    return Info(nt, cl)


def run_life(case):
    LifeCore.replay(case["history"])
    return life_info(case["history"])


def make_life_machine(hooks):
    cfg_st = st.fixed_dictionaries({"lag": st.integers(1, 2), "method": st.sampled_from(LIFE_METHODS), "trim": st.just(True),
                                    "sliding": st.booleans(), "mns": st.sampled_from([None, None, 4, 6])})

    class MSMLife(RuleBasedStateMachine):
        def __init__(self):
            super().__init__()
            self.core = LifeCore()
            self.history = []
            self.dead = False

        def do(self, op):
            if self.dead or hooks.over_budget():
                self.dead = True
                return
            self.history.append(op)
            try:
                self.core.step(op)
            except Skip:
                self.history.pop()
            except Exception as exc:
                self.dead = True
                if hooks.failed(list(self.history), exc):
                    return
                raise

        @initialize(cfg=cfg_st)
        def construct(self, cfg):
            self.do({"op": "construct", "cfg": cfg})

        @precondition(lambda self: not self.dead and self.core.m is not None)
        @rule(data=st.data())
        def reconfigure(self, data):
            keys = data.draw(st.lists(st.sampled_from(["lag", "sliding", "mns"]), min_size=1, max_size=3, unique=True))
            ch = {}
            for k_ in keys:
                ch[k_] = data.draw({"lag": st.integers(1, 2), "sliding": st.booleans(), "mns": st.sampled_from([None, 4, 6])}[k_])
            self.do({"op": "reconfigure", "changes": ch, "how": data.draw(st.sampled_from(["set_params", "setattr"]))})

        @precondition(lambda self: not self.dead and self.core.m is not None)
        @rule(data=st.data())
        def fit(self, data):
            mns = self.core.cfg["mns"]
            n_states = data.draw(st.integers(1, mns if mns is not None else 6))
            self.do({"op": "fit", "seed": data.draw(st.integers(0, 10 ** 6)), "n_states": n_states,
                     "how": data.draw(st.sampled_from(["ragged", "padded"]))})

        @precondition(lambda self: not self.dead and self.core.m is not None and self.core.cfg["mns"] is not None)
        @rule()
        def refused_fit(self):
            self.do({"op": "refused_fit"})

        @precondition(lambda self: not self.dead and self.core.m is not None and self.core.fitted is not None)
        @rule()
        def save_load(self):
            self.do({"op": "save_load"})

        def teardown(self):
            if not self.dead and self.history:
                hooks.done(list(self.history), life_info(self.history))

    return MSMLife


CLAUSES = [
    Clause("pipeline", assign_case(), run_pipeline, quick=640, thorough=8000, exhaustive=exhaustive_configs,
           doc="MSM(**cfg).fit(a) == builder(trim?(assigns_to_counts(a, lag, sliding, max_n_states)))"),
    Clause("pipeline_missing_frames", holes_case(), run_pipeline_holes, quick=320, thorough=4000,
           doc="MSM.fit == function pipeline also when -1 entries precede assigned frames"),
    Clause("pipeline_thousand_states", thousand_case(), run_thousand, quick=12, thorough=120,
           doc="999..1200 states, core + source / sink / one-way-bridge states, trim=True: estimator == pipeline == core"),
    Clause("estimator_life", None, run_life, quick=200, thorough=4000, stateful=make_life_machine, steps=12,
           doc="stateful: construct / reconfigure / fit / refused fit / save+load histories of one estimator object; after every "
               "step it is the function pipeline of its last successful fit"),
    Clause("refit", refit_case(), run_refit, quick=300, thorough=4000,
           doc="fitting the same estimator object again equals the pipeline on the new data"),
    Clause("roundtrip", assign_case(), run_roundtrip, quick=320, thorough=4000,
           doc="MSM.load(m.save(dir)) equals m (config, mapping, counts, T, populations, ==)"),
    Clause("pipeline_large", assign_case(max_core=12, max_lag=8), run_pipeline, quick=0, thorough=2400,
           doc="same as pipeline, up to 12 core + 3 non-core states, lag up to 8 (thorough only)"),
    Clause("roundtrip_large", assign_case(max_core=12, max_lag=8), run_roundtrip, quick=0, thorough=1200,
           doc="same as roundtrip, larger models (thorough only)"),
    Clause("timescales", assign_case(multi_lag=True, methods=FN_METHODS, min_core=2, with_mns=False),
           run_timescales, quick=400, thorough=4000,
           doc="implied_timescales == -lag / ln(eigenvalue_k)"),
    Clause("spectrum", spectral_case(), run_spectrum, quick=800, thorough=8000,
           doc="eigenspectrum: real, descending, leading 1, stationary left vector, eigen-equation"),
    Clause("spectrum_medium", spectral_case(seeded=True), run_spectrum, quick=80, thorough=1600,
           doc="same, 10..40 states from a seed"),
    Clause("spectrum_arpack", big_case(), run_spectrum, quick=12, thorough=160,
           doc="same, >= 1000-state sparse chains (ARPACK branch)"),
    Clause("propagate", propagate_case(), run_propagate, quick=320, thorough=4000,
           doc="synthetic_ensemble(T, p0, n) rows == p0 T^k"),
]


# --------------------------------------------------------------------------
# matchers for the findings of this property (used only if they are recorded in known_findings.json instead of
# being repaired; each is a predicate on the case + the exception, as narrow as the defect allows)


def _m_sliding_dropped(case, exc):
    """MSM.__init__ stores sliding_window=True whatever is passed (proposed_fixes/C16-1.diff). Matches only if
    the case asked for sliding_window=False, the estimator reports True, and its counts are exactly those of the
    function pipeline run with sliding_window=True (so any other disagreement is still reported)."""
    if case.get("sliding") is not False or "lag" not in case or type(exc).__name__ != "Violation":
        return False
    msg = str(exc)
    if not ("differ from the function pipeline" in msg or "constructor arguments" in msg or "config changed" in msg):
        return False
    a = make_assigns(case["trajs"], case["how"])
    m = fit_msm(case, a, case["lag"])
    if m.sliding_window is not True:
        return False
    C = assigns_to_counts(a, case["lag"], max_n_states=case["max_n_states"], sliding_window=True)
    if case["trim"]:
        _, C = trim_disconnected(C)
    Cp, _, _ = method_fn(case["method"])(C)
    return dense(Cp).shape == dense(m.tcounts_).shape and bool(np.array_equal(dense(Cp), dense(m.tcounts_)))


def _m_mle_sparse(case, exc):
    """builders.mle cannot take the sparse counts MSM.fit hands it / exact-equality asserts (C04-1, C12-1)."""
    return (str(case.get("method", "")).endswith(":mle")
            and isinstance(exc, (ValueError, TypeError, AssertionError)) and type(exc).__name__ != "Violation")


def _m_eq_dense(case, exc):
    """MSM.__eq__ uses .nnz on the counts comparison: AttributeError when the builder returned dense arrays
    (proposed_fixes/C16-2.diff)."""
    return case.get("method") == "fn:prior" and isinstance(exc, AttributeError) and "nnz" in str(exc)


MATCHERS = {"sliding_window_dropped": _m_sliding_dropped, "mle_sparse_input": _m_mle_sparse,
            "eq_dense_counts": _m_eq_dense}
