"""C17 - pathways are real, bottleneck-optimal and never over-explain the flux.

Code under test: enspara.tpt.top_path / enspara.tpt.paths (enspara/tpt/path.py).

Oracles (all written here, none of them shares code with the library):
  * widest-path value by threshold reachability (largest w such that a sink is reachable from a source using only
    edges >= w) and, on graphs that are small enough, by exhaustive DFS enumeration of all simple paths;
  * a tie-tolerant replay of the residual graph: after every returned path the reference removes it from every
    candidate residual matrix (for 'bottleneck' every tied minimum edge is a separate candidate), the next path
    has to be real / widest in at least one candidate.
"""
import itertools

import numpy as np
from hypothesis import strategies as st

from vf.harness import Clause, Info, require, Violation
from vf import harness as _harness
# every case here is a graph of <= 12 nodes (milliseconds): a search that is still running after two minutes never ends
_harness.CASE_TIMEOUT_S = min(_harness.CASE_TIMEOUT_S, 120.0) if _harness.CASE_TIMEOUT_S > 0 else 120.0

from enspara import tpt

PROPERTY = "C17"
LEVEL = "exploration"
RULE = ("Hypothesis draws a net-flux matrix on 3..9 nodes of one of three kinds: 'conserved' (1..8 random "
        "source->sink paths superposed on a randomly labelled DAG, so interior nodes are balanced, sources have no "
        "inflow and sinks no outflow), 'digraph' (arbitrary weighted digraph with drawn density, cycles, optional "
        "self loops, edges into sources / out of sinks) and 'perturbed' (a conserved flow plus 1..3 arbitrary extra "
        "edges); weights are small integers (many ties), dyadic rationals or general floats; disjoint source and "
        "sink sets of size 1..3; dtype float64/float32/int64; layout C/F/strided view; sources and sinks as "
        "list/ndarray/tuple; remove_path in {subtract, bottleneck} (and an in-place callable for the "
        "caller's-matrix clause); num_paths in {default, 1, 2, 3, 5, 10}; flux_cutoff in {default, 1.0, 0.9, 0.5, "
        "0.25, drawn}. A case is non-trivial when the graph has >= 3 distinct simple source->sink paths and no "
        "widest path is a fewest-hops path; distinct = distinct canonical JSON of the case. Both tiers also "
        "enumerate every 0/1/2-weighted digraph on 3 nodes; thorough enumerates every 0/1/2-weighted digraph on 4 "
        "nodes (3^12 = 531441, source 0, sink 3) for top_path, for paths() with both schemes, and for the "
        "sum-bound clause.")
ASSUMPTIONS = [
    "net_flux is a dense square numpy array with non-negative finite entries (documented type np.ndarray)",
    "sources and sinks are non-empty, duplicate-free and disjoint",
    "num_paths >= 1 (num_paths=0 still returns one path: the count is tested after the first path is stored; "
    "a request for zero paths is outside every real caller's use and is not asserted)",
    "0 < flux_cutoff <= 1",
    "'conserved' means: positive-edge graph acyclic, zero diagonal, no flux into sources, none out of sinks, "
    "inflow == outflow (1e-9 relative) at every other node",
    "float32 and int64 matrices only carry integer / dyadic weights, so the residual arithmetic is exact there",
    "path-count/flux-fraction stop decisions closer than 1e-9 (relative) to the cutoff are not judged",
]
SHARDS = {"quick": 4, "thorough": 16}

REL = 1e-9          # sums of fluxes (observed error on the unchanged tree: <= 4e-16 relative)
EQ = 1e-12          # a flux that must equal one matrix entry (observed: bit-identical)
DEFAULT_CUTOFF = 1 - 1e-10
SUM_MSG = "sum of path fluxes exceeds the total outflow of the sources"


def close(a, b, rel=EQ):
    return abs(a - b) <= rel * max(abs(a), abs(b)) + 1e-300


# --------------------------------------------------------------------------
# reference model

def reach(A, sources, sinks):
    """Is some sink reachable from some source over the boolean adjacency A (>= 1 edge)?"""
    n = A.shape[0]
    seen = [False] * n
    stack = []
    for s in sources:
        if not seen[s]:
            seen[s] = True
            stack.append(s)
    sinkset = set(sinks)
    while stack:
        u = stack.pop()
        for v in np.nonzero(A[u])[0].tolist():
            if not seen[v]:
                if v in sinkset:
                    return True
                seen[v] = True
                stack.append(v)
    return False


def widest_value(R, sources, sinks):
    """max over source->sink paths of the smallest edge (None if there is no path)."""
    pos = R > 0
    if not pos.any():
        return None
    vals = sorted(set(R[pos].tolist()))
    if not reach(pos, sources, sinks):
        return None
    lo, hi = 0, len(vals) - 1           # invariant: reachable with edges >= vals[lo]
    while lo < hi:
        mid = (lo + hi + 1) // 2
        if reach(R >= vals[mid], sources, sinks):
            lo = mid
        else:
            hi = mid - 1
    return vals[lo]


def min_hops(A, sources, sinks):
    n = A.shape[0]
    dist = [-1] * n
    frontier = []
    for s in sources:
        dist[s] = 0
        frontier.append(s)
    sinkset = set(sinks)
    d = 0
    while frontier:
        d += 1
        nxt = []
        for u in frontier:
            for v in np.nonzero(A[u])[0].tolist():
                if dist[v] < 0:
                    if v in sinkset:
                        return d
                    dist[v] = d
                    nxt.append(v)
        frontier = nxt
    return None


def enum_paths(R, sources, sinks, max_steps=4000):
    """All simple paths that start in `sources` and end in `sinks` (interior unrestricted).
    Returns (list of (path, bottleneck), complete?)."""
    n = R.shape[0]
    adj = [np.nonzero(R[u] > 0)[0].tolist() for u in range(n)]
    W = R.tolist()
    sinkset = set(sinks)
    out = []
    steps = [0]

    def dfs(path, on, bott):
        u = path[-1]
        for v in adj[u]:
            if on[v]:
                continue
            steps[0] += 1
            if steps[0] > max_steps:
                return False
            b = min(bott, W[u][v])
            path.append(v)
            on[v] = True
            if v in sinkset:
                out.append((list(path), b))
            ok = dfs(path, on, b)
            on[v] = False
            path.pop()
            if not ok:
                return False
        return True

    for s in sources:
        on = [False] * n
        on[s] = True
        if not dfs([s], on, float("inf")):
            return out, False
    return out, True


def path_problem(R, path, flux, sources, sinks):
    """None if `path` with reported `flux` is a real source->sink path of R, else a description."""
    if len(path) < 2:
        return "path has fewer than two nodes"
    n = R.shape[0]
    if any((not 0 <= v < n) for v in path):
        return "node index out of range"
    if len(set(path)) != len(path):
        return "path is not simple (a node repeats)"
    if path[0] not in sources:
        return "path does not start in the source set"
    if path[-1] not in sinks:
        return "path does not end in the sink set"
    w = [float(R[a, b]) for a, b in zip(path[:-1], path[1:])]
    if min(w) <= 0:
        return "path uses an edge without positive (residual) flux"
    if not (np.isfinite(flux) and close(float(flux), min(w))):
        return "reported flux %r is not the smallest edge flux %r" % (float(flux), min(w))
    return None


def remove_ref(R, path, scheme):
    """Reference path removal; returns every residual matrix the documented scheme allows."""
    edges = list(zip(path[:-1], path[1:]))
    w = [R[a, b] for a, b in edges]
    m = min(w)
    if scheme == "bottleneck":
        outs = []
        for (a, b), x in zip(edges, w):
            if x == m:
                R2 = R.copy()
                R2[a, b] = 0
                outs.append(R2)
        return outs
    R2 = R.copy()                       # 'subtract' (and the in-place callable, which subtracts too)
    for (a, b), x in zip(edges, w):
        R2[a, b] = 0 if x == m else x - m
    return [R2]


def replay(F, sources, sinks, scheme, lib_paths, lib_fluxes, cap=64):
    """Tie-tolerant replay. Returns (turns, final_candidates, truncated) where turns[i] is
    {'problem': None|str, 'widest': bool, 'best': value}."""
    cands = [F.copy()]
    turns = []
    truncated = False
    for p, f in zip(lib_paths, lib_fluxes):
        p = [int(x) for x in np.asarray(p).ravel().tolist()]
        nxt = {}
        problem = None
        valid_any = False
        widest_any = False
        best_seen = None
        for R in cands:
            why = path_problem(R, p, f, sources, sinks)
            if why is not None:
                problem = problem or why
                continue
            valid_any = True
            best = widest_value(R, sources, sinks)
            best_seen = best
            if best is not None and close(float(f), float(best)):
                widest_any = True
            for R2 in remove_ref(R, p, scheme):
                nxt[R2.tobytes()] = R2
        turns.append({"problem": None if valid_any else problem, "widest": widest_any, "best": best_seen})
        if not valid_any:
            return turns, [], truncated
        cands = list(nxt.values())
        if len(cands) > cap:
            truncated = True
            return turns, [], truncated
    return turns, cands, truncated


def _cyclic(A):
    A = np.array(A, dtype=bool)
    n = A.shape[0]
    indeg = A.sum(axis=0).astype(int)
    todo = [v for v in range(n) if indeg[v] == 0]
    seen = 0
    while todo:
        u = todo.pop()
        seen += 1
        for v in np.nonzero(A[u])[0]:
            indeg[v] -= 1
            if indeg[v] == 0:
                todo.append(int(v))
    return seen != n


def is_conserved(F, sources, sinks):
    F = np.asarray(F, dtype=float)
    n = F.shape[0]
    if np.diag(F).any():
        return False
    if F[:, sources].any() or F[sinks, :].any():
        return False
    inn, out = F.sum(axis=0), F.sum(axis=1)
    for v in range(n):
        if v in sources or v in sinks:
            continue
        if abs(inn[v] - out[v]) > REL * max(inn[v], out[v]):
            return False
    return not _cyclic(F > 0)


# --------------------------------------------------------------------------
# building real arguments from a case

def build_matrix(case):
    """-> (array handed to the library, base array that owns the memory)."""
    F = ref_matrix(case)
    lay = case.get("layout", "C")
    n = F.shape[0]
    if lay == "F":
        a = np.asfortranarray(F)
        return a, a
    if lay == "view":
        base = np.full((n + 2, 2 * n + 1), 7, dtype=F.dtype)
        v = base[1:n + 1, 1:2 * n + 1:2]
        v[...] = F
        return v, base
    a = np.ascontiguousarray(F)
    return a, a


def build_sets(case):
    c = case.get("container", "list")
    s, t = list(case["sources"]), list(case["sinks"])
    if c == "ndarray":
        return np.array(s), np.array(t)
    if c == "tuple":
        return tuple(s), tuple(t)
    return s, t


def inplace_subtract(net_flux, path):
    """A user-supplied removal scheme that works in place (allowed by the documented callable interface)."""
    net_flux[path[:-1], path[1:]] -= net_flux[path[:-1], path[1:]].min()
    return net_flux


def lib_scheme(case):
    s = case.get("scheme", "subtract")
    return inplace_subtract if s == "callable" else s


def call_paths(case):
    F, base = build_matrix(case)
    src, snk = build_sets(case)
    kw = {"remove_path": lib_scheme(case)}
    if case.get("num_paths") is not None:
        kw["num_paths"] = case["num_paths"]
    if case.get("cutoff") is not None:
        kw["flux_cutoff"] = case["cutoff"]
    if case.get("style") == "positional":
        # documented order: paths(sources, sinks, net_flux, remove_path, num_paths, flux_cutoff)
        pos = [kw["remove_path"]]
        if "num_paths" in kw or "flux_cutoff" in kw:
            pos.append(kw.get("num_paths", np.inf))
        if "flux_cutoff" in kw:
            pos.append(kw["flux_cutoff"])
        ps, fl = tpt.paths(src, snk, F, *pos)
    else:
        ps, fl = tpt.paths(src, snk, F, **kw)
    require(isinstance(fl, np.ndarray) and fl.ndim == 1, "fluxes is not a 1-d ndarray", got=type(fl))
    require(len(ps) == len(fl), "number of paths and number of fluxes differ", paths=len(ps), fluxes=len(fl))
    return ps, fl


def ref_matrix(case):
    F = np.array(case["F"], dtype=case["dtype"])
    e = case.get("scale_exp", 0)
    if e:
        # power-of-two rescaling (exact): net fluxes of real models are tiny numbers (populations x probabilities)
        F = (F * np.float64(2.0) ** e).astype(case["dtype"])
    return F


def outflow(case):
    return float(ref_matrix(case)[list(case["sources"]), :].sum())


def describe(case, ps=None, fl=None, extra=()):
    F = ref_matrix(case)
    src, snk = list(case["sources"]), list(case["sinks"])
    pos = F > 0
    best = widest_value(F, src, snk)
    cl = ["kind=" + case.get("kind", "?"), "dtype=" + case["dtype"], "layout=" + case.get("layout", "C"),
          "container=" + case.get("container", "list"), "n=%d" % F.shape[0],
          "multi_source=%s" % (len(src) > 1), "multi_sink=%s" % (len(snk) > 1),
          "has_path=%s" % (best is not None), "conserved=%s" % is_conserved(F, src, snk),
          "weights=" + case.get("wkind", "?"), "scale=2^%d" % case.get("scale_exp", 0), "self_loops=%s" % bool(np.diag(F).any()),
          "cyclic=%s" % _cyclic(pos)]
    if "scheme" in case:
        cl.append("scheme=" + case["scheme"])
        cl.append("style=" + case.get("style", "keyword"))
        cl.append("num_paths=%s" % ("default" if case.get("num_paths") is None else "given"))
        cl.append("cutoff=%s" % ("default" if case.get("cutoff") is None else
                                 "one" if case["cutoff"] == 1.0 else "fraction"))
    nt = False
    if best is not None:
        some, complete = enum_paths(F, src, snk, max_steps=400)
        npaths = len(some)
        h_all = min_hops(pos, src, snk)
        h_wide = min_hops(F >= best, src, snk)
        nwide = sum(1 for _, b in some if b == best)
        cl.append("widest_tied=%s" % (nwide > 1))
        cl.append("widest_is_fewest_hops=%s" % (h_wide == h_all))
        cl.append("simple_paths=%s" % ("1" if npaths == 1 else "2" if npaths == 2 else "3+"))
        nt = npaths >= 3 and h_wide > h_all
    if ps is not None:
        k = len(ps)
        cl.append("returned=%s" % ("0" if k == 0 else "1" if k == 1 else "2-3" if k <= 3 else "4+"))
    cl.extend(extra)
    return Info(nt, cl)


# --------------------------------------------------------------------------
# strategies

def _weight(draw, wkind):
    if wkind == "int_small":            # many exact ties along and across paths
        return draw(st.integers(1, 2))
    if wkind == "int":
        return draw(st.integers(1, 6))
    if wkind == "dyadic":
        return draw(st.integers(1, 64)) / 16.0
    return draw(st.floats(0.01, 10.0, allow_nan=False, allow_infinity=False))


def _conserved(draw, n, wkind):
    order = draw(st.permutations(list(range(n))))
    ns = draw(st.integers(1, min(3, n - 1)))
    nk = draw(st.integers(1, min(3, n - ns)))
    sources, sinks = order[:ns], order[n - nk:]
    interior = order[ns:n - nk]
    F = [[0] * n for _ in range(n)]
    k = draw(st.integers(1, 8))
    for _ in range(k):
        s = draw(st.sampled_from(sources))
        t = draw(st.sampled_from(sinks))
        mask = draw(st.integers(0, 2 ** len(interior) - 1)) if interior else 0
        mid = [v for i, v in enumerate(interior) if (mask >> i) & 1]
        w = _weight(draw, wkind)
        p = [s] + mid + [t]
        for a, b in zip(p[:-1], p[1:]):
            F[a][b] = F[a][b] + w
    return F, sorted(sources), sorted(sinks)


def _digraph(draw, n, wkind):
    dens = draw(st.sampled_from([2, 3, 5, 7, 10]))
    loops = draw(st.sampled_from([False, False, True]))
    F = [[0] * n for _ in range(n)]
    for i in range(n):
        for j in range(n):
            if i == j and not loops:
                continue
            if draw(st.integers(0, 9)) < dens:
                F[i][j] = _weight(draw, wkind)
    order = draw(st.permutations(list(range(n))))
    ns = draw(st.integers(1, min(3, n - 1)))
    nk = draw(st.integers(1, min(3, n - ns)))
    return F, sorted(order[:ns]), sorted(order[ns:ns + nk])


@st.composite
def graph_case(draw, kinds=("conserved", "digraph", "perturbed"), nmax=9, with_scheme=True,
               schemes=("subtract", "bottleneck"), wkinds=None):
    kind = draw(st.sampled_from(kinds))
    n = draw(st.sampled_from([k for k in (3, 4, 4, 5, 5, 6, 6, 7, 7, 8, 9) if k <= nmax]))
    # (one case in nine or so holds an integer-valued flux - counts of reactive trajectories - in a narrow integer type)
    dtype = draw(st.sampled_from(["float64", "float64", "float64", "float64", "float32", "float32", "int64", "int64",
                                  "int16", "uint8", "int32"]))
    narrow = dtype in ("int16", "uint8", "int32")
    wkind = "int" if dtype == "int64" or narrow else draw(st.sampled_from(
        ["int", "dyadic"] if dtype == "float32" else ["int", "dyadic", "float", "float"]))
    if wkinds:
        wkind = draw(st.sampled_from(list(wkinds)))
    if kind == "digraph":
        F, sources, sinks = _digraph(draw, n, wkind)
    else:
        F, sources, sinks = _conserved(draw, n, wkind)
        if kind == "perturbed":
            for _ in range(draw(st.integers(1, 3))):
                i = draw(st.integers(0, n - 1))
                j = draw(st.integers(0, n - 1))
                if i != j:
                    F[i][j] = F[i][j] + _weight(draw, wkind)
    if narrow:
        # every single flux fits the type comfortably; sums of a few of them (the outflow of the sources) do not
        top = {"uint8": 120, "int16": 30000, "int32": 2 ** 30}[dtype]
        m = max(max(row) for row in F)
        if m > 0 and all(float(v) == int(v) for row in F for v in row):
            k = max(1, top // int(m))
            F = [[int(v) * k for v in row] for row in F]
        else:
            dtype = "int64"
    scale_exp = 0 if dtype != "float64" else draw(st.sampled_from([0, 0, 0, -30, -20, -40, 20]))
    case = {"kind": kind, "wkind": wkind, "F": F, "sources": sources, "sinks": sinks, "dtype": dtype, "scale_exp": scale_exp,
            "layout": draw(st.sampled_from(["C", "C", "F", "view"])),
            "container": draw(st.sampled_from(["list", "ndarray", "tuple"]))}
    if with_scheme:
        case["scheme"] = draw(st.sampled_from(schemes))
        case["style"] = draw(st.sampled_from(["keyword", "keyword", "positional"]))
        case["num_paths"] = draw(st.sampled_from([None, None, None, 1, 2, 3, 5, 10]))
        c = draw(st.sampled_from([None, None, 1.0, 0.9, 0.5, 0.25, "draw"]))
        case["cutoff"] = draw(st.floats(0.05, 0.999)) if c == "draw" else c
    return case


@st.composite
def tied_bottleneck_case(draw):
    """Constructed: the widest pathway s->a[->m]->t has ALL its edges equal (every one of them is 'the' bottleneck);
    a second route enters a from elsewhere and leaves over the pathway's last edge, a third leaves a elsewhere after the
    pathway's first edge, a fourth, narrower one avoids the pathway altogether. Whichever single tied edge is taken
    out, one of the two medium routes survives and is the next widest."""
    mid = draw(st.booleans())                       # pathway of 2 or 3 edges
    U = draw(st.integers(1, 3)); V = U + draw(st.integers(1, 3)); W = V + draw(st.integers(1, 3))
    names = ["s", "a", "t", "b", "d", "c"] + (["m"] if mid else [])
    extra = draw(st.integers(0, 2))
    n = len(names) + extra
    perm = draw(st.permutations(list(range(n))))
    ix = {nm: perm[i] for i, nm in enumerate(names)}
    F = [[0] * n for _ in range(n)]

    def edge(x, y, w):
        F[ix[x]][ix[y]] = w
    if mid:
        edge("s", "a", W); edge("a", "m", W); edge("m", "t", W)
        edge("s", "b", V); edge("b", "m", V)            # joins before the pathway's last edge
    else:
        edge("s", "a", W); edge("a", "t", W)
        edge("s", "b", V); edge("b", "a", V)            # enters a, leaves over the pathway's last edge
    edge("a", "d", V); edge("d", "t", V)                # uses the pathway's first edge, leaves elsewhere
    edge("s", "c", U); edge("c", "t", U)                # independent, narrower
    for _ in range(draw(st.integers(0, 3))):            # a little noise no wider than the narrow route
        i = draw(st.integers(0, n - 1)); j = draw(st.integers(0, n - 1))
        if i != j and F[i][j] == 0 and i != ix["t"] and j != ix["s"]:
            F[i][j] = draw(st.integers(1, U))
    dtype = draw(st.sampled_from(["float64", "float64", "float32", "int64", "int32"]))
    return {"kind": "constructed_tied", "wkind": "int", "F": F, "sources": [ix["s"]], "sinks": [ix["t"]], "dtype": dtype,
            "scale_exp": 0 if dtype != "float64" else draw(st.sampled_from([0, 0, -30, 20])),
            "layout": draw(st.sampled_from(["C", "C", "F", "view"])),
            "container": draw(st.sampled_from(["list", "ndarray", "tuple"])),
            "scheme": draw(st.sampled_from(["bottleneck", "bottleneck", "bottleneck", "subtract"])),
            "style": draw(st.sampled_from(["keyword", "positional"])),
            "num_paths": draw(st.sampled_from([None, None, 2, 3, 5])), "cutoff": draw(st.sampled_from([1.0, 1.0, 0.9, None]))}


# --------------------------------------------------------------------------
# clause bodies

def run_top_valid(case):
    F, _ = build_matrix(case)
    src, snk = build_sets(case)
    R = ref_matrix(case)
    s, t = list(case["sources"]), list(case["sinks"])
    path, flux = tpt.top_path(src, snk, F)
    exists = reach(R > 0, s, t)
    if not exists:
        require(not (np.isfinite(flux) and flux > 0),
                "no source->sink path exists but a finite positive flux is reported", flux=float(flux),
                path=np.asarray(path).tolist())
        return describe(case)
    p = [int(x) for x in np.asarray(path).ravel().tolist()]
    why = path_problem(R, p, flux, s, t)
    require(why is None, "top_path result is not a real pathway: %s" % why, path=p, flux=float(flux),
            F=R.tolist(), sources=s, sinks=t)
    return describe(case)


def run_top_optimal(case):
    F, _ = build_matrix(case)
    src, snk = build_sets(case)
    R = ref_matrix(case)
    s, t = list(case["sources"]), list(case["sinks"])
    path, flux = tpt.top_path(src, snk, F)
    best = widest_value(R, s, t)
    extra = []
    if best is None:
        require(not (np.isfinite(flux) and flux > 0), "no path exists but a finite positive flux is reported",
                flux=float(flux))
        return describe(case)
    require(np.isfinite(flux) and close(float(flux), float(best)),
            "top path flux is not the largest bottleneck over all source->sink paths",
            got=float(flux), want=float(best), path=np.asarray(path).tolist(), F=R.tolist(), sources=s, sinks=t)
    allp, complete = enum_paths(R, s, t)
    extra.append("enumerated=%s" % complete)
    if complete:
        emax = max(b for _, b in allp)
        require(close(float(flux), float(emax)),
                "top path flux differs from the maximum bottleneck of the exhaustive path enumeration",
                got=float(flux), want=float(emax), n_paths=len(allp), F=R.tolist(), sources=s, sinks=t)
        p = [int(x) for x in np.asarray(path).ravel().tolist()]
        if path_problem(R, p, flux, s, t) is None:
            require(any(q == p for q, _ in allp), "returned path is not among the enumerated simple paths", path=p)
    return describe(case, extra=extra)


def _replay_case(case):
    ps, fl = call_paths(case)
    R = ref_matrix(case)
    s, t = list(case["sources"]), list(case["sinks"])
    scheme = "bottleneck" if case["scheme"] == "bottleneck" else "subtract"
    turns, final, trunc = replay(R, s, t, scheme, ps, fl)
    return ps, fl, R, s, t, turns, final, trunc


def run_paths_valid(case):
    ps, fl, R, s, t, turns, final, trunc = _replay_case(case)
    for i, tr in enumerate(turns):
        require(tr["problem"] is None,
                "path %d of paths() is not a real pathway of the residual graph of its turn: %s" % (i, tr["problem"]),
                path=np.asarray(ps[i]).tolist(), flux=float(fl[i]), scheme=case["scheme"], F=R.tolist(),
                sources=s, sinks=t, all_paths=[np.asarray(p).tolist() for p in ps], fluxes=fl.tolist())
    if len(ps) == 0:
        require(not reach(R > 0, s, t), "paths() returned nothing although a source->sink path exists",
                F=R.tolist(), sources=s, sinks=t)
    return describe(case, ps, fl, ["replay_truncated=%s" % trunc])


def run_paths_widest(case):
    ps, fl, R, s, t, turns, final, trunc = _replay_case(case)
    for i, tr in enumerate(turns):
        if tr["problem"] is not None:
            break                       # decided by paths_valid
        require(tr["widest"],
                "path %d of paths() does not have the largest bottleneck of the residual graph of its turn" % i,
                got=float(fl[i]), want=tr["best"], path=np.asarray(ps[i]).tolist(), scheme=case["scheme"],
                F=R.tolist(), sources=s, sinks=t, fluxes=fl.tolist())
    return describe(case, ps, fl, ["replay_truncated=%s" % trunc])


def run_monotone(case):
    ps, fl = call_paths(case)
    f = [float(x) for x in fl]
    for i in range(1, len(f)):
        require(f[i] <= f[i - 1] * (1 + EQ), "pathway fluxes increase", i=i, fluxes=f, scheme=case["scheme"],
                F=case["F"], sources=case["sources"], sinks=case["sinks"])
    require(all(np.isfinite(x) and x > 0 for x in f), "a reported pathway flux is not finite and positive", fluxes=f)
    return describe(case, ps, fl)


def run_sum_bound(case):
    ps, fl = call_paths(case)
    tot = outflow(case)
    f = [float(x) for x in fl]
    ssum = float(sum(f))
    cut = DEFAULT_CUTOFF if case.get("cutoff") is None else case["cutoff"]
    cons = is_conserved(ref_matrix(case), list(case["sources"]), list(case["sinks"]))
    only_last = (ssum - f[-1]) < (cut + REL) * tot if f else True
    R = ref_matrix(case)
    use = {}
    for p, x in zip(ps, f):
        q = [int(v) for v in np.asarray(p).ravel().tolist()]
        for e in zip(q[:-1], q[1:]):
            use[e] = use.get(e, 0.0) + x
    reused = any(u > float(R[e]) * (1 + REL) for e, u in use.items())
    require(ssum <= tot * (1 + REL), SUM_MSG, scheme=case["scheme"], conserved=cons,
            overshoot_by_last_path_only=only_last, edge_reused_beyond_capacity=reused, sum=ssum, outflow=tot, fluxes=f,
            paths=[np.asarray(p).tolist() for p in ps], F=case["F"], sources=case["sources"], sinks=case["sinks"])
    return describe(case, ps, fl, ["sum_equals_outflow=%s" % (len(f) > 0 and close(ssum, tot, REL))])


def run_reaches_fraction(case):
    ps, fl = call_paths(case)
    R = ref_matrix(case)
    s, t = list(case["sources"]), list(case["sinks"])
    if not is_conserved(R, s, t):
        return describe(case, ps, fl, ["judged=False"])
    tot = outflow(case)
    if not reach(R > 0, s, t):
        require(len(ps) == 0, "paths returned although no source->sink path exists", paths=len(ps))
        return describe(case, ps, fl, ["judged=False(no path)"])
    cut = DEFAULT_CUTOFF if case.get("cutoff") is None else case["cutoff"]
    N = float("inf") if case.get("num_paths") is None else case["num_paths"]
    if len(ps) >= N:
        return describe(case, ps, fl, ["judged=False(num_paths binding)"])
    ssum = float(sum(float(x) for x in fl))
    require(tot > 0 and ssum >= (cut - REL) * tot,
            "conserved flow, path count not limiting, but the explained flux stays below the requested fraction",
            sum=ssum, outflow=tot, cutoff=cut, scheme=case["scheme"], fluxes=fl.tolist(), F=case["F"],
            sources=s, sinks=t)
    return describe(case, ps, fl, ["judged=True"])


def run_stopping(case):
    ps, fl, R, s, t, turns, final, trunc = _replay_case(case)
    N = float("inf") if case.get("num_paths") is None else case["num_paths"]
    cut = DEFAULT_CUTOFF if case.get("cutoff") is None else case["cutoff"]
    k = len(ps)
    require(k <= N, "more paths returned than num_paths", returned=k, num_paths=N, scheme=case["scheme"],
            F=case["F"], sources=s, sinks=t)
    tot = outflow(case)
    f = [float(x) for x in fl]
    cum = np.cumsum(f) / tot if k else np.array([])
    for j in range(k - 1):
        # the library stops as soon as its running sum of flux/total reaches the cutoff; re-adding the same quotients
        # can differ by a few ulp only, so 1e-12 separates "continued past the cutoff" from round-off (the default
        # cutoff 1 - 1e-10 exists precisely to absorb sums like 0.9999999999999999)
        require(cum[j] < cut + 1e-12, "search continued although the requested flux fraction was already explained",
                after_paths=j + 1, explained=float(cum[j]), cutoff=cut, fluxes=f, scheme=case["scheme"],
                F=case["F"], sources=s, sinks=t)
    reason = "num_paths" if k >= N else "cutoff" if (k and cum[-1] >= cut - REL) else "exhausted"
    if reason == "exhausted" and not trunc and all(tr["problem"] is None for tr in turns):
        # fewer paths than requested and the fraction is not reached: only legitimate if nothing is left
        left = [c for c in final if not reach(c > 0, s, t)]
        require(len(left) > 0,
                "fewer paths than num_paths, requested fraction not reached, yet a source->sink path remains",
                returned=k, num_paths=N, explained=float(cum[-1]) if k else 0.0, cutoff=cut, scheme=case["scheme"],
                fluxes=f, F=case["F"], sources=s, sinks=t)
    return describe(case, ps, fl, ["stop=" + reason])


def _snapshot(base, src, snk):
    return (base.tobytes(), base.dtype.str, base.shape, base.strides,
            np.asarray(src).tobytes(), np.asarray(snk).tobytes(), repr(type(src)))


def run_unchanged(case):
    F, base = build_matrix(case)
    src, snk = build_sets(case)
    before = _snapshot(base, src, snk)
    fbefore = (F.shape, F.strides, F.dtype.str)
    tpt.top_path(src, snk, F)
    require(_snapshot(base, src, snk) == before and (F.shape, F.strides, F.dtype.str) == fbefore,
            "top_path changed the caller's flux matrix or source/sink arguments",
            before=np.array(case["F"]).tolist(), after=np.asarray(F).tolist())
    kw = {"remove_path": lib_scheme(case)}
    if case.get("num_paths") is not None:
        kw["num_paths"] = case["num_paths"]
    if case.get("cutoff") is not None:
        kw["flux_cutoff"] = case["cutoff"]
    ps, fl = tpt.paths(src, snk, F, **kw)
    require(_snapshot(base, src, snk) == before and (F.shape, F.strides, F.dtype.str) == fbefore,
            "paths() changed the caller's flux matrix or source/sink arguments", scheme=case["scheme"],
            before=np.array(case["F"]).tolist(), after=np.asarray(F).tolist())
    return describe(case, ps, fl)


def run_small_top(case):
    run_top_valid(case)
    run_top_optimal(case)
    return run_unchanged(dict(case, scheme="subtract"))


def run_small_paths(case):
    run_paths_valid(case)
    run_paths_widest(case)
    run_monotone(case)
    run_reaches_fraction(case)
    run_unchanged(case)
    return run_stopping(case)


# --------------------------------------------------------------------------
# exhaustive sub-domains

def _small_graphs(n, shard, nshards, schemes):
    cells = [(i, j) for i in range(n) for j in range(n) if i != j]
    idx = 0
    for ws in itertools.product((0, 1, 2), repeat=len(cells)):
        idx += 1
        if idx % nshards != shard:
            continue
        F = [[0] * n for _ in range(n)]
        for (i, j), w in zip(cells, ws):
            F[i][j] = w
        for sch in schemes:
            case = {"kind": "small%d" % n, "wkind": "012", "F": F, "sources": [0], "sinks": [n - 1],
                    "dtype": "float64", "layout": "C", "container": "list"}
            if sch is not None:
                case.update(scheme=sch, num_paths=None, cutoff=None)
            yield case


def exhaustive(schemes):
    def fn(tier, shard, nshards):
        it = _small_graphs(3, shard, nshards, schemes)
        if tier == "thorough":
            it = itertools.chain(it, _small_graphs(4, shard, nshards, schemes))
        return it
    return fn


BOTH = ("subtract", "bottleneck")

CLAUSES = [
    Clause("top_valid", graph_case(with_scheme=False), run_top_valid, quick=800, thorough=24000,
           doc="top_path: simple source->sink path over positive edges, flux = smallest edge; no path -> no finite flux"),
    Clause("top_optimal", graph_case(with_scheme=False), run_top_optimal, quick=800, thorough=24000,
           doc="top_path flux = max bottleneck over all paths (threshold reachability + exhaustive enumeration)"),
    Clause("paths_valid", graph_case(), run_paths_valid, quick=800, thorough=24000,
           doc="every path of paths() is a real pathway of the residual graph of its turn"),
    Clause("paths_widest", graph_case(), run_paths_widest, quick=800, thorough=24000,
           doc="every path of paths() is the widest of the residual graph of its turn (first = top path)"),
    Clause("paths_widest_ties", graph_case(kinds=("conserved", "perturbed"), schemes=("bottleneck", "bottleneck", "subtract"),
                                           wkinds=("int_small", "int_small", "int")), run_paths_widest, quick=5000, thorough=40000,
           doc="tie-heavy integer flows: successive paths are the widest of the (tie-tolerant) residual of their turn"),
    Clause("paths_widest_tied_bottleneck", tied_bottleneck_case(), run_paths_widest, quick=600, thorough=10000,
           doc="constructed: every edge of the widest pathway ties for its bottleneck and two medium routes each share one "
               "of those edges - whichever ONE edge is removed, a medium route is the next widest path"),
    Clause("stopping_tied_bottleneck", tied_bottleneck_case(), run_stopping, quick=300, thorough=5000,
           doc="same constructed graphs: no early stop while a pathway is left"),
    Clause("reaches_fraction_ties", graph_case(kinds=("conserved",), wkinds=("int_small", "int")), run_reaches_fraction,
           quick=4000, thorough=30000, doc="requested fraction reached on tie-heavy conserved integer flows"),
    Clause("monotone", graph_case(), run_monotone, quick=600, thorough=16000,
           doc="successive pathway fluxes never increase"),
    Clause("sum_bound", graph_case(), run_sum_bound, quick=1200, thorough=40000, exhaustive=exhaustive(BOTH),
           doc="sum of pathway fluxes <= total outflow of the sources"),
    Clause("reaches_fraction", graph_case(kinds=("conserved",)), run_reaches_fraction, quick=600, thorough=16000,
           doc="conserved flow and num_paths not limiting: explained flux >= requested fraction"),
    Clause("stopping", graph_case(), run_stopping, quick=800, thorough=24000,
           doc="len(paths) <= num_paths; no continuation past the cutoff; early stop only when nothing is left"),
    Clause("unchanged", graph_case(schemes=("subtract", "bottleneck", "callable")), run_unchanged, quick=600,
           thorough=16000, doc="caller's matrix / sources / sinks bit-unchanged by top_path and paths"),
    Clause("small_top", graph_case(with_scheme=False), run_small_top, quick=0, thorough=0,
           exhaustive=exhaustive((None,)), doc="top_path clauses on every small 0/1/2-weighted digraph"),
    Clause("small_paths", graph_case(), run_small_paths, quick=0, thorough=0, exhaustive=exhaustive(BOTH),
           doc="paths() clauses except the sum bound on every small 0/1/2-weighted digraph"),
]


# --------------------------------------------------------------------------
# known findings

def match_bottleneck_sum_edge_reuse(case, exc):
    """remove_path='bottleneck' deletes only the bottleneck edge of each path, every other edge of the path is
    reused undiminished by later paths, so the summed path fluxes can exceed the source outflow (on arbitrary
    digraphs and, when two removed bottlenecks lie in series, on conserved acyclic flows as well).

    Matches only: clause sum_bound (checked by the harness through the entry's "clause"), the sum-bound message,
    scheme 'bottleneck', the root-cause signature (some edge carries more summed path flux than its capacity), and
    the excess being produced by the last path alone (always true for this defect as long as the cutoff test of
    paths() works: the loop stops as soon as the explained fraction reaches the cutoff, so everything before the
    last path is below cutoff*outflow; an over-run of the loop is a different failure and stays reported)."""
    msg = str(exc)
    return (isinstance(exc, Violation) and msg.startswith(SUM_MSG) and case.get("scheme") == "bottleneck"
            and "scheme=%r" % "bottleneck" in msg and "edge_reused_beyond_capacity=True" in msg
            and "overshoot_by_last_path_only=True" in msg)


MATCHERS = {"bottleneck_sum_edge_reuse": match_bottleneck_sum_edge_reuse}
