"""C06 - ragged-array writes keep all views coherent over any operation history.

Stateful: a Hypothesis RuleBasedStateMachine draws operations that are valid for the
current list-of-rows model, applies each to the real RaggedArray and to the model and
compares every observer after every step.  Histories are recorded as JSON so a shrunk
failure replays without Hypothesis (`Core.replay`).
"""
import copy

import numpy as np
from hypothesis import strategies as st
from hypothesis.stateful import RuleBasedStateMachine, rule, initialize, precondition

from vf.harness import Clause, Info, require, Violation, Skip

from enspara import ra

PROPERTY = "C06"
LEVEL = "exploration"
RULE = ("A Hypothesis RuleBasedStateMachine starts from a generated RaggedArray (1..5 rows of length 1..5, equal or "
        "unequal, one machine in five or so with one EMPTY row among scalar-element rows, int64 or float64 (two in seven: int32, int16 or float32), built from nested lists / list of arrays / flat data + lengths given as ndarray, "
        "python ints or numpy ints) and applies up to 30 (thorough 50) operations drawn for the current state: "
        "element set, same-length row set, row-slice/row-list set from a RaggedArray, a[i, slice]=, a[rows, slice]= "
        "(scalar / per-row values / RaggedArray), a[rows, j]=, paired fancy set, a[i, cols]=, a[rows_arr, j]=, mask "
        "set (scalar / flat values), append (rows / RaggedArray), augmented += -= *= on the whole array and on 2-D "
        "slices, and non-mutating binary / comparison / bitwise operators. After EVERY step all observers (rows, "
        "iteration, flatten, lengths, starts, len, size, shape, every (i,j) element, min/max/any/all, == against a "
        "fresh copy) are compared with a list-of-rows numpy model. A history is non-trivial when it has >= 4 "
        "mutating steps of >= 3 different kinds; distinct = distinct JSON history. A separate clause checks that "
        "construction by copy never aliases the caller's data.")
ASSUMPTIONS = ["row assignment only with values of the row's current length (different-length semantics are undocumented)",
               "writes through returned row views are not part of the operation alphabet",
               "a write whose selection is entirely empty may raise or be a no-op, but must leave the array unchanged",
               "a[rows, slice] op= v reads the selection first, so it is applied only when no selected row is empty"]
SHARDS = {"quick": 4, "thorough": 16}

INT_VALS = st.integers(-9, 9)
BINOPS = ["add", "sub", "mul", "truediv", "floordiv", "mod", "pow", "eq", "ne", "lt", "le", "gt", "ge"]
BITOPS = ["or", "and", "xor"]
MUTATING = {"set_elem", "set_row", "set_rows", "set_row_slice", "set_2d", "set_col", "set_cols", "set_fancy", "set_mask",
            "append", "iop", "iop_2d"}


def arr(v, dtype):
    return np.array(v, dtype=dtype)


def sl(t):
    return slice(t[0], t[1], t[2])


class Expected(Exception):
    pass


class Core:
    """Holds the real array + the model; `step(op)` applies one JSON operation to both and checks every observer."""

    def __init__(self):
        self.a = None
        self.m = None
        self.dtype = None
        self.vec = False
        self.kinds = []

    def A(self, v):
        x = arr(v, self.dtype)
        if self.vec and x.size == 0:
            x = x.reshape((0, 2))
        return x

    # ---- construction -------------------------------------------------
    def init(self, op):
        rows, dtype, path = op["rows"], op["dtype"], op["path"]
        self.dtype = dtype
        self.vec = bool(op.get("vec"))
        self.m = [arr(r, dtype) for r in rows]
        if path == "nested":
            self.a = ra.RaggedArray([list(arr(r, dtype).tolist()) for r in rows])
            if self.a.dtype != np.dtype(dtype):
                # nested python ints would give an int array: outside what we asked for, rebuild via arrays
                self.a = ra.RaggedArray([arr(r, dtype) for r in rows])
        elif path == "arrays":
            self.a = ra.RaggedArray([arr(r, dtype) for r in rows])
        elif path == "alias_module":
            # the class as exported by its old home, enspara.util.array (still used by one of the library's apps)
            import warnings
            with warnings.catch_warnings():
                warnings.simplefilter("ignore")
                from enspara.util import array as old_home
            self.a = old_home.RaggedArray([arr(r, dtype) for r in rows])
        else:
            flat = np.concatenate([arr(r, dtype) for r in rows])
            lengths = [len(r) for r in rows]
            if path == "flat_nd":
                lengths = np.array(lengths)
            elif path == "flat_npints":
                lengths = [np.int64(x) for x in lengths]
            self.a = ra.RaggedArray(flat, lengths=lengths)

    # ---- observers ------------------------------------------------------
    def check(self, where):
        a, m = self.a, self.m
        n = len(m)
        ctx = dict(after=where)
        require(len(a) == n, "len() disagrees with model", got=len(a), want=n, **ctx)
        want_len = [len(r) for r in m]
        require(list(np.asarray(a.lengths).tolist()) == want_len, "lengths disagree", got=a.lengths, want=want_len, **ctx)
        starts = [int(x) for x in np.concatenate([[0], np.cumsum(want_len)[:-1]])]
        require(list(np.asarray(a.starts).tolist()) == starts, "starts disagree", got=a.starts, want=starts, **ctx)
        flat = np.concatenate(m)
        got_flat = a.flatten()
        require(got_flat.shape == flat.ravel().shape and np.array_equal(got_flat.astype(flat.dtype), flat.ravel()),
                "flat data disagree with model", got=got_flat.tolist(), want=flat.ravel().tolist(), **ctx)
        require(np.array_equal(np.asarray(a._data).astype(flat.dtype), flat), "_data disagrees with model", got=np.asarray(a._data).tolist(),
                want=flat.tolist(), **ctx)
        for i in range(n):
            r = np.asarray(a[i])
            require(r.shape == m[i].shape and np.array_equal(r.astype(flat.dtype), m[i]), "row read disagrees with model",
                    row=i, got=r.tolist(), want=m[i].tolist(), **ctx)
            r = np.asarray(a[i - n])
            require(np.array_equal(r.astype(flat.dtype), m[i]), "negative row read disagrees", row=i - n, **ctx)
        it = [np.asarray(r) for r in a]
        require(len(it) == n and all(np.array_equal(x.astype(flat.dtype), y) for x, y in zip(it, m)),
                "iteration disagrees with model", got=[x.tolist() for x in it], **ctx)
        for i in range(n):
            for j in range(len(m[i])):
                e = np.asarray(a[i, j]).ravel()
                w = np.asarray(m[i][j]).ravel()
                require(e.size == w.size and np.array_equal(e.astype(flat.dtype), w), "element read disagrees", i=i, j=j,
                        got=e.tolist(), want=w.tolist(), **ctx)
        require(a.size == flat.size, "size disagrees", got=a.size, want=flat.size, **ctx)
        shp = a.shape
        second = want_len[0] if len(set(want_len)) == 1 else None
        require(shp[0] == n and (shp[1] == second) and tuple(shp[2:]) == tuple(flat.shape[1:]), "shape disagrees",
                got=shp, want=(n, second) + tuple(flat.shape[1:]), **ctx)
        # the flat data stay a numeric array: a buffer of python objects (dtype object) holding the right values computes
        # the next operation with python arithmetic instead of the element type's, cannot be saved, and reports
        # a.dtype == object. (The exact numeric type after mixed-type writes is not compared - numpy's own promotion and
        # casting rules differ between a block write and a row rebinding.)
        require(np.asarray(a._data).dtype != object and np.asarray(got_flat).dtype != object,
                "the flat data became an array of python objects", dtype=str(np.asarray(a._data).dtype),
                model=str(flat.dtype), **ctx)
        require(a.max() == flat.max() and a.min() == flat.min(), "min/max disagree", **ctx)
        require(bool(a.any()) == bool(flat.any()) and bool(a.all()) == bool(flat.all()), "any/all disagree", **ctx)
        b = ra.RaggedArray([r.copy() for r in m])
        eq = (a == b)
        require(type(eq) is ra.RaggedArray and bool(eq.all()), "a == fresh copy of the model is not all True", **ctx)
        require(list(eq.lengths) == want_len, "comparison result lost the row structure", **ctx)

    # ---- steps ----------------------------------------------------------
    def follow_widening(self):
        """Writes of python lists / wider values make numpy widen a list of rows when it is concatenated (a[i] = [] turns
        the flat data float64, a[i] = [1, 2] on int16 rows int64); which element type results is not compared (see
        check()). When the array has widened, the model continues in that type, so that later arithmetic - whose
        overflow behaviour depends on the type - is the same on both sides."""
        ld = np.asarray(self.a._data).dtype
        md = self.m[0].dtype if self.m else ld
        if ld != object and ld != md and np.result_type(ld, md) == ld:
            self.m = [r.astype(ld) for r in self.m]
            self.dtype = ld.name

    def step(self, op):
        k = op["op"]
        if k == "init":
            self.init(op)
            self.check("init")
            return
        if self.m is not None and self.a is not None:
            self.follow_widening()
        self.kinds.append(k)
        before = [r.copy() for r in self.m]
        try:
            tolerated = getattr(self, "op_" + k)(op)
        except Expected:
            # the model rejects the operation (index out of range): the library raised too; nothing may have changed
            self.m = before
            self.check(k + " (rejected)")
            return
        self.check(k if not tolerated else k + " (empty selection)")

    def lib_must_raise(self, f, what):
        try:
            f()
        except Exception:
            raise Expected()
        raise Violation("library accepted %s that the list-of-rows model rejects" % what)

    def run_write(self, f, empty):
        """empty selection: library may raise or no-op."""
        if empty:
            try:
                f()
            except Exception:
                pass
            return True
        f()
        return False

    def op_set_elem(self, op):
        i, j, v = op["i"], op["j"], op["v"]
        n = len(self.m)
        ok = -n <= i < n and -len(self.m[i]) <= j < len(self.m[i])
        if not ok:
            self.lib_must_raise(lambda: self.a.__setitem__((i, j), v), "an out-of-range element write")
        self.a[i, j] = v
        self.m[i][j] = v

    def op_set_row(self, op):
        i = op["i"]
        v = arr(op["v"], self.dtype)
        self.a[i] = v if op["as"] == "array" else v.tolist()
        self.m[i] = v.copy()

    def rows_of(self, sel):
        n = len(self.m)
        if sel["kind"] == "slice":
            return list(range(n))[sl(sel["v"])]
        return [r % n for r in sel["v"]]

    def sel_obj(self, sel):
        if sel["kind"] == "slice":
            return sl(sel["v"])
        if sel["kind"] == "list":
            return list(sel["v"])
        return np.array(sel["v"], dtype=int)

    def op_set_rows(self, op):
        rows = self.rows_of(op["rows"])
        vals = [arr(v, self.dtype) for v in op["v"]]
        require(len(vals) == len(rows), "harness: bad set_rows op")
        value = ra.RaggedArray([v.copy() for v in vals])
        self.a[self.sel_obj(op["rows"])] = value
        for r, v in zip(rows, vals):
            self.m[r] = v.copy()

    def op_set_row_slice(self, op):
        i, s = op["i"], sl(op["sl"])
        tgt = self.m[i][s]
        v = op["v"]
        val = v if not isinstance(v, list) else self.A(v)
        self.a[i, s] = val
        self.m[i][s] = val
        return False

    def op_refused_write(self, op):
        """A write whose VALUE cannot fit the selection (two or more values, not as many as there are selected cells):
        numpy refuses it for every row of the model, so the library has to refuse it as well - and a refused write may
        not have written anything (step() compares every view with the untouched model afterwards)."""
        kind = op["kind"]
        if kind == "row_slice":
            i, s_ = op["i"], sl(op["sl"])
            n_sel = len(self.m[i][s_])
            val = self.A(list(range(50, 50 + n_sel + op["extra"]))) if not self.vec else \
                self.A([[50 + k, 60 + k] for k in range(n_sel + op["extra"])])
            if n_sel + op["extra"] < 2 or n_sel == 0:
                return True
            self.lib_must_raise(lambda: self.a.__setitem__((i, s_), val), "a row-slice write with %d values for %d cells"
                                % (len(val), n_sel))
        elif kind == "mask":
            flat = np.concatenate(self.m)
            if self.vec:
                return True
            mm = [r > op["thr"] for r in self.m]
            n_sel = int(sum(int(x.sum()) for x in mm))
            if n_sel == 0 or n_sel + op["extra"] < 2:
                return True
            mask = ra.RaggedArray([x.copy() for x in mm])
            val = self.A(list(range(50, 50 + n_sel + op["extra"])))
            self.lib_must_raise(lambda: self.a.__setitem__(mask, val), "a mask write with %d values for %d cells"
                                % (len(val), n_sel))
        else:
            i = op["i"]
            if self.vec or len(self.m[i]) == 0:
                return True
            j = op["j"] % len(self.m[i])
            self.lib_must_raise(lambda: self.a.__setitem__((i, j), [1, 2, 3]), "three values written to one cell")
        return True

    def op_set_2d(self, op):
        rows = self.rows_of(op["rows"])
        s = sl(op["sl"])
        sel = [self.m[r][s] for r in rows]
        empty = sum(len(x) for x in sel) == 0
        v = op["v"]
        if op["form"] == "scalar":
            val = v
        elif op["form"] == "nested":
            val = [list(self.A(x).tolist()) for x in v if len(x) > 0]
        elif op["form"] == "ragged":
            val = ra.RaggedArray([self.A(x) for x in v if len(x) > 0])
        elif op["form"] in ("block_C", "block_F"):
            # a rectangular 2-D ndarray (all selected rows offer the same number of cells), row- or column-major
            blk = np.array([self.A(x) for x in v])
            val = np.ascontiguousarray(blk) if op["form"] == "block_C" else np.asfortranarray(blk)
        else:
            val = np.concatenate([self.A(x) for x in v]) if v else self.A([])
        t = self.run_write(lambda: self.a.__setitem__((self.sel_obj(op["rows"]), s), val), empty)
        for k, r in enumerate(rows):
            if op["form"] == "scalar":
                self.m[r][s] = v
            else:
                self.m[r][s] = self.A(v[k])
        return t

    def op_set_col(self, op):
        rows = self.rows_of(op["rows"])
        j = op["j"]
        ok = all(-len(self.m[r]) <= j < len(self.m[r]) for r in rows)
        v = op["v"]
        if op["form"] == "scalar":
            val = v
        elif op["form"] == "nested":
            val = [[x] for x in arr(v, self.dtype).tolist()]
        else:
            val = arr(v, self.dtype)
        if not ok:
            self.lib_must_raise(lambda: self.a.__setitem__((self.sel_obj(op["rows"]), j), val),
                                "a column write outside some selected row")
        t = self.run_write(lambda: self.a.__setitem__((self.sel_obj(op["rows"]), j), val), len(rows) == 0)
        for k, r in enumerate(rows):
            self.m[r][j] = v if op["form"] == "scalar" else arr(v, self.dtype)[k]
        return t

    def op_set_cols(self, op):
        rows = self.rows_of(op["rows"])
        cols = op["cols"]
        ok = all(-len(self.m[r]) <= c < len(self.m[r]) for r in rows for c in cols)
        v = op["v"]
        if op["form"] == "scalar":
            val = v
        elif op["form"] == "nested":
            val = [list(arr(x, self.dtype).tolist()) for x in v]
        else:
            val = ra.RaggedArray([arr(x, self.dtype) for x in v])
        key = (self.sel_obj(op["rows"]), list(cols) if op["cols_as"] == "list" else np.array(cols, dtype=int))
        if not ok:
            self.lib_must_raise(lambda: self.a.__setitem__(key, val), "a column-list write outside some selected row")
        t = self.run_write(lambda: self.a.__setitem__(key, val), len(rows) == 0)
        for k, r in enumerate(rows):
            for q, c in enumerate(cols):
                self.m[r][c] = v if op["form"] == "scalar" else arr(v[k], self.dtype)[q]
        return t

    def op_set_fancy(self, op):
        ii, jj = op["i"], op["j"]
        n = len(self.m)
        form = op["form"]          # pairs | row_int | col_int
        if form == "pairs":
            pairs = list(zip(ii, jj))
            key = (np.array(ii, dtype=int), np.array(jj, dtype=int))
        elif form == "row_int":     # a[i, cols]
            pairs = [(ii, j) for j in jj]
            key = (ii, np.array(jj, dtype=int))
        else:                       # a[rows, j]
            pairs = [(i, jj) for i in ii]
            key = (np.array(ii, dtype=int), jj)
        ok = all(-n <= i < n and -len(self.m[i]) <= j < len(self.m[i]) for i, j in pairs)
        v = op["v"]
        val = v if not isinstance(v, list) else arr(v, self.dtype)
        if not ok:
            self.lib_must_raise(lambda: self.a.__setitem__(key, val), "a fancy write with an out-of-range pair")
        key_before = [np.array(x, copy=True) for x in key if isinstance(x, np.ndarray)]
        self.a[key] = val
        # a write addresses cells through the caller's index arrays; they are arguments, not scratch space (the caller
        # uses them again - on this array after an append, on another array - and negative entries must still mean
        # "from the end")
        for x, b in zip([x for x in key if isinstance(x, np.ndarray)], key_before):
            require(np.array_equal(x, b), "a fancy write modified the caller's index array", before=b.tolist(),
                    after=x.tolist())
        for k, (i, j) in enumerate(pairs):
            self.m[i][j] = v if not isinstance(v, list) else val[k]

    def op_set_mask(self, op):
        thr, cmp_ = op["thr"], op["cmp"]
        f = {"lt": np.less, "gt": np.greater, "eq": np.equal, "ge": np.greater_equal}[cmp_]
        if op["mask_from"] == "compare":
            mask = getattr(self.a, "__%s__" % cmp_)(thr)
        else:
            mask = ra.RaggedArray([f(r, thr) for r in self.m])
        count = int(sum(f(r, thr).sum() for r in self.m))
        v = op["v"]
        val = v if not isinstance(v, list) else arr((v * (count + 1))[:count], self.dtype)
        t = self.run_write(lambda: self.a.__setitem__(mask, val), count == 0)
        k = 0
        for r in self.m:
            sel = f(r, thr)
            c = int(sel.sum())
            r[sel] = v if not isinstance(v, list) else val[k:k + c]
            k += c
        return t

    def op_append(self, op):
        if op.get("promote"):
            # appended rows of a wider element type promote the whole array (numpy concatenation semantics), they are
            # never cast down to the old element type
            self.dtype = "float64"
            self.m = [r.astype("float64") for r in self.m]
        rows = [arr(r, self.dtype) for r in op["rows"]]
        if op["as"] == "ragged":
            self.a.append(ra.RaggedArray([r.copy() for r in rows]))
        elif op["as"] == "arrays":
            self.a.append([r.copy() for r in rows])
        else:
            self.a.append([list(r.tolist()) for r in rows])
        self.m.extend(r.copy() for r in rows)

    def other(self, op):
        """operand: scalar or same-structure RaggedArray (+ its model)."""
        if op["other"] == "scalar":
            return op["s"], [op["s"]] * len(self.m)
        if op["other"] == "self":
            # the array combined with ITSELF (a + a, a -= a, a == a): one object on both sides
            return self.a, [r.copy() for r in self.m]
        rng = np.random.RandomState(op["seed"])           # seed drawn by Hypothesis
        om = [arr(rng.randint(1, 5, size=r.shape), self.dtype) for r in self.m]
        return ra.RaggedArray([r.copy() for r in om]), om

    def op_iop(self, op):
        o, om = self.other(op)
        name = op["name"]
        a0 = self.a
        if name == "add":
            self.a += o
        elif name == "sub":
            self.a -= o
        else:
            self.a *= o
        f = {"add": np.add, "sub": np.subtract, "mul": np.multiply}[name]
        self.m = [f(r, x).astype(r.dtype) for r, x in zip(self.m, om)]

    def op_iop_2d(self, op):
        rows = self.rows_of(op["rows"])
        s = sl(op["sl"])
        sel = [self.m[r][s] for r in rows]
        empty = sum(len(x) for x in sel) == 0
        if any(len(x) == 0 for x in sel) and not empty:
            # reading a 2-D slice with an empty row is not representable (C05) -> op not applicable
            return True
        key = (self.sel_obj(op["rows"]), s)
        name, v = op["name"], op["s"]

        def f():
            if name == "add":
                self.a[key] += v
            elif name == "sub":
                self.a[key] -= v
            else:
                self.a[key] *= v
        t = self.run_write(f, empty)
        g = {"add": np.add, "sub": np.subtract, "mul": np.multiply}[name]
        for r in rows:
            self.m[r][s] = g(self.m[r][s], v)
        return t

    def op_binop(self, op):
        o, om = self.other(op)
        name = op["name"]
        a = self.a
        data_before = a.flatten().copy()
        o_before = o.flatten().copy() if isinstance(o, ra.RaggedArray) else None
        if op.get("reflected") and not isinstance(o, ra.RaggedArray):
            res = getattr(a, "__r%s__" % name)(o)
            want = [getattr(np.asarray(x), "__%s__" % name)(r) for r, x in zip(self.m, om)]
        else:
            res = getattr(a, "__%s__" % name)(o)
            want = [getattr(r, "__%s__" % name)(x) for r, x in zip(self.m, om)]
        self.check_result(res, want, a, o, data_before, o_before, name)

    def op_bitop(self, op):
        thr = op["thr"]
        a = self.a
        data_before = a.flatten().copy()
        left = a > thr
        right = a < op["thr2"]
        ml = [r > thr for r in self.m]
        mr = [r < op["thr2"] for r in self.m]
        lb, rb = left.flatten().copy(), right.flatten().copy()
        name = op["name"]
        if name == "invert":
            res = ~left
            want = [~x for x in ml]
        else:
            res = getattr(left, "__%s__" % name)(right)
            want = [getattr(x, "__%s__" % name)(y) for x, y in zip(ml, mr)]
        self.check_result(res, want, left, right, lb, rb, name)
        require(np.array_equal(a.flatten(), data_before), "comparison altered its operand")

    def check_result(self, res, want, a, o, data_before, o_before, name):
        require(type(res) is ra.RaggedArray, "operator %s did not return a RaggedArray" % name, got=type(res))
        require(res is not a and res is not o, "operator %s returned one of its operands" % name)
        require([int(x) for x in res.lengths] == [len(w) for w in want], "operator %s lost the row structure" % name,
                got=res.lengths, want=[len(w) for w in want])
        wf = np.concatenate(want).ravel()
        rf = res.flatten()
        require(rf.shape == wf.shape and np.array_equal(rf.astype(wf.dtype), wf, equal_nan=True), "operator %s is not element-wise" % name,
                got=rf.tolist(), want=wf.tolist(), gd=str(rf.dtype), wd=str(wf.dtype))
        for i, w in enumerate(want):
            require(np.asarray(res[i]).shape == w.shape and np.array_equal(np.asarray(res[i]).astype(wf.dtype), w, equal_nan=True),
                    "operator %s: row view of the result disagrees" % name, row=i)
        require(np.array_equal(a.flatten(), data_before), "operator %s altered its left operand" % name)
        require(not np.shares_memory(res._data, a._data), "operator %s result shares memory with its operand" % name)
        if isinstance(o, ra.RaggedArray):
            require(np.array_equal(o.flatten(), o_before), "operator %s altered its right operand" % name)
            require(not np.shares_memory(res._data, o._data), "operator %s result shares memory with right operand" % name)

    # ---- replay ----------------------------------------------------------
    @staticmethod
    def replay(history):
        c = Core()
        for op in history:
            c.step(op)
        return c


def history_info(history):
    kinds = [h["op"] for h in history[1:]]
    mut = [k for k in kinds if k in MUTATING]
    init = history[0] if history else {}
    lens = [len(r) for r in init.get("rows", [])]
    classes = ["op=" + k for k in sorted(set(kinds))]
    classes.append("init_path=" + init.get("path", "?"))
    classes.append("init_equal_lengths=%s" % (len(set(lens)) == 1))
    classes.append("init_has_empty_row=%s" % (0 in lens))
    classes.append("dtype=" + init.get("dtype", "?"))
    classes.append("vector_elements=%s" % bool(init.get("vec")))
    classes.append("steps=%d+" % (len(kinds) // 10 * 10))
    return Info(len(mut) >= 4 and len(set(mut)) >= 3, classes)


def run_history(case):
    Core.replay(case["history"])
    return history_info(case["history"])


# ---------------------------------------------------------------------------
# the Hypothesis machine

@st.composite
def init_op(draw):
    n = draw(st.integers(1, 5))
    if draw(st.integers(0, 3)) == 0:
        L = draw(st.integers(1, 5))
        lens = [L] * n
    else:
        lens = [draw(st.integers(1, 5)) for _ in range(n)]
    # (narrower element types hold the same small values; arithmetic on them follows numpy's rules for that type in the
    # model as in the array)
    dtype = draw(st.sampled_from(["int64", "float64", "int64", "float64", "int32", "int16", "float32"]))
    vec = draw(st.integers(0, 4)) == 0        # one machine in five holds rows of 2-vectors
    if not vec and n >= 2 and draw(st.integers(0, 3)) == 0:
        # an array that starts with an empty row somewhere (a trajectory that contributed no frame): "any ragged array"
        lens[draw(st.integers(0, n - 1))] = 0
    rows = []
    for L in lens:
        if vec:
            vals = draw(st.lists(st.tuples(INT_VALS, INT_VALS).map(list), min_size=L, max_size=L))
            rows.append([[x / 2 for x in v] for v in vals] if dtype.startswith("float") else vals)
        else:
            vals = draw(st.lists(INT_VALS, min_size=L, max_size=L))
            rows.append([v / 2 for v in vals] if dtype.startswith("float") else vals)
    return {"op": "init", "rows": rows, "dtype": dtype, "vec": vec,
            # (nested python lists with an empty row are float64 to numpy: not what the model holds)
            "path": draw(st.sampled_from(["arrays", "flat_nd", "flat_pyints", "flat_npints", "alias_module"] if 0 in lens else
                                         ["nested", "arrays", "flat_nd", "flat_pyints", "flat_npints", "alias_module"]))}


def make_machine(hooks):
    class RaggedMachine(RuleBasedStateMachine):
        def __init__(self):
            super().__init__()
            self.core = Core()
            self.history = []
            self.dead = False

        def do(self, op):
            if self.dead or hooks.over_budget():
                self.dead = True
                return
            self.history.append(op)
            try:
                self.core.step(op)
            except Exception as exc:
                self.dead = True
                if hooks.failed(list(self.history), exc):
                    return
                raise

        def val(self, data, n=None):
            s = INT_VALS if self.core.dtype.startswith("int") else INT_VALS.map(lambda v: v / 2)
            if n is None:
                return data.draw(s)
            if self.core.vec:
                return data.draw(st.lists(st.tuples(s, s).map(list), min_size=n, max_size=n))
            return data.draw(st.lists(s, min_size=n, max_size=n))

        def scalar_only(self):
            return self.core.vec

        def newlen(self, data, cur, always=False):
            """whole-row replacement may change the row's length (the list-of-rows model simply rebinds the row).
            `a[i] = v` on an array whose rows are all equally long is a numpy assignment into a 2-D block (a shorter
            value is broadcast, a longer one rejected), so a single row is only resized while the array is ragged;
            `a[rows] = RaggedArray` rebinds rows whatever the layout."""
            ragged = len(set(len(r) for r in self.core.m)) > 1
            if (ragged or always) and data.draw(st.integers(0, 2)) == 0:
                return data.draw(st.integers(1, 6))
            return cur

        def alive(self):
            return not self.dead and self.core.m is not None

        @initialize(op=init_op())
        def start(self, op):
            self.do(op)

        def idx(self, data, n, allow_oor=True):
            k = data.draw(st.integers(0, 19))
            if (allow_oor and k == 0) or n == 0:
                # (every index into an empty row is out of range)
                return data.draw(st.sampled_from([n, n + 1, -n - 1, -n - 2]))
            return data.draw(st.integers(-n, n - 1))

        def col_slice(self, data):
            start = data.draw(st.sampled_from([None, None, 0, 1, 2, 3, -1, -2, -3, -7]))
            stop = data.draw(st.sampled_from([None, None, 0, 1, 2, 3, 4, 6, -1, -2, -3]))
            step = data.draw(st.sampled_from([None, None, None, 1, 2, 3, -1, -2]))
            return [start, stop, step]

        def row_sel(self, data):
            n = len(self.core.m)
            kind = data.draw(st.sampled_from(["slice", "slice", "list", "array"]))
            if kind == "slice":
                start = data.draw(st.sampled_from([None, None, 0, 1, 2, -1, -2]))
                stop = data.draw(st.sampled_from([None, None, 1, 2, 3, n, n + 2, -1]))
                step = data.draw(st.sampled_from([None, None, 1, 2, -1]))
                return {"kind": "slice", "v": [start, stop, step]}
            rows = data.draw(st.lists(st.integers(0, n - 1), min_size=1, max_size=min(n, 3), unique=True))
            return {"kind": kind, "v": rows}

        @precondition(lambda self: self.alive())
        @rule(data=st.data())
        def set_elem(self, data):
            m = self.core.m
            i = self.idx(data, len(m))
            L = len(m[i]) if -len(m) <= i < len(m) else 3
            self.do({"op": "set_elem", "i": i, "j": self.idx(data, L), "v": self.val(data)})

        @precondition(lambda self: self.alive())
        @rule(data=st.data())
        def set_row(self, data):
            m = self.core.m
            i = data.draw(st.integers(-len(m), len(m) - 1))
            self.do({"op": "set_row", "i": i, "v": self.val(data, self.newlen(data, len(m[i]))),
                     "as": data.draw(st.sampled_from(["array", "list"]))})

        @precondition(lambda self: self.alive())
        @rule(data=st.data())
        def set_rows(self, data):
            if __import__("os").environ.get("C06_NO_SETROWS"): return
            sel = self.row_sel(data)
            rows = self.core.rows_of(sel)
            if not rows:
                return
            self.do({"op": "set_rows", "rows": sel, "v": [self.val(data, self.newlen(data, len(self.core.m[r]), always=True)) for r in rows]})

        @precondition(lambda self: self.alive())
        @rule(data=st.data())
        def set_row_slice(self, data):
            m = self.core.m
            i = data.draw(st.integers(-len(m), len(m) - 1))
            s = self.col_slice(data)
            k = len(m[i][sl(s)])
            v = self.val(data) if data.draw(st.booleans()) else self.val(data, k)
            self.do({"op": "set_row_slice", "i": i, "sl": s, "v": v})

        @precondition(lambda self: self.alive())
        @rule(data=st.data())
        def set_2d(self, data):
            sel = self.row_sel(data)
            s = self.col_slice(data)
            rows = self.core.rows_of(sel)
            # a flat (k, 2) value array for vector elements is ambiguous (the library treats any nested value as
            # per-row lists), so the flat form is used for scalar elements only
            form = data.draw(st.sampled_from(["scalar", "nested", "ragged", "flat"] if not self.core.vec
                                             else ["scalar", "nested", "ragged"]))
            if form == "scalar":
                v = self.val(data)
            else:
                v = [self.val(data, len(self.core.m[r][sl(s)])) for r in rows]
                if form in ("nested", "ragged") and all(len(x) == 0 for x in v):
                    form = "flat" if not self.core.vec else "scalar"
                    if form == "scalar":
                        v = self.val(data)
                elif (not self.core.vec and len(v) >= 2 and len(set(len(x) for x in v)) == 1 and len(v[0]) >= 2
                      and data.draw(st.booleans())):
                    form = data.draw(st.sampled_from(["block_C", "block_F"]))
            self.do({"op": "set_2d", "rows": sel, "sl": s, "form": form, "v": v})

        @precondition(lambda self: self.alive())
        @rule(data=st.data())
        def set_col(self, data):
            if self.core.vec:
                return
            sel = self.row_sel(data)
            rows = self.core.rows_of(sel)
            if not rows:
                return
            minlen = min(len(self.core.m[r]) for r in rows)
            j = self.idx(data, minlen) if minlen and data.draw(st.integers(0, 9)) else data.draw(st.integers(-6, 6))
            form = data.draw(st.sampled_from(["scalar", "nested", "flat"]))
            v = self.val(data) if form == "scalar" else self.val(data, len(rows))
            self.do({"op": "set_col", "rows": sel, "j": j, "form": form, "v": v})

        @precondition(lambda self: self.alive())
        @rule(data=st.data())
        def set_cols(self, data):
            """a[row slice, [c1, c2, ...]] = value: every selected row gets the listed columns written, in row-major order."""
            if self.core.vec:
                return
            n = len(self.core.m)
            start = data.draw(st.sampled_from([None, 0, 1]))
            stop = data.draw(st.sampled_from([None, None, 2, 3, n]))
            sel = {"kind": "slice", "v": [start, stop, data.draw(st.sampled_from([None, None, 2]))]}
            rows = self.core.rows_of(sel)
            if not rows:
                return
            minlen = min(len(self.core.m[r]) for r in rows)
            if minlen == 0:
                return
            k = data.draw(st.integers(1, min(3, minlen)))
            cols = data.draw(st.lists(st.integers(-minlen, minlen - 1), min_size=k, max_size=k,
                                      unique_by=lambda c: c % minlen))
            if data.draw(st.integers(0, 11)) == 0:
                cols = cols + [minlen + 1]
            form = data.draw(st.sampled_from(["scalar", "nested", "ragged"]))
            v = self.val(data) if form == "scalar" else [self.val(data, len(cols)) for _ in rows]
            self.do({"op": "set_cols", "rows": sel, "cols": cols, "cols_as": data.draw(st.sampled_from(["list", "array"])),
                     "form": form, "v": v})

        @precondition(lambda self: self.alive())
        @rule(data=st.data())
        def set_fancy(self, data):
            if self.core.vec:
                return
            m = self.core.m
            form = data.draw(st.sampled_from(["pairs", "row_int", "col_int"]))
            k = data.draw(st.integers(1, 4))
            if form == "pairs":
                cells = [(i, j) for i in range(len(m)) for j in range(len(m[i]))]
                if not cells:
                    return
                picks = data.draw(st.lists(st.sampled_from(cells), min_size=1, max_size=min(k, len(cells)), unique=True))
                ii = [i - len(m) if data.draw(st.booleans()) else i for i, _ in picks]
                jj = [j - len(m[i]) if data.draw(st.booleans()) else j for i, j in picks]
                if data.draw(st.integers(0, 14)) == 0:
                    jj[0] = len(m[picks[0][0]]) + data.draw(st.integers(0, 1))
                n = len(picks)
            elif form == "row_int":
                ii = data.draw(st.integers(-len(m), len(m) - 1))
                L = len(m[ii])
                if L == 0:
                    return
                jj = data.draw(st.lists(st.integers(-L, L - 1), min_size=1, max_size=min(k, L), unique_by=lambda x: x % L))
                n = len(jj)
            else:
                rows = data.draw(st.lists(st.integers(0, len(m) - 1), min_size=1, max_size=min(k, len(m)), unique=True))
                minlen = min(len(m[r]) for r in rows)
                if minlen == 0:
                    return
                jj = self.idx(data, minlen)
                ii = [r - len(m) if data.draw(st.booleans()) else r for r in rows]
                n = len(ii)
            v = self.val(data) if data.draw(st.integers(0, 3)) == 0 else self.val(data, n)
            self.do({"op": "set_fancy", "form": form, "i": ii, "j": jj, "v": v})

        @precondition(lambda self: self.alive())
        @rule(data=st.data())
        def set_mask(self, data):
            if self.core.vec:
                return
            flat = np.concatenate(self.core.m)
            thr = data.draw(st.sampled_from(sorted(set(flat.tolist())) + [1000, -1000]))
            v = self.val(data) if data.draw(st.booleans()) else self.val(data, 4)
            self.do({"op": "set_mask", "thr": thr, "cmp": data.draw(st.sampled_from(["lt", "gt", "eq", "ge"])),
                     "mask_from": data.draw(st.sampled_from(["compare", "model"])), "v": v})

        @precondition(lambda self: self.alive())
        @rule(data=st.data())
        def refused_write(self, data):
            m = self.core.m
            kind = data.draw(st.sampled_from(["row_slice", "mask", "cell"]))
            i = data.draw(st.integers(-len(m), len(m) - 1))
            flat = np.concatenate(m).ravel()
            self.do({"op": "refused_write", "kind": kind, "i": i, "sl": self.col_slice(data),
                     "extra": data.draw(st.sampled_from([1, 2, -1])), "j": data.draw(st.integers(0, 5)),
                     "thr": data.draw(st.sampled_from(sorted(set(flat.tolist())) + [-1000]))})

        @precondition(lambda self: self.alive() and len(self.core.m) < 9)
        @rule(data=st.data())
        def append(self, data):
            k = data.draw(st.integers(1, 3))
            promote = self.core.dtype == "int64" and not self.core.vec and data.draw(st.integers(0, 5)) == 0
            if promote:
                rows = [[v + 0.5 for v in self.val(data, data.draw(st.integers(1, 4)))] for _ in range(k)]
                self.do({"op": "append", "rows": rows, "as": data.draw(st.sampled_from(["ragged", "arrays"])), "promote": True})
                return
            rows = [self.val(data, data.draw(st.integers(1, 4))) for _ in range(k)]
            self.do({"op": "append", "rows": rows, "as": data.draw(st.sampled_from(["ragged", "arrays", "lists"]))})

        @precondition(lambda self: self.alive())
        @rule(data=st.data())
        def iop(self, data):
            other = data.draw(st.sampled_from(["scalar", "ragged", "ragged", "self"]))
            s = data.draw(st.integers(-3, 3)) if self.core.dtype.startswith("int") else data.draw(st.integers(-6, 6)) / 2
            self.do({"op": "iop", "name": data.draw(st.sampled_from(["add", "sub", "mul"])), "other": other, "s": s,
                     "seed": data.draw(st.integers(0, 10 ** 6))})

        @precondition(lambda self: self.alive())
        @rule(data=st.data())
        def iop_2d(self, data):
            s = data.draw(st.integers(-3, 3)) if self.core.dtype.startswith("int") else data.draw(st.integers(-6, 6)) / 2
            self.do({"op": "iop_2d", "name": data.draw(st.sampled_from(["add", "sub", "mul"])), "rows": self.row_sel(data),
                     "sl": self.col_slice(data), "s": s})

        @precondition(lambda self: self.alive())
        @rule(data=st.data())
        def binop(self, data):
            name = data.draw(st.sampled_from(BINOPS))
            other = data.draw(st.sampled_from(["scalar", "ragged", "ragged", "self"]))
            if other == "self" and name not in ("add", "sub", "mul", "eq", "ne", "lt", "le", "gt", "ge"):
                other = "ragged"          # a / a, a % a, a ** a meet the zeros of the data
            s = data.draw(st.integers(1, 4))
            if self.core.dtype.startswith("float"):
                s = float(s) if name != "pow" else 2.0
            if name == "pow" and (np.concatenate(self.core.m) < 0).any():
                s = 2.0
            self.do({"op": "binop", "name": name, "other": other, "s": s, "seed": data.draw(st.integers(0, 10 ** 6)),
                     "reflected": data.draw(st.booleans()) and name in ("add", "sub", "mul")})

        @precondition(lambda self: self.alive())
        @rule(data=st.data())
        def bitop(self, data):
            if self.core.vec:
                return
            self.do({"op": "bitop", "name": data.draw(st.sampled_from(BITOPS + ["invert"])),
                     "thr": data.draw(st.integers(-5, 5)), "thr2": data.draw(st.integers(-5, 5))})

        def teardown(self):
            if not self.dead and self.history:
                hooks.done(list(self.history), history_info(self.history))

    return RaggedMachine


# ---------------------------------------------------------------------------
# constructor aliasing (plain clause)

@st.composite
def alias_case(draw):
    op = draw(init_op())
    op["mutate"] = draw(st.sampled_from(["source", "array"]))
    op["i"] = draw(st.sampled_from([k for k, r in enumerate(op["rows"]) if len(r)]))     # a row that has a first element
    op["copy_kw"] = draw(st.sampled_from(["default", "true"]))
    return op


def run_alias(case):
    dtype = case["dtype"]
    rows = [arr(r, dtype) for r in case["rows"]]
    kw = {} if case["copy_kw"] == "default" else {"copy": True}
    if case["path"] in ("nested", "arrays"):
        src = [r.copy() for r in rows] if case["path"] == "arrays" else [list(r.tolist()) for r in rows]
        a = ra.RaggedArray(src, **kw)
    else:
        src = np.concatenate(rows)
        lengths = [len(r) for r in rows]
        if case["path"] == "flat_nd":
            lengths = np.array(lengths)
        keep_len = copy.deepcopy(lengths)
        a = ra.RaggedArray(src, lengths=lengths, **kw)
    i = case["i"]
    snapshot = a.flatten().copy()
    if case["mutate"] == "source":
        if isinstance(src, np.ndarray):
            src += 100
            if isinstance(lengths, np.ndarray):
                lengths[0] += 1
            elif isinstance(lengths, list):
                lengths[0] += 1
        else:
            for r in src:
                if isinstance(r, np.ndarray):
                    r += 100
                elif len(r):
                    r[0] = 777
        require(np.array_equal(a.flatten(), snapshot), "mutating the caller's source changed the ragged array (aliased)",
                got=a.flatten().tolist(), want=snapshot.tolist())
        require([int(x) for x in a.lengths] == [len(r) for r in rows], "mutating the caller's lengths changed the array")
        for k, r in enumerate(rows):
            require(np.array_equal(np.asarray(a[k]), r), "row view changed after the caller mutated the source", row=k)
    else:
        before = copy.deepcopy(src)
        a[i, 0] = 55
        a[i] = np.asarray(a[i]) + 1
        a += 3
        same = (np.array_equal(src, before) if isinstance(src, np.ndarray)
                else all(np.array_equal(np.asarray(x), np.asarray(y)) for x, y in zip(src, before)))
        require(same, "writing to the ragged array changed the caller's source (aliased)")
    return Info(len(rows) >= 2, ["alias_path=" + case["path"], "alias_mutate=" + case["mutate"],
                                 "alias_equal=%s" % (len(set(len(r) for r in rows)) == 1)])


# ---------------------------------------------------------------------------
# operators on special float values (NaN, +-inf, -0.0): element-wise with numpy semantics

SPECIAL = st.sampled_from([float("nan"), float("inf"), float("-inf"), -0.0, 0.0, 1.0, -1.5, 2.0, 3.0])


@st.composite
def special_case(draw):
    n = draw(st.integers(1, 4))
    lens = [draw(st.integers(1, 4)) for _ in range(n)]
    rows = [draw(st.lists(SPECIAL, min_size=L, max_size=L)) for L in lens]
    other = draw(st.sampled_from(["scalar", "ragged"]))
    return {"rows": rows, "other": other,
            "orows": [draw(st.lists(SPECIAL, min_size=L, max_size=L)) for L in lens],
            "s": draw(SPECIAL), "name": draw(st.sampled_from(["eq", "ne", "lt", "le", "gt", "ge", "add", "sub", "mul"])),
            "then_mask_set": draw(st.booleans())}


def run_special(case):
    rows = [np.array(r, dtype=float) for r in case["rows"]]
    a = ra.RaggedArray([r.copy() for r in rows])
    if case["other"] == "scalar":
        o, om = case["s"], [case["s"]] * len(rows)
    else:
        om = [np.array(r, dtype=float) for r in case["orows"]]
        o = ra.RaggedArray([r.copy() for r in om])
    name = case["name"]
    with np.errstate(all="ignore"):
        res = getattr(a, "__%s__" % name)(o)
        want = [getattr(r, "__%s__" % name)(x) for r, x in zip(rows, om)]
    require(type(res) is ra.RaggedArray, "operator %s did not return a RaggedArray" % name)
    require([int(x) for x in res.lengths] == [len(w) for w in want], "operator %s lost the row structure" % name)
    wf = np.concatenate(want)
    rf = res.flatten()
    require(rf.dtype == wf.dtype and np.array_equal(rf, wf, equal_nan=True),
            "operator %s is not element-wise on special values" % name, got=rf.tolist(), want=wf.tolist(),
            left=np.concatenate(rows).tolist(), right=(np.concatenate(om).tolist() if case["other"] == "ragged" else o))
    require(np.array_equal(a.flatten(), np.concatenate(rows), equal_nan=True), "operator altered its left operand")
    if case["then_mask_set"] and wf.dtype == bool:
        # the comparison result used as a mask for assignment must hit exactly the True cells
        a[res] = 7.0
        for r, w in zip(rows, want):
            r[w] = 7.0
        require(np.array_equal(a.flatten(), np.concatenate(rows), equal_nan=True),
                "mask assignment through a comparison on special values wrote the wrong cells",
                got=a.flatten().tolist(), want=np.concatenate(rows).tolist())
    has_nan = bool(np.isnan(np.concatenate(rows)).any())
    return Info(has_nan and len(rows) >= 2, ["special_op=" + name, "special_other=" + case["other"], "has_nan=%s" % has_nan])


# --------------------------------------------------------------------------
# operators on narrow dtypes: the element-wise result (values AND result type) is what numpy gives per row - a python
# scalar adopts the array's dtype, a numpy scalar / other array takes part in promotion, out-of-range python ints raise.

NARROW = ["float32", "float16", "int8", "uint8", "int16", "uint16", "int32", "int64", "float64"]
NOPS = ["eq", "ne", "lt", "le", "gt", "ge", "add", "radd", "sub", "rsub", "mul", "rmul", "truediv", "rtruediv",
        "floordiv", "rfloordiv", "mod", "rmod", "pow"]


@st.composite
def narrow_case(draw):
    dt = draw(st.sampled_from(NARROW))
    lens = draw(st.lists(st.integers(1, 4), min_size=1, max_size=4))
    isf = dt.startswith("float")
    if isf:
        elem = st.sampled_from([0.1, 0.2, 0.3, 0.5, 1.0, 1.1, 2.5, 3.3, 7.0, 100.1, 0.7, 1e-3, 16777217.0, -0.1, -2.5])
    else:
        info = np.iinfo(dt)
        elem = st.sampled_from([0, 1, 2, 3, 5, 7, 100, 120, 127, 200, 250, 255, 30000, 32767, 65535, -1, -3, -100, -128])\
            .filter(lambda v: info.min <= v <= info.max)
    rows = [draw(st.lists(elem, min_size=L, max_size=L)) for L in lens]
    okind = draw(st.sampled_from(["pyint", "pyfloat", "npscalar_same", "npscalar_wide", "ragged_same", "ragged_other"]))
    sval = draw(st.sampled_from([0.1, 0.2, 0.5, 1.1, 2.5, 0.7, 3.3, 100.1])) if okind == "pyfloat" else \
        draw(st.sampled_from([1, 2, 3, 7, 10, 100, 127, 128, 200, 255, 256, 300, 1000, 40000, 70000, -1, -2, -7, -200]))
    odt = draw(st.sampled_from(NARROW))
    orows = [draw(st.lists(st.sampled_from([1, 2, 3, 5, 7, 100, 120]), min_size=L, max_size=L)) for L in lens]
    return {"dtype": dt, "rows": rows, "okind": okind, "s": sval, "odtype": odt, "orows": orows,
            "name": draw(st.sampled_from(NOPS))}


def run_narrow(case):
    dt = case["dtype"]
    rows = [np.array(r, dtype=dt) for r in case["rows"]]
    a = ra.RaggedArray([r.copy() for r in rows])
    require(a.dtype == np.dtype(dt), "constructor changed the dtype", got=str(a.dtype), want=dt)
    k = case["okind"]
    if k in ("pyint", "pyfloat"):
        o = case["s"]
        om = [o] * len(rows)
    elif k == "npscalar_same":
        try:
            o = np.dtype(dt).type(case["s"])
        except OverflowError:
            raise Skip("scalar does not fit the dtype")
        om = [o] * len(rows)
    elif k == "npscalar_wide":
        o = np.float64(case["s"]) if dt.startswith("float") else np.int64(case["s"])
        om = [o] * len(rows)
    else:
        odt = dt if k == "ragged_same" else case["odtype"]
        om = [np.array(r, dtype=odt) for r in case["orows"]]
        o = ra.RaggedArray([r.copy() for r in om])
    name = case["name"]

    def per_row():
        out = []
        for r, x in zip(rows, om):
            v = getattr(r, "__%s__" % name)(x)
            if v is NotImplemented:
                raise Skip("numpy does not implement this operand combination")
            out.append(v)
        return out
    with np.errstate(all="ignore"), __import__("warnings").catch_warnings():
        __import__("warnings").simplefilter("ignore")
        try:
            want, wexc = per_row(), None
        except Skip:
            raise
        except Exception as x:
            want, wexc = None, x
        try:
            res, rexc = getattr(a, "__%s__" % name)(o), None
        except Exception as x:
            res, rexc = None, x
    if wexc is not None:
        require(rexc is not None, "operator %s: every row raises %s for this operand, the ragged array returned a value" % (
            name, type(wexc).__name__), dtype=dt, other=repr(o)[:80], got=None if res is None else res.flatten().tolist())
        return Info(True, ["narrow_outcome=both_raise", "narrow_dtype=" + dt, "narrow_other=" + k])
    if rexc is not None:
        raise Violation("operator %s raised %s: %s where the rows give a value | dtype=%s other=%r" % (
            name, type(rexc).__name__, str(rexc)[:120], dt, o if not isinstance(o, ra.RaggedArray) else "ragged")) from rexc
    require(type(res) is ra.RaggedArray, "operator %s did not return a RaggedArray" % name)
    require([int(x) for x in res.lengths] == [len(w) for w in want], "operator %s lost the row structure" % name)
    wf = np.concatenate(want)
    rf = res.flatten()
    require(np.array_equal(rf, wf, equal_nan=True), "operator %s is not element-wise (values differ from the per-row result)" % name,
            got=rf.tolist(), want=wf.tolist(), dtype=dt, other=repr(o)[:80] if not isinstance(o, ra.RaggedArray) else case["orows"],
            left=np.concatenate(rows).tolist())
    require(rf.dtype == wf.dtype, "operator %s: result type differs from the per-row result type" % name,
            got=str(rf.dtype), want=str(wf.dtype), dtype=dt, other=repr(o)[:80] if not isinstance(o, ra.RaggedArray) else case["odtype"])
    require(np.array_equal(a.flatten(), np.concatenate(rows)) and a.dtype == np.dtype(dt), "operator altered its left operand")
    if isinstance(o, ra.RaggedArray):
        require(np.array_equal(o.flatten(), np.concatenate(om)), "operator altered its right operand")
    wide = np.dtype(dt).itemsize < 8
    return Info(wide, ["narrow_outcome=value", "narrow_dtype=" + dt, "narrow_other=" + k, "narrow_op=" + name])


CLAUSES = [
    Clause("history", None, run_history, quick=900, thorough=16000, stateful=make_machine, steps=30),
    Clause("copy_no_alias", alias_case(), run_alias, quick=400, thorough=8000),
    Clause("operators_special_values", special_case(), run_special, quick=500, thorough=10000),
    Clause("operators_narrow_dtypes", narrow_case(), run_narrow, quick=1500, thorough=30000),
]
MATCHERS = {}
