"""C18 - joint counts are exact and mutual information obeys its algebraic laws;
invalid state ids / mismatched lengths are rejected.

One clause per sentence of the statement (see CLAUSES at the bottom).  The two
clauses that can drive the Cython kernel out of bounds (`reject_invalid`,
`counts_wide_ids`) evaluate every sub-case in a CHILD interpreter
(`python checks/c18.py --child`, items as JSON on stdin, one `@@R` line per
item) so that heap corruption can neither kill nor poison the harness.
"""
import json
import math
import os
import subprocess


def _lift_memory_limit():
    """preexec hook of sanitizer children: undo the shard's soft address-space limit (ASan reserves terabytes)."""
    try:
        import resource
        soft, hard = resource.getrlimit(resource.RLIMIT_AS)
        resource.setrlimit(resource.RLIMIT_AS, (hard, hard))
    except Exception:
        pass
import sys
import warnings

import numpy as np

VERIF = os.path.dirname(os.path.dirname(os.path.abspath(__file__)))
if VERIF not in sys.path:
    sys.path.insert(0, VERIF)

from vf import env as _env                                         # noqa: E402
_env.setup(path=os.environ.get("C18_CHILD_SRC") or None)           # no-op when the harness did it already

from hypothesis import strategies as st                            # noqa: E402
from vf.harness import Clause, Info, require, Violation            # noqa: E402

from enspara import ra                                             # noqa: E402
from enspara.info_theory import mutual_info, entropy, libinfo      # noqa: E402

PROPERTY = "C18"
LEVEL = "exploration"
RULE = ("Hypothesis draws pairs of integer feature trajectories: T in 1..60 (quick) / 1..2000 (thorough) frames, "
        "F_x, F_y in 1..5 features (drawn independently, so often different; up to 20 on the parallel axis in the "
        "thread clauses), declared state counts n_x, n_y in 2..6 (often different; passed as None / exact / with "
        "unobserved extra states), per-feature observed ranges, column patterns (iid, covering, constant, sticky, "
        "skewed, copy of another column), every integer dtype int8..uint64 drawn independently for X and Y, memory "
        "layouts (C, Fortran, row-/column-strided, offset view, negative strides, 1-D for single features) and an "
        "OpenMP thread count in 1..16 set with threadpoolctl. Tiny cases (T<=10) are drawn element by element "
        "(shrinkable); larger ones come from numpy RandomState(seed) with a Hypothesis-drawn seed and are stored "
        "explicitly in the case (the 10k-40k frame race-search cases store the seed). Further strategies: 1-6 "
        "trajectories of different lengths in list / generator / 3-D array / RaggedArray containers; weight vectors "
        "(uniform 1/T, ones, constant, whole numbers, with zeros, random); state-count vectors as int / list / "
        "array of several dtypes; probability vectors and tables on rational grids and as arbitrary floats, with "
        "zeros; batches of invalid inputs (negative ids, ids >= n, length mismatch through joint_counts, the kernel, "
        "mi_matrix, weighted_mi) and of valid inputs whose ids exceed the other side's dtype or sit at the dtype "
        "maximum, both evaluated in a child interpreter. Oracles: literal Python counting into an int64 4-D table "
        "(exact equality), MI / entropy / KL from those tables with math.log (1e-12), weighted reference (1e-10), "
        "literal mi/log(min(n_x[i],n_y[j])), 'a Python exception and nothing else' for invalid inputs. A counting/MI "
        "case is non-trivial when F_x != F_y or n_x != n_y and every declared state of both sides is observed; a "
        "self-MI case when F >= 2, all states are observed and some off-diagonal MI is positive; a pooled case when "
        "it has >= 2 trajectories and pooling differs from averaging; a weighted case when F >= 2 and MI > 0 (and "
        "the weights are not all equal in the general clause); a KL/entropy case when the distribution has a zero "
        "and P != Q; a channel-capacity case when n_x and n_y differ in length or values; an invalid-input batch "
        "when it contains a negative id that reaches the kernel as a negative number; a wide-id batch when an id "
        "exceeds the other side's dtype or equals its dtype's maximum. Distinct = distinct canonical JSON of the "
        "case. Thorough additionally enumerates all X in {0,1}^T x Y in {0,1,2}^T, T<=3, for all 64 dtype pairs, and "
        "repeats valid / wide-id / invalid batches inside an AddressSanitizer+UBSan build of the extensions.")
ASSUMPTIONS = [
    "every trajectory has at least one frame (max() of an empty array is undefined in the library)",
    "state ids are < 2**31 and declared state counts fit a C int; per-feature state-count vectors are used by the "
    "library for normalisation only, the declared range that must be enforced is the integer handed to joint_counts",
    "feature arrays are native-endian writable numpy integer arrays (the typed-buffer interface refuses others)",
    "OpenMP thread count is varied (1..16) but the loop schedule cannot be controlled; races are searched by "
    "repetition against an exact oracle, not proved absent",
    "joint-count blocks with zero observations and probability vectors larger than numpy's small-block cache are "
    "C19's subject (masked ufuncs without out=); here every feature pair has >= 1 observation",
    "weights are non-negative floats with a positive sum; P and Q handed to kl_divergence are normalised "
    "distributions",
    "RaggedArray containers are only used with rows of different lengths (its equal-length fast path returns "
    "object-dtype rows: finding of C05/C15, not of this property)",
]
SHARDS = {"quick": 4, "thorough": 16}

INT_DTYPES = ["int8", "int16", "int32", "int64", "uint8", "uint16", "uint32", "uint64"]
SIGNED = ["int8", "int16", "int32", "int64"]
LAYOUTS = ["C", "F", "rowstride", "colstride", "offset", "reversed"]
PY = "/venv/bin/python"

ATOL_MI = 1e-12
ATOL_W = 1e-10


# --------------------------------------------------------------------------
# OpenMP thread control

_CTL = None


def omp(n):
    global _CTL
    if _CTL is None:
        from threadpoolctl import ThreadpoolController
        _CTL = ThreadpoolController()
    return _CTL.limit(limits=int(n), user_api="openmp")


# --------------------------------------------------------------------------
# reference models (plain python / numpy, independent of the library)

def ref_counts(X, Y, nx, ny):
    """Literal count of (state of feature a of X, state of feature b of Y) pairs."""
    X = np.asarray(X, dtype=np.int64)
    Y = np.asarray(Y, dtype=np.int64)
    T, Fx = X.shape
    Fy = Y.shape[1]
    jc = np.zeros((Fx, Fy, nx, ny), dtype=np.int64)
    if T * Fx * Fy <= 40000:
        xl, yl = X.tolist(), Y.tolist()
        for t in range(T):
            xr, yr = xl[t], yl[t]
            for a in range(Fx):
                i = xr[a]
                for b in range(Fy):
                    jc[a, b, i, yr[b]] += 1
    else:
        for a in range(Fx):
            for b in range(Fy):
                np.add.at(jc[a, b], (X[:, a], Y[:, b]), 1)
    return jc


def ref_mi_table(tab):
    """MI (nats) of one 2-D integer count table with math.log on exact rationals."""
    tab = [[int(c) for c in row] for row in tab]
    N = sum(sum(r) for r in tab)
    if N == 0:
        return 0.0
    rs = [sum(r) for r in tab]
    cs = [sum(tab[i][j] for i in range(len(tab))) for j in range(len(tab[0]))]
    terms = []
    for i, r in enumerate(tab):
        for j, c in enumerate(r):
            if c > 0:
                terms.append((c / N) * math.log((c * N) / (rs[i] * cs[j])))
    return math.fsum(terms)


def ref_mi(jc):
    Fx, Fy = jc.shape[:2]
    return np.array([[ref_mi_table(jc[a, b].tolist()) for b in range(Fy)] for a in range(Fx)], dtype=float)


def ref_entropy_counts(v):
    v = [int(c) for c in v]
    N = sum(v)
    return -math.fsum((c / N) * math.log(c / N) for c in v if c > 0)


def ref_entropy_p(p):
    return -math.fsum(x * math.log(x) for x in p if x > 0)


def ref_kl(p, q, base):
    """sum p log(p/q) / log(base); 0 log 0 = 0; +inf if q == 0 < p."""
    terms = []
    for a, b in zip(p, q):
        if a > 0:
            if b == 0:
                return math.inf
            terms.append(a * (math.log(a) - math.log(b)))
    return math.fsum(terms) / math.log(base)


def ref_weighted_mi(F, w, S):
    """Weighted MI (nats) for every feature pair; w need not be normalised."""
    F = np.asarray(F, dtype=np.int64)
    T, nf = F.shape
    tot = math.fsum(w)
    out = np.zeros((nf, nf))
    fl = F.tolist()
    for a in range(nf):
        for b in range(nf):
            cell = {}
            for t in range(T):
                if w[t] > 0:
                    cell.setdefault((fl[t][a], fl[t][b]), []).append(w[t])
            P = {k: math.fsum(v) / tot for k, v in cell.items()}
            pa, pb = {}, {}
            for (u, v), p in P.items():
                pa.setdefault(u, []).append(p)
                pb.setdefault(v, []).append(p)
            pa = {k: math.fsum(v) for k, v in pa.items()}
            pb = {k: math.fsum(v) for k, v in pb.items()}
            out[a, b] = math.fsum(p * math.log(p / (pa[u] * pb[v])) for (u, v), p in P.items() if p > 0)
    return out


def close(a, b, atol, rtol=0.0):
    a = np.asarray(a, dtype=float)
    b = np.asarray(b, dtype=float)
    if a.shape != b.shape:
        return False
    both_inf = np.isinf(a) & np.isinf(b) & (np.sign(a) == np.sign(b))
    with np.errstate(invalid="ignore"):
        ok = np.abs(a - b) <= atol + rtol * np.maximum(np.abs(a), np.abs(b))
    return bool(np.all(ok | both_inf))


# --------------------------------------------------------------------------
# array presentation

def lay(a, how, fill=0):
    """Same values, different memory layout. `fill` (a valid id) pads the hidden cells."""
    a = np.asarray(a)
    T, F = a.shape
    if how == "C":
        return np.ascontiguousarray(a)
    if how == "F":
        return np.asfortranarray(a)
    if how == "rowstride":
        big = np.full((2 * T + 1, F), fill, dtype=a.dtype)
        v = big[1::2]
    elif how == "colstride":
        big = np.full((T, 2 * F + 1), fill, dtype=a.dtype)
        v = big[:, 1::2]
    elif how == "offset":
        big = np.full((T + 2, F + 3), fill, dtype=a.dtype)
        v = big[1:T + 1, 2:F + 2]
    elif how == "reversed":
        big = np.ascontiguousarray(a[::-1, ::-1])
        return big[::-1, ::-1]
    elif how == "1d":
        require(F == 1, "harness: 1d layout needs one feature")
        return np.ascontiguousarray(a[:, 0])
    elif how == "1d_strided":
        require(F == 1, "harness: 1d layout needs one feature")
        big = np.full(2 * T, fill, dtype=a.dtype)
        v = big[::2]
        v[...] = a[:, 0]
        return v
    else:
        raise ValueError(how)
    v[...] = a
    return v


def typed(rows, dtype, how, fill=0):
    a = np.array(rows, dtype=dtype)          # directly in the target dtype (uint64 maxima do not fit int64)
    if a.ndim == 1:
        a = a.reshape(len(rows), -1)
    return lay(a, how, fill)


# --------------------------------------------------------------------------
# strategies

THREADS = st.one_of(st.sampled_from([1, 2, 3, 4, 7, 8, 16]), st.integers(1, 16))
KINDS = ["iid", "cover", "cover", "const", "sticky", "skew", "copy", "cover"]


def _column(rs, T, s, kind, prev):
    if kind == "const":
        return np.full(T, rs.randint(0, s))
    if kind == "sticky":
        out, cur = [], rs.randint(0, s)
        for _ in range(T):
            if rs.rand() < 0.25:
                cur = rs.randint(0, s)
            out.append(cur)
        return np.array(out)
    if kind == "skew":
        return np.minimum(rs.geometric(0.55, T) - 1, s - 1)
    if kind == "copy" and prev is not None:
        return prev % s
    c = rs.randint(0, s, T)
    if kind == "cover" and T >= s:
        pos = rs.permutation(T)[:s]
        c[pos] = np.arange(s)
    return c


@st.composite
def side(draw, T, F, n, tiny, seed_off=0, prev=None):
    """One side's data as list of T rows of F ints; every value < n."""
    svals = [draw(st.sampled_from([n, n, max(1, n - 1), draw(st.integers(1, n))])) for _ in range(F)]
    svals[draw(st.integers(0, F - 1))] = n
    if tiny:
        cols = [draw(st.lists(st.integers(0, s - 1), min_size=T, max_size=T)) for s in svals]
        if T >= n and draw(st.booleans()):           # make every declared state appear (non-triviality rule)
            f = svals.index(n)
            for k, t in enumerate(draw(st.permutations(list(range(T))))[:n]):
                cols[f][t] = k
        return [[cols[f][t] for f in range(F)] for t in range(T)]
    seed = draw(st.integers(0, 2 ** 31 - 1))
    rs = np.random.RandomState(seed)
    cols = []
    for s in svals:
        kind = draw(st.sampled_from(KINDS))
        src = None
        if kind == "copy":
            pool = cols + ([] if prev is None else [np.array(prev)[:, k] for k in range(len(prev[0]))])
            if pool:
                src = pool[draw(st.integers(0, len(pool) - 1))]
        cols.append(_column(rs, T, s, kind, src))
    return np.stack(cols, axis=1).astype(int).tolist()


def _decl(draw, data, n):
    how = draw(st.sampled_from(["none", "exact", "exact", "extra"]))
    if how == "none":
        return None
    if how == "exact":
        return n
    return n + draw(st.integers(1, 3))


def _layout(draw, F):
    opts = LAYOUTS + (["1d", "1d_strided"] if F == 1 else [])
    return draw(st.sampled_from(opts))


@st.composite
def pair_case(draw, max_T=60, max_F=5, max_S=6, allow_self=True, min_T=1):
    tiny = draw(st.integers(0, 3)) == 0
    T = draw(st.integers(min_T, max(min_T, 10))) if tiny else draw(
        st.one_of(st.integers(min_T, max(min_T, 24)), st.integers(min_T, max_T)))
    Fx = draw(st.integers(1, max_F))
    n_x = draw(st.integers(2, max_S))
    X = draw(side(T, Fx, n_x, tiny))
    case = {"X": X, "nx": _decl(draw, X, n_x), "dx": draw(st.sampled_from(INT_DTYPES)), "lx": _layout(draw, Fx),
            "threads": draw(THREADS)}
    if allow_self and draw(st.sampled_from([False] * 7 + [True])):
        case.update({"Y": None, "ny": None, "dy": None, "ly": None})
        return case
    Fy = draw(st.one_of(st.integers(1, max_F), st.just(Fx)))
    n_y = draw(st.one_of(st.integers(2, max_S), st.just(n_x)))
    Y = draw(side(T, Fy, n_y, tiny, prev=X))
    case.update({"Y": Y, "ny": _decl(draw, Y, n_y), "dy": draw(st.sampled_from(INT_DTYPES)),
                 "ly": _layout(draw, Fy)})
    return case


def build_pair(case):
    """-> X0, Y0 (int64 2-D), Xa, Ya (typed, laid out; Ya None for self), nx, ny (effective)."""
    X0 = np.array(case["X"], dtype=np.int64).reshape(len(case["X"]), -1)
    Xa = typed(case["X"], case["dx"], case["lx"])
    nx = case["nx"] if case["nx"] is not None else int(X0.max()) + 1
    if case["Y"] is None:
        return X0, X0, Xa, None, nx, nx
    Y0 = np.array(case["Y"], dtype=np.int64).reshape(len(case["Y"]), -1)
    Ya = typed(case["Y"], case["dy"], case["ly"])
    ny = case["ny"] if case["ny"] is not None else int(Y0.max()) + 1
    return X0, Y0, Xa, Ya, nx, ny


def lib_counts(case, Xa, Ya, threads=None):
    with warnings.catch_warnings():
        warnings.simplefilter("ignore")
        with omp(threads or case["threads"]):
            if Ya is None:
                if case["nx"] is None:
                    return mutual_info.joint_counts(Xa)
                return mutual_info.joint_counts(Xa, n_x=case["nx"])
            return mutual_info.joint_counts(Xa, Ya, case["nx"], case["ny"])


def lib_mi(jc):
    with warnings.catch_warnings():
        warnings.simplefilter("ignore")
        return mutual_info.mutual_information(jc)


def pair_info(case, X0, Y0, nx, ny, extra=()):
    Fx, Fy = X0.shape[1], Y0.shape[1]
    covered = (set(np.unique(X0).tolist()) == set(range(nx)) and set(np.unique(Y0).tolist()) == set(range(ny)))
    nt = (Fx != Fy or nx != ny) and covered and case["Y"] is not None
    cl = ["dx=%s" % case["dx"], "lx=%s" % case["lx"], "threads=%d" % case["threads"],
          "self" if case["Y"] is None else "dy=%s" % case["dy"],
          "Fx!=Fy" if Fx != Fy else "Fx==Fy", "nx!=ny" if nx != ny else "nx==ny",
          "n_decl=%s" % ("none" if case["nx"] is None else "exact" if case["nx"] == int(X0.max()) + 1 else "extra"),
          "T<=10" if len(X0) <= 10 else "T<=60" if len(X0) <= 60 else "T>60",
          "covered=%s" % covered]
    if case["Y"] is not None:
        cl.append("ly=%s" % case["ly"])
        cl.append("mixed_dtype" if case["dx"] != case["dy"] else "same_dtype")
    return Info(nt, cl + list(extra))


# --------------------------------------------------------------------------
# clause 1: exact joint counts (dtype x layout x threads)

def check_table(jc, ref, what):
    require(isinstance(jc, np.ndarray), "%s: result is not an ndarray" % what, type=type(jc))
    require(jc.shape == ref.shape, "%s: shape differs from (F_x, F_y, n_x, n_y)" % what, got=jc.shape, want=ref.shape)
    require(np.issubdtype(jc.dtype, np.integer), "%s: counts are not integers" % what, dtype=jc.dtype)
    if not np.array_equal(jc.astype(np.int64), ref):
        bad = np.argwhere(jc.astype(np.int64) != ref)
        k = tuple(bad[0])
        require(False, "%s: joint counts differ from the literal count" % what, n_bad=len(bad), first_cell=k,
                got=int(jc[k]), want=int(ref[k]))


def run_counts(case):
    X0, Y0, Xa, Ya, nx, ny = build_pair(case)
    ref = ref_counts(X0, Y0, nx, ny)
    xb, yb = Xa.copy(), None if Ya is None else Ya.copy()
    jc = lib_counts(case, Xa, Ya)
    check_table(jc, ref, "joint_counts")
    require(int(jc.sum()) == len(X0) * X0.shape[1] * Y0.shape[1], "total count != T*F_x*F_y")
    require(np.array_equal(Xa, xb) and (Ya is None or np.array_equal(Ya, yb)), "joint_counts modified its input")
    extra = []
    # the kernel itself, when the dtypes already agree
    if Ya is not None and case["dx"] == case["dy"] and Xa.ndim == 2 and Ya.ndim == 2:
        with omp(case["threads"]):
            k = libinfo.matrix_bincount2d(Xa, Ya, nx, ny)
        check_table(k, ref, "matrix_bincount2d")
        extra.append("kernel_direct")
        with omp(case["threads"]):
            b1 = libinfo.bincount2d(np.ascontiguousarray(Xa[:, 0]), np.ascontiguousarray(Ya[:, -1]), nx, ny)
        check_table(b1[None, None], ref[:1, -1:], "bincount2d")
    return pair_info(case, X0, Y0, nx, ny, extra)


def exhaustive_counts(tier, shard, nshards):
    if tier != "thorough":
        return None

    def gen():
        import itertools
        idx = 0
        for T in (1, 2, 3):
            for xs in itertools.product(range(2), repeat=T):
                for ys in itertools.product(range(3), repeat=T):
                    for dx in INT_DTYPES:
                        for dy in INT_DTYPES:
                            idx += 1
                            if idx % nshards != shard:
                                continue
                            yield {"X": [[v] for v in xs], "Y": [[v] for v in ys], "nx": 2, "ny": 3, "dx": dx,
                                   "dy": dy, "lx": "C", "ly": "C", "threads": 1 + idx % 3}
    return gen()


# --------------------------------------------------------------------------
# clause 2: same table for every layout and thread count (race search by repetition)

@st.composite
def threads_case(draw, max_T=40, max_F=20, long_T=0):
    if long_T:
        # many frames over few states: every cell is hit thousands of times, so a lost update would show
        T = draw(st.integers(long_T // 4, long_T))
        Fx, Fy = draw(st.integers(1, 6)), draw(st.integers(1, 3))
        n_x, n_y = draw(st.integers(2, 3)), draw(st.integers(2, 3))
        return {"seed": draw(st.integers(0, 2 ** 31 - 1)), "T": T, "Fx": Fx, "Fy": Fy,
                "nx": n_x, "ny": n_y, "dx": draw(st.sampled_from(INT_DTYPES)), "dy": draw(st.sampled_from(INT_DTYPES)),
                "threads": sorted(set(draw(st.lists(st.sampled_from([2, 3, 4, 8, 16]), min_size=2, max_size=3)))),
                "layouts": [draw(st.sampled_from(LAYOUTS))], "repeat": draw(st.integers(2, 4))}
    T = draw(st.integers(1, max_T))
    Fx = draw(st.one_of(st.integers(1, max_F), st.integers(max(1, max_F - 6), max_F)))
    Fy = draw(st.integers(1, 4))
    n_x, n_y = draw(st.integers(2, 5)), draw(st.integers(2, 5))
    X = draw(side(T, Fx, n_x, False))
    Y = draw(side(T, Fy, n_y, False, prev=X))
    return {"X": X, "Y": Y, "nx": n_x, "ny": n_y, "dx": draw(st.sampled_from(INT_DTYPES)),
            "dy": draw(st.sampled_from(INT_DTYPES)), "threads": sorted(set(draw(st.lists(THREADS, min_size=2, max_size=4)))),
            "layouts": draw(st.lists(st.sampled_from(LAYOUTS), min_size=1, max_size=3, unique=True)),
            "repeat": draw(st.integers(1, 3))}


def run_threads(case):
    if "seed" in case:       # long trajectories are regenerated from the Hypothesis-drawn seed stored in the case
        rs = np.random.RandomState(case["seed"])
        case = dict(case, X=rs.randint(0, case["nx"], (case["T"], case["Fx"])),
                    Y=rs.randint(0, case["ny"], (case["T"], case["Fy"])))
    X0 = np.array(case["X"], dtype=np.int64)
    Y0 = np.array(case["Y"], dtype=np.int64)
    ref = ref_counts(X0, Y0, case["nx"], case["ny"])
    cl = []
    for how in case["layouts"]:
        Xa, Ya = typed(case["X"], case["dx"], how), typed(case["Y"], case["dy"], how)
        for n in case["threads"]:
            for _ in range(case["repeat"]):
                with warnings.catch_warnings():
                    warnings.simplefilter("ignore")
                    with omp(n):
                        jc = mutual_info.joint_counts(Xa, Ya, case["nx"], case["ny"])
                check_table(jc, ref, "joint_counts[layout=%s, threads=%d]" % (how, n))
            cl.append("threads=%d" % n)
        cl.append("layout=%s" % how)
    Fx = X0.shape[1]
    cl.append("Fx>=16" if Fx >= 16 else "Fx>=8" if Fx >= 8 else "Fx<8")
    cl.append("T>=5000" if len(X0) >= 5000 else "T<5000")
    return Info(Fx > 1 and max(case["threads"]) > 1 and len(case["threads"]) > 1, cl)


# --------------------------------------------------------------------------
# clauses 3-5: MI value, non-negativity, upper bound

def run_mi_value(case):
    X0, Y0, Xa, Ya, nx, ny = build_pair(case)
    ref = ref_counts(X0, Y0, nx, ny)
    want = ref_mi(ref)
    jc = lib_counts(case, Xa, Ya)
    got = lib_mi(jc)
    require(isinstance(got, np.ndarray) and got.shape == want.shape, "MI matrix has the wrong shape",
            got=getattr(got, "shape", None), want=want.shape)
    require(close(got, want, ATOL_MI), "mutual_information(joint_counts(X, Y)) differs from the reference MI",
            got=got.tolist(), want=want.tolist())
    got2 = lib_mi(ref)      # the int64 reference table handed to the library
    require(close(got2, want, ATOL_MI), "mutual_information(reference int64 counts) differs from the reference MI",
            got=got2.tolist(), want=want.tolist())
    return pair_info(case, X0, Y0, nx, ny)


def run_mi_nonneg(case):
    X0, Y0, Xa, Ya, nx, ny = build_pair(case)
    got = lib_mi(lib_counts(case, Xa, Ya))
    require(bool(np.all(np.isfinite(got))), "MI is not finite", got=got.tolist())
    require(bool(np.all(got >= -ATOL_MI)), "mutual information is negative", min=float(got.min()), got=got.tolist())
    return pair_info(case, X0, Y0, nx, ny, ["mi_zero" if float(got.max()) < 1e-9 else "mi_pos"])


def run_mi_bound(case):
    X0, Y0, Xa, Ya, nx, ny = build_pair(case)
    got = lib_mi(lib_counts(case, Xa, Ya))
    Hx = [ref_entropy_counts(np.bincount(X0[:, a], minlength=nx)) for a in range(X0.shape[1])]
    Hy = [ref_entropy_counts(np.bincount(Y0[:, b], minlength=ny)) for b in range(Y0.shape[1])]
    tight = False
    for a in range(len(Hx)):
        for b in range(len(Hy)):
            lim = min(Hx[a], Hy[b])
            require(got[a, b] <= lim + ATOL_MI, "MI exceeds the smaller marginal entropy", pair=(a, b),
                    mi=float(got[a, b]), Hx=Hx[a], Hy=Hy[b])
            tight = tight or (lim > 0.1 and got[a, b] >= lim - 1e-9)
    return pair_info(case, X0, Y0, nx, ny, ["bound_tight" if tight else "bound_slack"])


# --------------------------------------------------------------------------
# clauses 6-7: a data set against itself: symmetric, diagonal = Shannon entropy

@st.composite
def self_case(draw, max_T=60, max_F=5, max_S=6):
    c = draw(pair_case(max_T, max_F, max_S, allow_self=False))
    c["how"] = draw(st.sampled_from(["Y=None", "Y=X", "Y=copy", "mi_matrix"]))
    c["n_list"] = draw(st.booleans())
    c["ly"] = _layout(draw, len(c["X"][0]))       # layout of the second copy of X
    c["Y"] = "X"
    return c


def self_mi(case):
    X0 = np.array(case["X"], dtype=np.int64)
    Xa = typed(case["X"], case["dx"], case["lx"])
    if Xa.ndim == 1 and case["how"] == "mi_matrix":
        Xa = Xa[:, None]
    nx = case["nx"] if case["nx"] is not None else int(X0.max()) + 1
    with warnings.catch_warnings():
        warnings.simplefilter("ignore")
        with omp(case["threads"]):
            if case["how"] == "Y=None":
                jc = mutual_info.joint_counts(Xa) if case["nx"] is None else mutual_info.joint_counts(Xa, n_x=nx)
                mi = mutual_info.mutual_information(jc)
            elif case["how"] == "Y=X":
                mi = mutual_info.mutual_information(mutual_info.joint_counts(Xa, Xa, case["nx"], case["nx"]))
            elif case["how"] == "Y=copy":
                Yb = typed(case["X"], case["dy"], case["ly"])
                mi = mutual_info.mutual_information(mutual_info.joint_counts(Xa, Yb, case["nx"], case["nx"]))
            else:
                n = [nx] * X0.shape[1] if case["n_list"] else nx
                mi = mutual_info.mi_matrix([Xa], [Xa], n, n, normalize=False)
    return X0, nx, mi


def self_info(case, X0, nx, mi, extra):
    F = X0.shape[1]
    covered = set(np.unique(X0).tolist()) == set(range(nx))
    offdiag = F > 1 and float(np.abs(mi - np.diag(np.diag(mi))).max()) > 1e-6
    return Info(F >= 2 and covered and offdiag,
                ["dx=%s" % case["dx"], "lx=%s" % case["lx"], "threads=%d" % case["threads"], "how=" + case["how"],
                 "F=%d" % min(F, 3), "offdiag_pos" if offdiag else "offdiag_zero", "covered=%s" % covered,
                 "n_decl=%s" % ("none" if case["nx"] is None else "given")] + list(extra))


def run_self_symmetric(case):
    X0, nx, mi = self_mi(case)
    F = X0.shape[1]
    require(mi.shape == (F, F), "self-MI is not F x F", shape=mi.shape)
    require(close(mi, mi.T, ATOL_MI), "MI of a data set against itself is not symmetric",
            asym=float(np.abs(mi - mi.T).max()), mi=mi.tolist())
    return self_info(case, X0, nx, mi, [])


def run_self_diag(case):
    X0, nx, mi = self_mi(case)
    cl = ["how=" + case["how"]]
    for a in range(X0.shape[1]):
        marg = np.bincount(X0[:, a], minlength=nx)
        H = ref_entropy_counts(marg)
        require(abs(mi[a, a] - H) <= ATOL_MI, "diagonal MI differs from the Shannon entropy of the feature",
                feature=a, mi=float(mi[a, a]), H=H)
        with warnings.catch_warnings():
            warnings.simplefilter("ignore")
            Hl = entropy.shannon_entropy(marg)
        require(abs(mi[a, a] - Hl) <= ATOL_MI, "diagonal MI differs from entropy.shannon_entropy(marginal)",
                feature=a, mi=float(mi[a, a]), H_lib=float(Hl), H_ref=H)
        cl.append("marg_has_zero" if (marg == 0).any() else "marg_full")
    return self_info(case, X0, nx, mi, cl[1:])


# --------------------------------------------------------------------------
# clauses 8-9: relabelling states / reordering frames

@st.composite
def relabel_case(draw, max_T=60):
    c = draw(pair_case(max_T, allow_self=False))
    X0, Y0, _, _, nx, ny = build_pair(c)
    c["nx"], c["ny"] = nx, ny          # relabelling needs an explicit range
    c["px"] = [draw(st.permutations(list(range(nx)))) for _ in range(X0.shape[1])]
    c["py"] = [draw(st.permutations(list(range(ny)))) for _ in range(Y0.shape[1])]
    return c


def run_relabel(case):
    X0, Y0, Xa, Ya, nx, ny = build_pair(case)
    jc = lib_counts(case, Xa, Ya)
    mi = lib_mi(jc)
    X1 = np.stack([np.array(case["px"][a])[X0[:, a]] for a in range(X0.shape[1])], axis=1)
    Y1 = np.stack([np.array(case["py"][b])[Y0[:, b]] for b in range(Y0.shape[1])], axis=1)
    c1 = dict(case, X=X1.tolist(), Y=Y1.tolist())
    _, _, Xb, Yb, _, _ = build_pair(c1)
    jc1 = lib_counts(c1, Xb, Yb)
    for a in range(X0.shape[1]):
        for b in range(Y0.shape[1]):
            want = np.zeros((nx, ny), dtype=np.int64)
            want[np.ix_(case["px"][a], case["py"][b])] = jc[a, b]
            require(np.array_equal(jc1[a, b].astype(np.int64), want),
                    "relabelled data do not give the relabelled count table", pair=(a, b))
    mi1 = lib_mi(jc1)
    require(close(mi, mi1, ATOL_MI), "MI changed under a relabelling of states", before=mi.tolist(),
            after=mi1.tolist(), px=case["px"], py=case["py"])
    require(close(mi1, ref_mi(ref_counts(X0, Y0, nx, ny)), ATOL_MI), "relabelled MI differs from the reference MI")
    moved = any(p != sorted(p) for p in case["px"] + case["py"])
    return pair_info(case, X0, Y0, nx, ny, ["perm_nontrivial" if moved else "perm_identity"])


@st.composite
def reorder_case(draw, max_T=60):
    c = draw(pair_case(max_T, allow_self=False, min_T=2))
    T = len(c["X"])
    c["perm"] = draw(st.permutations(list(range(T)))) if T <= 12 else \
        np.random.RandomState(draw(st.integers(0, 2 ** 31 - 1))).permutation(T).tolist()
    return c


def run_reorder(case):
    X0, Y0, Xa, Ya, nx, ny = build_pair(case)
    jc = lib_counts(case, Xa, Ya)
    p = np.array(case["perm"])
    c1 = dict(case, X=X0[p].tolist(), Y=Y0[p].tolist())
    _, _, Xb, Yb, _, _ = build_pair(c1)
    jc1 = lib_counts(c1, Xb, Yb)
    require(np.array_equal(jc, jc1), "joint counts changed when the frames were reordered")
    mi, mi1 = lib_mi(jc), lib_mi(jc1)
    require(close(mi, mi1, ATOL_MI), "MI changed when the frames were reordered", before=mi.tolist(),
            after=mi1.tolist())
    # X and Y permuted *differently* must in general change the table: guards a vacuous oracle
    moved = not np.array_equal(X0[p], X0) or not np.array_equal(Y0[p], Y0)
    return pair_info(case, X0, Y0, nx, ny, ["frames_moved" if moved else "frames_same"])


# --------------------------------------------------------------------------
# clause 10: several trajectories -> pooled counts

@st.composite
def pooled_case(draw, max_T=40, max_traj=4, max_F=4, max_S=5):
    k = draw(st.integers(1, max_traj))
    Fx = draw(st.integers(1, max_F))
    Fy = draw(st.one_of(st.integers(1, max_F), st.just(Fx)))
    n_x = draw(st.integers(2, max_S))
    n_y = draw(st.one_of(st.integers(2, max_S), st.just(n_x)))
    equal_len = draw(st.booleans())
    T0 = draw(st.integers(1, max_T))
    Xs, Ys, dts = [], [], []
    for _ in range(k):
        T = T0 if equal_len else draw(st.integers(1, max_T))
        tiny = T <= 6 and draw(st.booleans())
        X = draw(side(T, Fx, n_x, tiny))
        Y = draw(side(T, Fy, n_y, tiny, prev=X))
        Xs.append(X)
        Ys.append(Y)
        dts.append([draw(st.sampled_from(INT_DTYPES)), draw(st.sampled_from(INT_DTYPES))])
    lens = set(len(x) for x in Xs)
    # RaggedArray's equal-length fast path loses the dtype (finding of C05/C15), so it is only used for ragged data
    cont = draw(st.sampled_from(["list", "gen"] + (["ragged", "ragged"] if len(lens) > 1 else []) +
                                (["array3d", "array3d"] if len(lens) == 1 else [])))
    if cont in ("ragged", "array3d"):
        dts = [dts[0]] * k
    nxl = [n_x] * Fx
    nyl = [n_y] * Fy
    return {"Xs": Xs, "Ys": Ys, "dtypes": dts, "container": cont,
            "nx": draw(st.sampled_from([n_x, nxl, [max(2, draw(st.integers(2, n_x))) for _ in range(Fx - 1)] + [n_x]])),
            "ny": draw(st.sampled_from([n_y, nyl, [n_y] + [max(2, draw(st.integers(2, n_y))) for _ in range(Fy - 1)]])),
            "n_x": n_x, "n_y": n_y, "threads": draw(THREADS), "layout": draw(st.sampled_from(LAYOUTS))}


def pooled_args(case):
    k = len(case["Xs"])
    how = case["layout"]
    Xa = [typed(case["Xs"][i], case["dtypes"][i][0], how) for i in range(k)]
    Ya = [typed(case["Ys"][i], case["dtypes"][i][1], how) for i in range(k)]
    c = case["container"]
    if c == "list":
        return Xa, Ya
    if c == "gen":
        return (x for x in Xa), (y for y in Ya)
    if c == "array3d":
        return np.stack(Xa), np.stack(Ya)
    lens = [len(x) for x in Xa]
    return (ra.RaggedArray(array=np.concatenate(Xa), lengths=lens),
            ra.RaggedArray(array=np.concatenate(Ya), lengths=lens))


def as_list(n, F):
    return list(n) if isinstance(n, (list, tuple)) else [n] * F


def run_pooled(case):
    Xs = [np.array(x, dtype=np.int64) for x in case["Xs"]]
    Ys = [np.array(y, dtype=np.int64) for y in case["Ys"]]
    nx, ny = case["n_x"], case["n_y"]
    pooled = sum(ref_counts(x, y, nx, ny) for x, y in zip(Xs, Ys))
    want = ref_mi(pooled)
    A, B = pooled_args(case)
    with warnings.catch_warnings():
        warnings.simplefilter("ignore")
        with omp(case["threads"]):
            got = mutual_info.mi_matrix(A, B, case["nx"], case["ny"], normalize=False)
    require(got.shape == want.shape, "mi_matrix has the wrong shape", got=got.shape, want=want.shape)
    require(close(got, want, ATOL_MI), "mi_matrix over several trajectories is not the MI of the pooled counts",
            got=got.tolist(), want=want.tolist())
    # what it must NOT be (only informative: tells whether the case can tell pooling from averaging)
    per = [ref_mi(ref_counts(x, y, nx, ny)) for x, y in zip(Xs, Ys)]
    lens = np.array([len(x) for x in Xs], dtype=float)
    avg = sum(m * w for m, w in zip(per, lens / lens.sum()))
    discriminates = not close(avg, want, 1e-6)
    Fx, Fy = Xs[0].shape[1], Ys[0].shape[1]
    allx, ally = np.concatenate(Xs), np.concatenate(Ys)
    covered = set(np.unique(allx).tolist()) == set(range(nx)) and set(np.unique(ally).tolist()) == set(range(ny))
    nt = len(Xs) >= 2 and (Fx != Fy or nx != ny) and covered and discriminates
    return Info(nt, ["container=" + case["container"], "ntraj=%d" % len(Xs),
                     "lengths_%s" % ("equal" if len(set(len(x) for x in Xs)) == 1 else "differ"),
                     "pool!=avg" if discriminates else "pool==avg", "Fx!=Fy" if Fx != Fy else "Fx==Fy",
                     "n_x_is_%s" % ("list" if isinstance(case["nx"], list) else "int"), "threads=%d" % case["threads"]])


# --------------------------------------------------------------------------
# clauses 11-12: weighted estimator

@st.composite
def weighted_case(draw, max_T=40, max_F=4, max_S=5, kinds=("uniform_1/T", "uniform_ones", "uniform_c")):
    T = draw(st.integers(1, max_T))
    F = draw(st.integers(1, max_F))
    n = draw(st.integers(2, max_S))
    tiny = T <= 8 and draw(st.booleans())
    X = draw(side(T, F, n, tiny))
    kind = draw(st.sampled_from(list(kinds)))
    if kind == "uniform_1/T":
        w = [1.0 / T] * T
    elif kind == "uniform_ones":
        w = [1.0] * T
    elif kind == "uniform_c":
        w = [draw(st.sampled_from([0.5, 3.0, 1e-3, 7.0]))] * T
    elif kind == "integer":                      # whole numbers, handed over as floats
        w = [float(v) for v in draw(st.lists(st.integers(0, 5), min_size=T, max_size=T))]
    elif kind == "zeros":
        w = [draw(st.sampled_from([0.0, 0.0, 1.0, 0.25, 2.5])) for _ in range(T)]
    else:
        w = [draw(st.integers(1, 1000)) / 1000.0 for _ in range(T)]
    if not any(v > 0 for v in w):
        w[draw(st.integers(0, T - 1))] = 1.0
    obs = int(np.max(X)) + 1
    ns = draw(st.sampled_from(["none", "exact", "perfeature", "extra"]))
    if ns == "none":
        nfs = None
    elif ns == "exact":
        nfs = [max(2, obs)] * F
    elif ns == "perfeature":
        nfs = [max(2, int(np.max(np.array(X)[:, f])) + 1 + draw(st.integers(0, 1))) for f in range(F)]
    else:
        nfs = [max(2, obs) + draw(st.integers(0, 2)) for _ in range(F)]
    dt = draw(st.sampled_from(INT_DTYPES + (["bool"] if obs <= 2 else [])))
    return {"X": X, "w": w, "wkind": kind, "nfs": nfs, "normalize": draw(st.booleans()) and (nfs is not None or obs >= 2),
            "dtype": dt, "layout": draw(st.sampled_from(LAYOUTS)), "w_as": draw(st.sampled_from(["list", "array"])),
            "nfs_as": draw(st.sampled_from(["list", "array"]))}


def call_weighted(case):
    X0 = np.array(case["X"], dtype=np.int64)
    Xa = lay(X0.astype(case["dtype"]), case["layout"])
    w = case["w"] if case["w_as"] == "list" else np.array(case["w"], dtype=float)
    nfs = case["nfs"]
    if nfs is not None and case["nfs_as"] == "array":
        nfs = np.array(nfs)
    xb = Xa.copy()
    wb = list(case["w"])
    with warnings.catch_warnings():
        warnings.simplefilter("ignore")
        got = mutual_info.weighted_mi(Xa, w, n_feature_states=nfs, normalize=case["normalize"])
    require(np.array_equal(Xa, xb), "weighted_mi modified the features")
    require(list(np.asarray(w).tolist()) == wb, "weighted_mi modified the caller's weights")
    return X0, got


def weighted_norm(case, X0):
    F = X0.shape[1]
    n = case["nfs"] if case["nfs"] is not None else [int(X0.max()) + 1] * F
    return np.array([[math.log(min(n[i], n[j])) for j in range(F)] for i in range(F)])


def weighted_classes(case, X0):
    return ["w=" + case["wkind"], "nfs=%s" % ("none" if case["nfs"] is None else "given"),
            "normalize=%s" % case["normalize"], "dtype=" + case["dtype"], "F=%d" % min(X0.shape[1], 3)]


def run_weighted_uniform(case):
    X0, got = call_weighted(case)
    F = X0.shape[1]
    obs = int(X0.max()) + 1
    with warnings.catch_warnings():
        warnings.simplefilter("ignore")
        lib = mutual_info.mutual_information(mutual_info.joint_counts(np.ascontiguousarray(X0)))
    want = ref_mi(ref_counts(X0, X0, obs, obs))
    if case["normalize"]:
        d = weighted_norm(case, X0)
        lib, want = lib / d, want / d
    require(got.shape == (F, F), "weighted_mi result is not F x F", shape=got.shape)
    require(close(got, lib, ATOL_W), "weighted_mi under uniform weights differs from the count-based MI",
            weighted=got.tolist(), counted=lib.tolist())
    require(close(got, want, ATOL_W), "weighted_mi under uniform weights differs from the reference MI",
            weighted=got.tolist(), want=want.tolist())
    nt = F >= 2 and float(want.max()) > 1e-6 and len(X0) >= 2
    return Info(nt, weighted_classes(case, X0))


def run_weighted_general(case):
    X0, got = call_weighted(case)
    want = ref_weighted_mi(X0, [float(v) for v in case["w"]], None)
    if case["normalize"]:
        want = want / weighted_norm(case, X0)
    require(close(got, want, ATOL_W), "weighted_mi differs from the reference weighted MI", got=got.tolist(),
            want=want.tolist(), w=case["w"])
    require(bool(np.all(got >= 0)), "weighted_mi is negative", got=got.tolist())
    if case["wkind"] == "integer":
        rep = np.repeat(X0, np.array(case["w"], dtype=int), axis=0)
        obs = int(X0.max()) + 1
        w2 = ref_mi(ref_counts(rep, rep, obs, obs))
        if case["normalize"]:
            w2 = w2 / weighted_norm(case, X0)
        require(close(got, w2, ATOL_W), "integer weights are not equivalent to repeating frames", got=got.tolist(),
                want=w2.tolist())
    nt = X0.shape[1] >= 2 and len(set(case["w"])) > 1 and float(want.max()) > 1e-6
    return Info(nt, weighted_classes(case, X0) + ["has_zero_weight" if 0 in case["w"] else "all_positive"])


# --------------------------------------------------------------------------
# clause 13-14: channel-capacity normalisation (direct and through mi_matrix)

@st.composite
def cc_case(draw, max_F=5, max_S=9):
    Fx = draw(st.integers(1, max_F))
    Fy = draw(st.one_of(st.integers(1, max_F), st.just(Fx)))
    mi = [[draw(st.integers(0, 4000)) / 1000.0 for _ in range(Fy)] for _ in range(Fx)]
    fx = draw(st.sampled_from(["int", "list", "array", "array"]))
    fy = draw(st.sampled_from(["int", "list", "array", "array"]))
    nx = draw(st.integers(2, max_S)) if fx == "int" else [draw(st.integers(2, max_S)) for _ in range(Fx)]
    ny = draw(st.integers(2, max_S)) if fy == "int" else [draw(st.integers(2, max_S)) for _ in range(Fy)]
    return {"mi": mi, "nx": nx, "ny": ny, "fx": fx, "fy": fy,
            "n_dtype": draw(st.sampled_from(["int64", "int32", "int16", "uint8"]))}


def cc_classes(nx, ny, Fx, Fy):
    a, b = as_list(nx, Fx), as_list(ny, Fy)
    nt = a != b
    return nt, ["Fx!=Fy" if Fx != Fy else "Fx==Fy", "n_values_%s" % ("equal" if a == b else "differ"),
                "grid_symmetric" if (Fx == Fy and all(min(a[i], b[j]) == min(a[j], b[i]) for i in range(Fx)
                                                        for j in range(Fy))) else "grid_asymmetric"]


def run_cc(case):
    mi = np.array(case["mi"], dtype=float)
    Fx, Fy = mi.shape
    conv = {"int": lambda v: v, "list": lambda v: list(v),
            "array": lambda v: np.array(v, dtype=case["n_dtype"])}
    nx, ny = conv[case["fx"]](case["nx"]), conv[case["fy"]](case["ny"])
    before = mi.copy()
    got = mutual_info.channel_capacity_normalization(mi, nx, ny)
    require(np.array_equal(mi, before), "channel_capacity_normalization modified its input")
    a, b = as_list(case["nx"], Fx), as_list(case["ny"], Fy)
    want = np.array([[mi[i, j] / math.log(min(a[i], b[j])) for j in range(Fy)] for i in range(Fx)])
    require(got.shape == want.shape, "normalised matrix has the wrong shape", got=got.shape, want=want.shape)
    require(close(got, want, 1e-13, 1e-12), "entry (i, j) is not mi[i, j] / log(min(n_x[i], n_y[j]))",
            got=got.tolist(), want=want.tolist(), n_x=a, n_y=b)
    nt, cl = cc_classes(case["nx"], case["ny"], Fx, Fy)
    return Info(nt and float(mi.max()) > 0, cl + ["n_x=" + case["fx"], "n_y=" + case["fy"]] +
                (["both_n_arrays_dtype=" + case["n_dtype"]] if case["fx"] == case["fy"] == "array" else []))


@st.composite
def cc_e2e_case(draw, max_T=40):
    c = draw(pooled_case(max_T=max_T, max_traj=2))
    Fx, Fy = len(c["Xs"][0][0]), len(c["Ys"][0][0])
    for key, F, n in (("nx", Fx, c["n_x"]), ("ny", Fy, c["n_y"])):
        if draw(st.booleans()):
            # per-feature declared counts: any value >= 2; the largest must cover the observed ids
            v = [draw(st.integers(2, n + 2)) for _ in range(F)]
            v[draw(st.integers(0, F - 1))] = n + draw(st.integers(0, 2))
            c[key] = v
    return c


def run_cc_e2e(case):
    Xs = [np.array(x, dtype=np.int64) for x in case["Xs"]]
    Ys = [np.array(y, dtype=np.int64) for y in case["Ys"]]
    Fx, Fy = Xs[0].shape[1], Ys[0].shape[1]
    a, b = as_list(case["nx"], Fx), as_list(case["ny"], Fy)
    nx, ny = max(a), max(b)
    mi = ref_mi(sum(ref_counts(x, y, nx, ny) for x, y in zip(Xs, Ys)))
    want = np.array([[mi[i, j] / math.log(min(a[i], b[j])) for j in range(Fy)] for i in range(Fx)])
    A, B = pooled_args(case)
    with warnings.catch_warnings():
        warnings.simplefilter("ignore")
        with omp(case["threads"]):
            got = mutual_info.mi_matrix(A, B, case["nx"], case["ny"])      # normalize=True is the default
    require(got.shape == want.shape, "normalised mi_matrix has the wrong shape", got=got.shape, want=want.shape)
    require(close(got, want, ATOL_MI, 1e-12), "mi_matrix(normalize=True)[i, j] is not MI / log(min(n_x[i], n_y[j]))",
            got=got.tolist(), want=want.tolist(), n_x=a, n_y=b)
    nt, cl = cc_classes(case["nx"], case["ny"], Fx, Fy)
    return Info(nt and float(mi.max()) > 1e-6, cl + ["container=" + case["container"]])


# --------------------------------------------------------------------------
# clauses 15-16: relative entropy, Shannon entropy

def _dist(draw, n, zeros):
    if draw(st.integers(0, 3)) == 0:
        # arbitrary floats (Dirichlet draw from a Hypothesis-drawn seed), optionally with exact zeros
        rs = np.random.RandomState(draw(st.integers(0, 2 ** 31 - 1)))
        v = rs.dirichlet(np.full(n, draw(st.sampled_from([0.3, 1.0, 5.0])))) + 1e-6
        if zeros and n > 1:
            v[rs.rand(n) < 0.3] = 0.0
            if not v.any():
                v[0] = 1.0
        v = v / v.sum()
        return [float(x) for x in v]
    tot = draw(st.sampled_from([1, 2, 3, 7, 10, 64, 100, 200]))
    cuts = sorted(draw(st.lists(st.integers(0, tot), min_size=n - 1, max_size=n - 1)))
    parts = [b - a for a, b in zip([0] + cuts, cuts + [tot])]
    if not zeros and 0 in parts:
        parts = [p + 1 for p in parts]
    s = sum(parts)
    return [p / s for p in parts]


@st.composite
def kl_case(draw, max_n=8, max_rows=4):
    n = draw(st.integers(1, max_n))
    rows = draw(st.integers(1, max_rows))
    one_d = rows == 1 and draw(st.booleans())
    P, Q = [], []
    for _ in range(rows):
        p = _dist(draw, n, True)
        rel = draw(st.sampled_from(["equal", "different", "different", "q_positive", "permuted"]))
        if rel == "equal":
            q = list(p)
        elif rel == "permuted":
            q = draw(st.permutations(p))
        else:
            q = _dist(draw, n, rel != "q_positive")
        P.append(p)
        Q.append(q)
    return {"P": P[0] if one_d else P, "Q": Q[0] if one_d else Q, "one_d": one_d,
            "base": draw(st.sampled_from([None, 2, math.e, 10, 3.5])),
            "as": draw(st.sampled_from(["list", "array", "strided", "matrix", "masked"]))}


def run_kl(case):
    P = [case["P"]] if case["one_d"] else case["P"]
    Q = [case["Q"]] if case["one_d"] else case["Q"]
    def strided(v):
        v = np.array(v, dtype=float)
        big = np.full(v.shape[:-1] + (2 * v.shape[-1],), 0.123)
        big[..., ::2] = v
        return big[..., ::2]
    def as_matrix(v):
        # what `sparse.todense()` returns (rows of a sparse transition matrix): ndarray sub-class with matrix-product `*`
        a_ = np.array(v, dtype=float)
        with warnings.catch_warnings():
            warnings.simplefilter("ignore")
            return np.matrix(a_) if a_.ndim == 2 else a_
    conv = {"list": lambda v: v, "array": lambda v: np.array(v, dtype=float), "strided": strided, "matrix": as_matrix,
            "masked": lambda v: np.ma.masked_array(np.array(v, dtype=float))}[case["as"]]
    a, b = conv(case["P"]), conv(case["Q"])
    kw = {} if case["base"] is None else {"base": case["base"]}
    base = 2 if case["base"] is None else case["base"]
    with warnings.catch_warnings():
        warnings.simplefilter("ignore")
        got = entropy.kl_divergence(a, b, **kw)
    got = np.atleast_1d(np.asarray(got, dtype=float))
    require(got.shape == (len(P),), "kl_divergence returns one value per distribution", shape=got.shape)
    cl = ["1d" if case["one_d"] else "2d", "base=%s" % ("default" if case["base"] is None else "given")]
    nt = False
    for r, (p, q) in enumerate(zip(P, Q)):
        want = ref_kl(p, q, base)
        g = float(got[r])
        require(not math.isnan(g), "relative entropy is NaN", row=r, p=p, q=q)
        require(g >= -1e-12, "relative entropy is negative", row=r, got=g, p=p, q=q)
        if p == q:
            require(g == 0.0, "relative entropy of equal distributions is not exactly zero", row=r, got=g, p=p)
            cl.append("equal")
        else:
            l1 = sum(abs(x - y) for x, y in zip(p, q))
            # Pinsker: KL_nats >= L1^2/2 (only asserted where that is far above rounding noise)
            if l1 >= 1e-4:
                require(g >= 0.25 * l1 * l1 / math.log(base),
                        "relative entropy of different distributions is (near) zero", row=r, got=g, p=p, q=q)
            cl.append("inf" if math.isinf(want) else "finite_pos")
        require(close(g, want, 1e-12, 1e-12), "kl_divergence differs from sum p log(p/q)", row=r, got=g, want=want,
                p=p, q=q, base=base)
        if 0 in p:
            cl.append("p_has_zero")
        nt = nt or (0 in p and p != q)
    return Info(nt, cl)


@st.composite
def shannon_case(draw, max_n=8):
    n = draw(st.integers(1, max_n))
    rows = draw(st.sampled_from([0, 0, 1, 2, 3]))          # 0 -> vector, else a joint (multivariate) table
    m = max(rows, 1) * n
    tot = draw(st.sampled_from([1, 3, 10, 97, 1000]))
    cuts = sorted(draw(st.lists(st.integers(0, tot), min_size=m - 1, max_size=m - 1)))
    parts = [b - a for a, b in zip([0] + cuts, cuts + [tot])]
    if draw(st.booleans()) and 0 in parts:
        parts = [p + 1 for p in parts]
    case = {"counts": parts, "rows": rows, "normalize": draw(st.sampled_from([True, True, False, None])),
            "give": draw(st.sampled_from(["counts", "probs", "scaled"]))}
    if draw(st.integers(0, 3)) == 0:
        case["probs"] = _dist(draw, m, True)       # arbitrary floats instead of a rational grid
        case["give"] = draw(st.sampled_from(["probs", "scaled"]))
    return case


def run_shannon(case):
    c = case["counts"]
    tot = sum(c)
    p = [v / tot for v in c]
    if "probs" in case:
        p = case["probs"]
        c = [1 if v > 0 else 0 for v in p]
    norm = case["normalize"]
    give = case["give"] if norm is not False else "probs"      # without normalisation only a distribution is valid
    data = {"counts": np.array(c, dtype=np.int64), "probs": np.array(p), "scaled": np.array(p) * 3.75}[give]
    if case["rows"]:
        data = data.reshape(case["rows"], -1)
    before = data.copy()
    kw = {} if norm is None else {"normalize": norm}
    with warnings.catch_warnings():
        warnings.simplefilter("ignore")
        got = float(entropy.shannon_entropy(data, **kw))
    want = ref_entropy_p(p)
    require(np.array_equal(data, before), "shannon_entropy modified its argument")
    require(close(got, want, 1e-12, 1e-12), "shannon_entropy differs from -sum p log p (0 log 0 = 0)", got=got,
            want=want, p=p, normalize=norm)
    require(got >= -1e-12 and got <= math.log(len(p)) + 1e-12, "entropy outside [0, log n]", got=got, n=len(p))
    return Info(0 in c and len([v for v in c if v]) > 1,
                ["normalize=%s" % norm, "give=" + give, "zeros" if 0 in c else "no_zeros",
                 "table" if case["rows"] else "vector", "float_p" if "probs" in case else "grid_p"])


# --------------------------------------------------------------------------
# child-process machinery (clauses 17-18)

_ASAN = {}


def asan_setup():
    """Build (once, under the harness' build lock) the ASan+UBSan variant; -> (src path, libasan) or None."""
    if "v" not in _ASAN:
        _ASAN["v"] = None
        try:
            from vf import build
            r = subprocess.run(["gcc", "-print-file-name=libasan.so"], capture_output=True, text=True)
            lib = os.path.realpath(r.stdout.strip())
            if r.returncode == 0 and os.path.isfile(lib):
                _ASAN["v"] = (build.ensure(asan=True), lib)
        except Exception as e:       # no compiler / sanitizer runtime here: the clause is skipped, not failed
            _ASAN["err"] = repr(e)
    return _ASAN["v"]


def spawn(items, asan=False, timeout=900):
    """Evaluate `items` in a fresh interpreter. -> (results, died)"""
    env = dict(os.environ)
    env["PYTHONHASHSEED"] = "0"
    env.setdefault("OMP_WAIT_POLICY", "PASSIVE")
    if asan:
        src, lib = asan_setup()
        env.update({"C18_CHILD_SRC": src, "LD_PRELOAD": lib,
                    "ASAN_OPTIONS": "detect_leaks=0:abort_on_error=0:exitcode=99:allocator_may_return_null=1",
                    "UBSAN_OPTIONS": "print_stacktrace=1:halt_on_error=1:exitcode=98"})
    cmd = [PY, os.path.abspath(__file__), "--child"]
    try:
        p = subprocess.run(cmd, input=json.dumps(items), capture_output=True, text=True, cwd=VERIF, env=env,
                           timeout=timeout, preexec_fn=_lift_memory_limit)
        out, err, rc = p.stdout, p.stderr, p.returncode
    except subprocess.TimeoutExpired as e:
        out = e.stdout.decode() if isinstance(e.stdout, bytes) else (e.stdout or "")
        err, rc = "timeout after %ss" % timeout, "timeout"
    results, ended = [], False
    for line in out.splitlines():
        if line.startswith("@@R "):
            results.append(json.loads(line[4:]))
        elif line.startswith("@@END"):
            ended = True
    died = None
    k = err.find("ERROR: AddressSanitizer")
    if k < 0:
        k = err.find("runtime error:")
    if not ended:
        died = {"index": len(results), "rc": rc, "stderr": err[k:k + 1500] if k >= 0 else err[-1500:]}
    elif rc != 0 or k >= 0:
        died = {"index": len(items), "rc": rc, "stderr": err[k:k + 1500] if k >= 0 else err[-1500:]}
    return results, died


def _child_args(item):
    th = item.get("threads", 1)
    api = item["api"]
    if api == "weighted_mi":
        X = lay(np.array(item["X"], dtype=np.int64).astype(item["dx"]), item.get("lx", "C"))
        return th, lambda: mutual_info.weighted_mi(X, np.array(item["w"], dtype=float), n_feature_states=item["nfs"],
                                                   normalize=False)
    if api == "mi_matrix":
        Xs = [typed(x, item["dx"], item["lx"]) for x in item["Xs"]]
        Ys = Xs if item.get("same") else [typed(y, item["dy"], item["ly"]) for y in item["Ys"]]
        return th, lambda: mutual_info.mi_matrix(Xs, Ys, item["nx"], item["ny"], normalize=False)
    X = typed(item["X"], item["dx"], item["lx"], fill=0)
    undeclared = item.get("declare") is False and api != "kernel"
    if item.get("Y") is None:
        if item["nx"] is None or undeclared:
            return th, lambda: mutual_info.joint_counts(X)
        return th, lambda: mutual_info.joint_counts(X, n_x=item["nx"])
    Y = X if item.get("same") else typed(item["Y"], item["dy"], item["ly"], fill=0)
    if undeclared:
        fn = lambda: mutual_info.joint_counts(X, Y)
    elif api == "kernel":
        fn = lambda: libinfo.matrix_bincount2d(X, Y, item["nx"], item["ny"])
    else:
        fn = lambda: mutual_info.joint_counts(X, Y, item["nx"], item["ny"])
    if item.get("first_valid") and item.get("expect") == "raise":
        bad = [(A, A.copy()) for A in ([X] if Y is X else [X, Y])]
        for A, n_ in ((X, item["nx"]), (Y, item["ny"])):
            A[...] = np.clip(A, 0, min(item["nx"], item["ny"]) - 1 if Y is X else n_ - 1)
        with omp(th):
            fn()                         # valid contents: counted (result not needed)
        for A, keep in bad:
            A[...] = keep                # the bad id arrives in the same objects
    return th, fn


def child_eval(item):
    try:
        th, fn = _child_args(item)
    except Exception as e:      # a mistake of the check, not of the library
        return {"outcome": "harness_error", "msg": "%s: %s" % (type(e).__name__, str(e)[:300])}
    try:
        with warnings.catch_warnings():
            warnings.simplefilter("ignore")
            with omp(th):
                res = fn()
    except Exception as e:
        return {"outcome": "raised", "type": type(e).__name__, "msg": str(e)[:200]}
    res = np.asarray(res)
    out = {"outcome": "returned", "shape": list(res.shape), "dtype": str(res.dtype)}
    if item.get("want") == "counts" and res.ndim == 4 and res.size <= 5 * 10 ** 7:
        nz = np.argwhere(res != 0)
        out["nz"] = [list(map(int, k)) + [int(res[tuple(k)])] for k in nz[:5000]]
        out["total"] = int(res.astype(np.int64).sum())
    return out


def _child_main():
    items = json.loads(sys.stdin.read())
    for it in items:
        r = child_eval(it)
        sys.stdout.write("@@R " + json.dumps(r) + "\n")
        sys.stdout.flush()
        if it.get("expect") == "raise" and r["outcome"] != "raised":
            break       # memory may be corrupted from here on; the parent reports this item
    sys.stdout.write("@@END\n")
    sys.stdout.flush()


# --------------------------------------------------------------------------
# clause 17: invalid inputs are rejected (never counted elsewhere, never written out of bounds)

def _neg_values(dtype, n):
    lo = int(np.iinfo(dtype).min)
    # also ids whose low 32 bits look like a valid state (2**32 - k is -k for a 32-bit reader, -2**32 + 1 is 1)
    return [v for v in [-1, -1, -2, -n, -n - 1, -7, -128, -1000, lo, -2 ** 32, -2 ** 32 + 1, -2 ** 40 + 1, lo + 1] if v >= lo]


@st.composite
def invalid_item(draw):
    kind = draw(st.sampled_from(["neg", "neg", "neg", "big", "big", "len", "len", "neg_self", "big_self",
                                 "neg_mi_matrix", "len_mi_matrix", "neg_weighted", "len_weighted",
                                 "big_same_object", "big_same_object"]))
    if kind == "big_same_object":
        # the SAME array object on both sides, valid for the declared n_x but not for the smaller declared n_y
        T = draw(st.integers(1, 12))
        F = draw(st.integers(1, 3))
        n_x = draw(st.integers(3, 6))
        n_y = draw(st.integers(2, n_x - 1))
        X = draw(side(T, F, n_x, True))
        X[draw(st.integers(0, T - 1))][draw(st.integers(0, F - 1))] = draw(st.integers(n_y, n_x - 1))
        api = draw(st.sampled_from(["joint_counts", "kernel", "mi_matrix"]))
        dx = draw(st.sampled_from(INT_DTYPES))
        item = {"kind": kind, "api": api, "expect": "raise", "threads": draw(st.sampled_from([1, 2, 16])),
                "lx": draw(st.sampled_from(LAYOUTS)), "ly": "C", "nx": n_x, "ny": n_y, "dx": dx, "dy": dx, "same": True}
        if api == "mi_matrix":
            item.update({"Xs": [X], "Ys": [X]})
        else:
            item.update({"X": X, "Y": X})
            item["first_valid"] = draw(st.booleans())
        return item
    T = draw(st.integers(1, 12))
    Fx, Fy = draw(st.integers(1, 3)), draw(st.integers(1, 3))
    n_x, n_y = draw(st.integers(2, 5)), draw(st.integers(2, 5))
    X = draw(side(T, Fx, n_x, True))
    Y = draw(side(T, Fy, n_y, True))
    api = {"neg_self": "joint_counts", "big_self": "joint_counts", "neg_mi_matrix": "mi_matrix",
           "len_mi_matrix": "mi_matrix", "neg_weighted": "weighted_mi", "len_weighted": "weighted_mi"}.get(kind)
    if api is None:
        api = draw(st.sampled_from(["joint_counts", "joint_counts", "kernel"]))
    two_d = api in ("kernel", "mi_matrix", "weighted_mi")       # these take 2-D arrays only
    dx = draw(st.sampled_from(INT_DTYPES))
    dy = dx if api == "kernel" else draw(st.sampled_from(INT_DTYPES))
    which = ""
    if kind.startswith("neg"):
        which = "x" if kind in ("neg_self", "neg_weighted") else draw(st.sampled_from(["x", "y", "xy"]))
        if api == "kernel":
            dx = dy = draw(st.sampled_from(SIGNED))
        else:
            if "x" in which:
                dx = draw(st.sampled_from(SIGNED))
            if "y" in which:
                dy = draw(st.sampled_from(SIGNED))
    item = {"kind": kind, "api": api, "expect": "raise", "threads": draw(st.sampled_from([1, 1, 2, 4, 16])),
            "lx": draw(st.sampled_from(LAYOUTS)) if two_d else _layout(draw, Fx),
            "ly": draw(st.sampled_from(LAYOUTS)) if two_d else _layout(draw, Fy),
            "nx": n_x, "ny": n_y, "dx": dx, "dy": dy}
    t = draw(st.integers(0, T - 1))
    if kind.startswith("neg"):
        # negative ids are refused whether or not the state counts are declared (with undeclared counts the library
        # infers them from the data - a negative id is outside every range)
        item["declare"] = draw(st.sampled_from([True, True, False]))
        if "x" in which:
            X[t][draw(st.integers(0, Fx - 1))] = draw(st.sampled_from(_neg_values(dx, n_x)))
        if "y" in which:
            Y[draw(st.integers(0, T - 1))][draw(st.integers(0, Fy - 1))] = draw(st.sampled_from(_neg_values(dy, n_y)))
    elif kind.startswith("big"):
        if kind == "big_self" or draw(st.booleans()):
            hi = int(np.iinfo(dx).max)
            X[t][draw(st.integers(0, Fx - 1))] = min(hi, draw(st.sampled_from([n_x, n_x, n_x + 1, n_x + 5, 127, hi, 2 ** 32, 2 ** 32 + 1,
                                                                                2 ** 40 + 1, 2 ** 63 + 1])))
        else:
            hi = int(np.iinfo(dy).max)
            Y[t][draw(st.integers(0, Fy - 1))] = min(hi, draw(st.sampled_from([n_y, n_y, n_y + 1, n_y + 5, 127, hi, 2 ** 32, 2 ** 32 + 1,
                                                                                2 ** 40 + 1, 2 ** 63 + 1])))
    elif kind in ("len", "len_mi_matrix"):
        T2 = draw(st.sampled_from([v for v in range(1, 15) if v != T]))
        Y = draw(side(T2, Fy, n_y, True))
    if kind in ("neg_self", "big_self"):
        item.update({"X": X, "Y": None})
    elif api == "mi_matrix":
        Xs, Ys = [X], [Y]
        if draw(st.booleans()):
            pos = draw(st.integers(0, 1))
            Xs.insert(pos, draw(side(T, Fx, n_x, True)))
            Ys.insert(pos, draw(side(T, Fy, n_y, True)))
        item.update({"Xs": Xs, "Ys": Ys})
    elif kind == "neg_weighted":
        item.update({"X": X, "w": [1.0] * T, "nfs": [n_x] * Fx})
    elif kind == "len_weighted":
        T2 = draw(st.sampled_from([v for v in range(1, 15) if v != T]))
        item.update({"X": X, "w": [1.0] * T2, "nfs": [n_x] * Fx})
    else:
        item.update({"X": X, "Y": Y})
        if kind in ("neg", "big"):
            # the SAME array objects were counted once while their contents were still valid (a reused chunk buffer); the
            # bad id is written into them in place afterwards
            item["first_valid"] = draw(st.sampled_from([False, False, True]))
    return item


def _batch(item, hi):
    # the size is drawn first (shrinks towards one item), so that batches are not dominated by short lists
    return st.sampled_from(list(range(1, hi + 1))).flatmap(
        lambda k: st.lists(item, min_size=k, max_size=k)).map(lambda v: {"items": v})


def invalid_batch(hi=14):
    return _batch(invalid_item(), hi)


def _reaches_kernel_negative(it):
    """True when dtype harmonisation keeps the negative id negative (so only a min() check can stop it)."""
    if not it["kind"].startswith("neg") or it["api"] == "weighted_mi":
        return False
    if it["api"] in ("kernel",) or it.get("Y", 0) is None:
        return True
    dx, dy = np.dtype(it["dx"]), np.dtype(it["dy"])
    if dx == dy:
        return True
    tgt = dx if dx.itemsize > dy.itemsize else dy
    return tgt.kind == "i"


def check_invalid_item(i, it, r):
    require(r["outcome"] == "raised",
            "invalid input (%s) was accepted: %s returned normally instead of raising" % (it["kind"], it["api"]),
            item=i, dx=it.get("dx"), dy=it.get("dy"), nx=it.get("nx"), ny=it.get("ny"), shape=r.get("shape"),
            X=it.get("X", it.get("Xs")), Y=it.get("Y", it.get("Ys")))
    k = _reaches_kernel_negative(it)
    cl = ["kind=" + it["kind"], "api=" + it["api"], "raised=" + r["type"],
          "same_objects_counted_before_with_valid_contents=%s" % bool(it.get("first_valid"))]
    if it["kind"].startswith("neg"):
        cl.append("neg_reaches_kernel" if k else "neg_wrapped_or_numpy")
    return k, cl


def run_batch(case, check, asan=False):
    """Evaluate the items of a batch in one child; `check(i, item, result)` -> (nontrivial, classes)."""
    items = case["items"]
    results, died = spawn(items, asan=asan)
    cl, nt = [], False
    for i, it in enumerate(items):
        if i >= len(results):
            require(False, "%s input crashed the interpreter%s" % (
                "invalid" if it.get("expect") == "raise" else "valid", " (sanitizer report)" if asan else ""),
                item=i, kind=it.get("kind", it.get("scenario", "valid")), api=it["api"], rc=died and died["rc"],
                dx=it.get("dx"), dy=it.get("dy"), nx=it.get("nx"), ny=it.get("ny"), X=it.get("X", it.get("Xs")),
                Y=it.get("Y", it.get("Ys")), stderr=(died or {}).get("stderr", "")[:600])
        r = results[i]
        if r["outcome"] == "harness_error":
            raise RuntimeError("c18 child could not build item %d: %s" % (i, r["msg"]))
        n_, c_ = check(i, it, r)
        nt = nt or n_
        cl += c_
    if died is not None:
        require(False, "child process failed after the last item (exit status / sanitizer report)", rc=died["rc"],
                stderr=died["stderr"][:600])
    return Info(nt, cl)


def run_invalid(case):
    return run_batch(case, check_invalid_item)


# --------------------------------------------------------------------------
# clause 18: valid inputs whose ids do not fit the *other* side's / a narrower dtype, or sit at the dtype's
# maximum (exactness "for every integer element type").  Valid, but a wrong cast would write out of bounds,
# hence evaluated in the child as well.

WIDE_HI = [127, 128, 129, 200, 255, 256, 300, 1000, 32767, 32768, 40000, 65535]


@st.composite
def wide_item(draw):
    scen = draw(st.sampled_from(["same_size_mixed", "same_size_mixed", "narrower_other", "narrower_other",
                                 "dtype_max", "dtype_max", "free"]))
    self_ = scen in ("dtype_max", "free") and draw(st.sampled_from([True, False, False]))
    T = draw(st.integers(1, 10))
    Fx, Fy = draw(st.integers(1, 2)), draw(st.integers(1, 2))
    small = st.integers(1, 5)
    if scen == "same_size_mixed":
        bits = draw(st.sampled_from([8, 8, 16]))
        u, i = "uint%d" % bits, "int%d" % bits
        smax = 2 ** (bits - 1) - 1
        wide = draw(st.sampled_from([smax + 1, smax + 2, 2 ** bits - 1, 200 if bits == 8 else 40000]))
        if draw(st.sampled_from([True, True, False])):
            dx, dy, hx, hy = u, i, wide, draw(small | st.just(smax))       # X unsigned and wide, Y signed
        else:
            dx, dy, hx, hy = i, u, draw(small | st.just(smax)), wide
    elif scen == "narrower_other":
        wd = draw(st.sampled_from(["int16", "uint16", "int32", "uint32", "int64", "uint64"]))
        nd = draw(st.sampled_from(["int8", "uint8"] + (["int16", "uint16"] if np.dtype(wd).itemsize > 2 else [])))
        over = int(np.iinfo(nd).max) + draw(st.sampled_from([1, 2, 45]))
        wide = min(over, int(np.iinfo(wd).max))
        if draw(st.booleans()):
            dx, dy, hx, hy = wd, nd, wide, draw(small)
        else:
            dx, dy, hx, hy = nd, wd, draw(small), wide
    elif scen == "dtype_max":
        dx = draw(st.sampled_from(["int8", "uint8", "int8", "uint8", "int16", "uint16"]))
        dy = draw(st.sampled_from(INT_DTYPES))
        hx, hy = int(np.iinfo(dx).max), draw(small)
        if draw(st.booleans()) and not self_:
            dx, dy, hx, hy = dy, dx, hy, hx
    else:
        dx, dy = draw(st.sampled_from(INT_DTYPES)), draw(st.sampled_from(INT_DTYPES))
        hx = draw(st.sampled_from([h for h in WIDE_HI if h <= int(np.iinfo(dx).max)]))
        hy = draw(small)
    if self_:
        hx = min(hx, 600)                         # the table of X against itself is n_x * n_x per feature pair
    if (hx + 3) * (hy + 3) * Fx * Fy > 4 * 10 ** 6:
        hy = draw(small)
    his = {"x": hx, "y": hy}

    def col_vals(hi):
        cand = [hi, hi, hi - 1, hi // 2, 0, 1]
        return st.sampled_from([v for v in cand if 0 <= v <= hi]) | st.integers(0, hi)
    X = [[draw(col_vals(his["x"])) for _ in range(Fx)] for _ in range(T)]
    Y = [[draw(col_vals(his["y"])) for _ in range(Fy)] for _ in range(T)]
    X[draw(st.integers(0, T - 1))][draw(st.integers(0, Fx - 1))] = his["x"]
    Y[draw(st.integers(0, T - 1))][draw(st.integers(0, Fy - 1))] = his["y"]
    decl = draw(st.sampled_from(["none", "none", "exact", "exact", "extra"] if scen == "dtype_max" else
                                ["none", "exact", "exact", "extra"]))
    nx = None if decl == "none" else his["x"] + 1 + (2 if decl == "extra" else 0)
    ny = None if decl == "none" else his["y"] + 1 + (2 if decl == "extra" else 0)
    return {"api": "joint_counts", "want": "counts", "scenario": scen, "X": X, "Y": None if self_ else Y,
            "dx": dx, "dy": dy, "nx": nx, "ny": None if self_ else ny, "lx": draw(st.sampled_from(LAYOUTS)),
            "ly": draw(st.sampled_from(LAYOUTS)), "threads": draw(st.sampled_from([1, 2, 5]))}


def wide_batch(hi=10):
    return _batch(wide_item(), hi)


def _wide_classes(it):
    dx = np.dtype(it["dx"])
    X = np.array(it["X"])
    cl = []
    if it["Y"] is None:
        cl.append("self")
        pairs = [(dx, X, None)]
    else:
        dy = np.dtype(it["dy"])
        Y = np.array(it["Y"])
        pairs = [(dx, X, dy), (dy, Y, dx)]
    trunc = False
    for d, A, other in pairs:
        if other is not None and other != d:
            if int(A.max()) > int(np.iinfo(other).max):
                cl.append("id_exceeds_other_dtype(%s)" % ("same_size" if other.itemsize == d.itemsize else
                                                          "narrower" if other.itemsize < d.itemsize else "wider"))
                trunc = True
        if int(A.max()) == int(np.iinfo(d).max):
            cl.append("id_at_dtype_max" + ("_default_n" if it["nx"] is None else ""))
            trunc = True
    cl.append("n_decl=%s" % ("none" if it["nx"] is None else "given"))
    cl.append("scenario=" + it.get("scenario", "?"))
    return trunc, cl


def check_valid_item(i, it, r):
    X0 = np.array(it["X"], dtype=np.int64).reshape(len(it["X"]), -1)
    Y0 = X0 if it["Y"] is None else np.array(it["Y"], dtype=np.int64).reshape(len(it["Y"]), -1)
    nx = it["nx"] if it["nx"] is not None else int(X0.max()) + 1
    ny = nx if it["Y"] is None else (it["ny"] if it["ny"] is not None else int(Y0.max()) + 1)
    require(r["outcome"] == "returned", "valid input was rejected: joint_counts raised %s: %s" %
            (r.get("type"), r.get("msg")), item=i, dx=it["dx"], dy=it["dy"], nx=it["nx"], ny=it["ny"],
            X=it["X"], Y=it["Y"])
    require(r["shape"] == [X0.shape[1], Y0.shape[1], nx, ny], "wrong table shape", item=i, got=r["shape"],
            want=[X0.shape[1], Y0.shape[1], nx, ny])
    want = {}
    for t in range(len(X0)):
        for a in range(X0.shape[1]):
            for b in range(Y0.shape[1]):
                k = (a, b, int(X0[t, a]), int(Y0[t, b]))
                want[k] = want.get(k, 0) + 1
    got = {tuple(e[:4]): e[4] for e in r["nz"]}
    require(got == want, "joint counts differ from the literal count", item=i, dx=it["dx"], dy=it["dy"],
            nx=it["nx"], ny=it["ny"], X=it["X"], Y=it["Y"], got=sorted(got.items())[:12],
            want=sorted(want.items())[:12])
    if "scenario" in it:
        return _wide_classes(it)
    return True, ["valid", "lx=%s" % it["lx"], "dx=%s" % it["dx"], "threads=%d" % it["threads"]]


def run_wide(case):
    return run_batch(case, check_valid_item)


# --------------------------------------------------------------------------
# clause 19 (thorough only): the same campaign - valid tables in every layout / dtype / thread count, wide ids,
# invalid inputs - inside the AddressSanitizer + UBSan build; any sanitizer report is a violation

def _valid_item():
    return pair_case(max_T=30).map(lambda c: dict(c, api="joint_counts", want="counts"))


def asan_batch():
    return _batch(st.one_of(_valid_item(), _valid_item(), invalid_item(), wide_item()), 16)


def run_asan(case):
    if asan_setup() is None:
        from vf.harness import Skip
        raise Skip("no sanitizer build available: %s" % _ASAN.get("err"))
    return run_batch(case, lambda i, it, r: (check_invalid_item if it.get("expect") == "raise"
                                             else check_valid_item)(i, it, r), asan=True)


# --------------------------------------------------------------------------

# --------------------------------------------------------------------------
# seeded regimes: (a) hundreds of thousands of frames (products of counts beyond 2**32), (b) the one-feature-pair
# presentation (two 1-D vectors) with many states in narrow element types (flat cell index beyond the dtype)

@st.composite
def many_frames_case(draw):
    return {"T": draw(st.sampled_from([70000, 150000, 300000])), "F": draw(st.integers(1, 3)),
            "S": draw(st.integers(2, 4)), "seed": draw(st.integers(0, 2 ** 31 - 1)),
            "dtype": draw(st.sampled_from(["int8", "uint8", "int32", "int64"])), "threads": draw(st.sampled_from([1, 4, 16])),
            "skew": draw(st.sampled_from([1.0, 3.0, 8.0])), "entry": draw(st.sampled_from(["joint_counts", "mi_matrix"])),
            # the same frames handed over as one trajectory or cut into 7 / 40 shorter ones of unequal length: the pooled
            # counts - and so the mutual information - are those of all frames (cells far beyond 2**16 either way)
            "pieces": draw(st.sampled_from([1, 1, 7, 40]))}


def run_many_frames(case):
    rng = np.random.RandomState(case["seed"])            # seed drawn by Hypothesis
    T, F, S = case["T"], case["F"], case["S"]
    p = np.exp(-case["skew"] * np.arange(S) / S)
    p /= p.sum()
    base = rng.choice(S, size=T, p=p)
    cols = []
    for f in range(F):
        noise = rng.choice(S, size=T)
        keep = rng.rand(T) < (0.9 - 0.4 * f)
        cols.append(np.where(keep, (base + f) % S, noise))
    X0 = np.stack(cols, axis=1).astype(np.int64)
    Xa = X0.astype(case["dtype"])
    ref = ref_counts(X0, X0, S, S)
    want = ref_mi(ref)
    with warnings.catch_warnings():
        warnings.simplefilter("ignore")
        with omp(case["threads"]):
            if case["entry"] == "joint_counts":
                jc = mutual_info.joint_counts(Xa, Xa, S, S)
                require(np.array_equal(np.asarray(jc).astype(np.int64), ref), "joint counts of a long trajectory are not exact")
                got = mutual_info.mutual_information(jc)
            elif case.get("pieces", 1) == 1:
                got = mutual_info.mi_matrix([Xa], [Xa], S, S, normalize=False)
            else:
                k = case["pieces"]
                cuts = sorted(set(int(c) for c in np.linspace(0, T, k + 1)[1:-1] + rng.randint(-50, 51, size=k - 1)))
                parts = [np.ascontiguousarray(x) for x in np.split(Xa, cuts) if len(x)]
                got = mutual_info.mi_matrix(parts, parts, S, S, normalize=False)
    got = np.asarray(got, dtype=float)
    require(got.shape == want.shape and close(got, want, ATOL_MI), "mutual information of a long trajectory differs from the "
            "reference MI of its exact counts", T=T, got=got.tolist(), want=want.tolist())
    require(bool(np.all(got >= -ATOL_MI)), "negative mutual information on a long trajectory", got=got.tolist())
    big = int(ref.max()) * T >= 2 ** 32
    return Info(big, ["many_T=%d" % T, "count_times_T_beyond_2^32=%s" % big, "many_entry=" + case["entry"],
                      "many_pieces=%d" % (case.get("pieces", 1) if case["entry"] == "mi_matrix" else 1)],
                key=[T, F, S, case["seed"], case["dtype"], case["entry"], case["skew"]])


@st.composite
def vec_case(draw):
    return {"T": draw(st.integers(50, 3000)), "nx": draw(st.integers(2, 40)), "ny": draw(st.integers(2, 40)),
            "dx": draw(st.sampled_from(INT_DTYPES)), "dy": draw(st.sampled_from(INT_DTYPES)),
            "seed": draw(st.integers(0, 2 ** 31 - 1)), "threads": draw(st.sampled_from([1, 3, 16])),
            "strided": draw(st.booleans()), "decl": draw(st.sampled_from(["positional", "keyword"]))}


def run_vec(case):
    rng = np.random.RandomState(case["seed"])            # seed drawn by Hypothesis
    T = case["T"]
    nx = min(case["nx"], int(np.iinfo(case["dx"]).max))
    ny = min(case["ny"], int(np.iinfo(case["dy"]).max))
    x0 = rng.randint(0, nx, size=T)
    y0 = (x0 * 7 + rng.randint(0, ny, size=T) * (rng.rand(T) < 0.5)) % ny
    x0[0], y0[0] = nx - 1, ny - 1                         # the top cell is occupied
    if case["strided"]:
        bx = np.zeros(2 * T, dtype=case["dx"]); x = bx[::2]; x[...] = x0
        by = np.zeros(2 * T, dtype=case["dy"]); y = by[1::2]; y[...] = y0
    else:
        x, y = x0.astype(case["dx"]), y0.astype(case["dy"])
    ref = ref_counts(x0.reshape(-1, 1), y0.reshape(-1, 1), nx, ny)
    with warnings.catch_warnings():
        warnings.simplefilter("ignore")
        with omp(case["threads"]):
            jc = mutual_info.joint_counts(x, y, nx, ny) if case["decl"] == "positional" else \
                mutual_info.joint_counts(x, y, n_x=nx, n_y=ny)
    jc = np.asarray(jc)
    require(jc.shape == (1, 1, nx, ny), "joint counts of two 1-D vectors do not have shape (1, 1, n_x, n_y)", got=jc.shape)
    bad = np.argwhere(jc.astype(np.int64) != ref)
    require(len(bad) == 0, "joint counts of two 1-D vectors differ from the literal count", n_bad_cells=len(bad),
            first=bad[:1].tolist(), got=int(jc[tuple(bad[0])]) if len(bad) else None,
            want=int(ref[tuple(bad[0])]) if len(bad) else None, dx=case["dx"], dy=case["dy"], nx=nx, ny=ny)
    narrow = (nx * ny > int(np.iinfo(case["dx"]).max)) or (nx * ny > int(np.iinfo(case["dy"]).max))
    return Info(narrow, ["vec_dx=" + case["dx"], "vec_dy=" + case["dy"], "cells_exceed_dtype=%s" % narrow],
                key=[T, nx, ny, case["dx"], case["dy"], case["seed"], case["strided"]])


@st.composite
def weighted_many_case(draw):
    return {"T": draw(st.sampled_from([32767, 32768, 32769, 40000, 65537, 70000])), "F": draw(st.integers(1, 3)),
            "S": draw(st.integers(2, 4)), "seed": draw(st.integers(0, 2 ** 31 - 1)),
            "weights": draw(st.sampled_from(["uniform_1/T", "uniform_ones", "random"])), "dtype": draw(st.sampled_from(["int64", "int32", "int8"]))}


def run_weighted_many(case):
    """more observations than any internal block: the weighted estimator still sees every observation"""
    rng = np.random.RandomState(case["seed"])            # seed drawn by Hypothesis
    T, F, S = case["T"], case["F"], case["S"]
    base = rng.randint(0, S, size=T)
    # the LAST observations differ in character from the bulk (all in state S-1): dropping them changes the answer
    tail = rng.randint(1, 5000)
    X0 = np.stack([np.where(rng.rand(T) < 0.8, (base + f) % S, rng.randint(0, S, size=T)) for f in range(F)], axis=1)
    X0[-tail:] = S - 1
    w = {"uniform_1/T": np.full(T, 1.0 / T), "uniform_ones": np.ones(T), "random": rng.rand(T) + 0.1}[case["weights"]]
    Xa = X0.astype(case["dtype"])
    with warnings.catch_warnings():
        warnings.simplefilter("ignore")
        got = np.asarray(mutual_info.weighted_mi(Xa, w if case["weights"] != "uniform_ones" else w.tolist(),
                                                 n_feature_states=[S] * F, normalize=False), dtype=float)
    # reference: weighted joint distribution by exact accumulation (np.add.at in float64 on sorted cells)
    wn = w / w.sum()
    want = np.zeros((F, F))
    for a_ in range(F):
        for b_ in range(F):
            P = np.zeros((S, S))
            np.add.at(P, (X0[:, a_], X0[:, b_]), wn)
            pa, pb = P.sum(axis=1), P.sum(axis=0)
            nz = P > 0
            want[a_, b_] = float((P[nz] * np.log(P[nz] / (pa[:, None] * pb[None, :])[nz])).sum())
    require(got.shape == want.shape and close(got, want, 1e-9), "weighted_mi on tens of thousands of observations differs from "
            "the weighted estimator over ALL observations", T=T, got=got.tolist(), want=want.tolist())
    if case["weights"].startswith("uniform"):
        plain = ref_mi(ref_counts(X0, X0, S, S))
        require(close(got, plain, 1e-9), "uniform weights: weighted_mi differs from the count-based MI", T=T,
                got=got.tolist(), want=plain.tolist())
    return Info(T > 32768 and T % 32768 != 0, ["wmany_T=%d" % T, "wmany_weights=" + case["weights"]],
                key=[T, F, S, case["seed"], case["weights"], case["dtype"]])


CLAUSES = [
    Clause("counts_exact", pair_case(), run_counts, quick=720, thorough=9000, exhaustive=exhaustive_counts,
           doc="joint-count tables hold the exact number of frames, for every dtype, layout, thread count"),
    Clause("counts_exact_long", pair_case(max_T=2000), run_counts, quick=0, thorough=1600),
    Clause("counts_threads_layouts", threads_case(), run_threads, quick=80, thorough=1600,
           doc="same table for every layout and 1..16 threads, up to 20 features on the parallel axis, repeated"),
    Clause("counts_threads_long", threads_case(long_T=40000), run_threads, quick=12, thorough=240,
           doc="race search: 10k-40k frames over 2-3 states, several thread counts, repeated"),
    Clause("mi_many_frames", many_frames_case(), run_many_frames, quick=32, thorough=200,
           doc="7e4..3e5 frames: exact counts and MI == reference (count products beyond 2**32)"),
    Clause("counts_1d_vectors_many_states", vec_case(), run_vec, quick=300, thorough=5000,
           doc="joint_counts(x, y) on two 1-D vectors, 2..40 states each, every integer dtype"),
    Clause("mi_value", pair_case(), run_mi_value, quick=400, thorough=6000,
           doc="mutual_information(joint counts) equals the reference MI"),
    Clause("mi_value_long", pair_case(max_T=2000), run_mi_value, quick=0, thorough=800),
    Clause("mi_nonneg", pair_case(), run_mi_nonneg, quick=320, thorough=5000, doc="MI is non-negative"),
    Clause("mi_upper_bound", pair_case(), run_mi_bound, quick=320, thorough=5000,
           doc="MI is no larger than the smaller marginal entropy"),
    Clause("self_symmetric", self_case(), run_self_symmetric, quick=320, thorough=5000,
           doc="symmetric for a data set against itself"),
    Clause("self_diag_entropy", self_case(), run_self_diag, quick=320, thorough=5000,
           doc="equal to the Shannon entropy on the diagonal"),
    Clause("relabel_states", relabel_case(), run_relabel, quick=320, thorough=5000,
           doc="unchanged by relabelling states"),
    Clause("reorder_frames", reorder_case(), run_reorder, quick=320, thorough=5000,
           doc="unchanged by reordering frames"),
    Clause("pooled_counts", pooled_case(), run_pooled, quick=400, thorough=6000,
           doc="computed from pooled counts when several trajectories are given"),
    Clause("pooled_counts_long", pooled_case(max_T=600, max_traj=6), run_pooled, quick=0, thorough=320),
    Clause("weighted_uniform", weighted_case(), run_weighted_uniform, quick=400, thorough=6000,
           doc="equal to the weighted estimator under uniform weights"),
    Clause("weighted_uniform_long", weighted_case(max_T=1000), run_weighted_uniform, quick=0, thorough=320),
    Clause("weighted_general", weighted_case(kinds=("integer", "zeros", "random", "random", "uniform_c")),
           run_weighted_general, quick=280, thorough=4000,
           doc="all weight vectors: weighted estimator equals the weighted reference / repeated frames"),
    Clause("weighted_many_observations", weighted_many_case(), run_weighted_many, quick=16, thorough=200,
           doc="32767..70000 observations: weighted_mi == weighted estimator over all observations (== count MI if uniform)"),
    Clause("cc_normalization", cc_case(), run_cc, quick=500, thorough=8000,
           doc="channel-capacity normalisation divides entry (i, j) by log(min(n_x[i], n_y[j]))"),
    Clause("cc_normalization_mi_matrix", cc_e2e_case(), run_cc_e2e, quick=280, thorough=4000,
           doc="the same through mi_matrix(normalize=True)"),
    Clause("kl_divergence", kl_case(), run_kl, quick=500, thorough=8000,
           doc="relative entropy is non-negative and zero exactly for equal distributions"),
    Clause("shannon_entropy", shannon_case(), run_shannon, quick=400, thorough=6000,
           doc="Shannon entropy equals -sum p log p with 0 log 0 = 0"),
    Clause("reject_invalid", invalid_batch(), run_invalid, quick=20, thorough=256,
           doc="negative / too large state ids and feature arrays of different lengths are rejected (child process)"),
    Clause("counts_wide_ids", wide_batch(), run_wide, quick=16, thorough=240,
           doc="exact counts when ids exceed the other side's / a narrower dtype or sit at the dtype maximum (child)"),
    Clause("asan_campaign", asan_batch(), run_asan, quick=0, thorough=128,
           doc="valid, wide-id and invalid inputs inside the ASan+UBSan build: no sanitizer report, same verdicts"),
]


# --------------------------------------------------------------------------
# matchers (only used if a finding is recorded in known_findings.json instead of being repaired)

def _m_cc_grid(case, exc):
    """C18-1: transposed min-state grid (different feature counts, or same counts but an asymmetric grid)."""
    if "mi" in case:
        Fx, Fy = len(case["mi"]), len(case["mi"][0])
    else:
        Fx, Fy = len(case["Xs"][0][0]), len(case["Ys"][0][0])
    a, b = as_list(case["nx"], Fx), as_list(case["ny"], Fy)
    if Fx != Fy:
        return isinstance(exc, ValueError) or (isinstance(exc, Violation) and 1 in (Fx, Fy))
    return isinstance(exc, Violation) and any(min(a[i], b[j]) != min(a[j], b[i]) for i in range(Fx)
                                              for j in range(Fy))


def _m_cc_log(case, exc):
    """C18-3: log of the state counts taken in float16 / float32."""
    if not isinstance(exc, Violation):
        return False
    if "mi" in case:
        return case["fx"] == case["fy"] == "array" and case["n_dtype"] in ("int8", "uint8", "int16", "uint16")
    return "w" in case and case["normalize"] and case["nfs"] is None


def _m_negative(case, exc):
    """C18-2: a negative id that is still negative when it reaches the kernel."""
    return isinstance(exc, Violation) and any(_reaches_kernel_negative(it) for it in case["items"])


def _hits_c18_4(it):
    if it.get("expect") == "raise" or "X" not in it:
        return False
    dx, X = np.dtype(it["dx"]), np.array(it["X"], dtype=object)
    if it["nx"] is None and int(X.max()) == int(np.iinfo(dx).max):
        return True
    if it["Y"] is None:
        return False
    dy, Y = np.dtype(it["dy"]), np.array(it["Y"], dtype=object)
    if it["ny"] is None and int(Y.max()) == int(np.iinfo(dy).max):
        return True
    return (dx.itemsize == dy.itemsize and dx.kind == "u" and dy.kind == "i"
            and int(X.max()) > int(np.iinfo(dy).max))


def _m_wide(case, exc):
    """C18-4: default state count at the dtype maximum / unsigned ids above the signed maximum of a same-width Y."""
    return isinstance(exc, Violation) and any(_hits_c18_4(it) for it in case["items"])


MATCHERS = {"cc_grid_transposed": _m_cc_grid, "cc_log_low_precision": _m_cc_log,
            "negative_ids_reach_kernel": _m_negative, "wide_ids_mixed_sign_or_dtype_max": _m_wide}


if __name__ == "__main__" and "--child" in sys.argv:
    _child_main()
