"""C15 - stored and bulk-loaded data come back bit-identical.

Sentence 1  ra.save -> ra.load returns the same values, element type, row order and
            row lengths for any number of rows                       -> clause `roundtrip`
Sentence 2  load(stride=s) / load(keys=K) equal slicing the full load -> clauses `stride`
            (>= 2 rows), `stride_single` (everything that goes through the
            "only one key -> plain array" shortcut), `keys`, `striped_h5`
            (enspara.mpi.io.load_h5_as_striped = keys + stride, serial world),
            `striped_npy` (enspara.mpi.io.load_npy_as_striped, one .npy per trajectory)
Sentence 3  load_as_concatenated == concatenation, in file order, of the individually
            loaded (strided, atom-selected) trajectories + their lengths, for every
            worker count and completion order                -> clauses `bulk_concat`
            (one configuration against the oracle) and `bulk_schedule` (the same
            files under two worker counts / delay patterns).

Every case that writes files does so in its own tempfile.mkdtemp() directory which is
removed in a `finally`.
"""
import os
import shutil
import tempfile
import time

import numpy as np
import tables
import mdtraj
from hypothesis import strategies as st

from vf.harness import Clause, Info, Skip, Violation, require

from enspara import ra
from enspara import mpi as ens_mpi
import enspara.util.load as ens_load

PROPERTY = "C15"
LEVEL = "exploration"
RULE = ("HDF5 clauses: Hypothesis draws a RaggedArray (1..12 rows, sometimes 98..102, thorough also 13..250; row "
        "lengths equal / ragged / one-off; element shape scalar,(1,),(3,),(2,3); dtype int8..int64,uint8..uint64,float16/32/64 "
        "(with nan/inf/-0.0/tiny/max sprinkled in),bool; built from a list of rows, from flat data + list lengths or "
        "flat data + ndarray lengths) or a plain ndarray (1-D..4-D, C/F/strided layout), compression 0..9, tag, "
        "stride 1..7 and an ordered/permuted key subset. Oracle: the list of numpy rows the case was built from "
        "(bit comparison through tobytes, dtype and shape equality, lengths, row count); stride -> rows[i][::s]; "
        "keys -> [rows[j] for j in K] where the key of row j is the j-th node PyTables lists in the file. "
        "Non-trivial: roundtrip >= 10 rows (two-digit keys) or rows of different lengths or multi-dimensional "
        "elements; stride s>=2 with a length not divisible by s and a length > s; keys a proper or permuted subset "
        "of >= 2 keys. striped_h5 / striped_npy: the same arrays (resp. 1..5 .npy files of 1..20 rows) read through "
        "mpi.io.load_h5_as_striped / load_npy_as_striped in the serial world, oracle = concatenated strided rows. "
        "Bulk clauses: 1..8 synthetic trajectories (3..10 atoms, 1..40 frames, often 1 frame after "
        "striding) written as .h5 (xtc/dcd in thorough), stride, atom_indices, kwargs vs per-file args list (per-file "
        "stride and selection), lengths hint on/off, processes in {None,1,2,3,8,16}, direct call or through "
        "mpi.io.load_trajectory_as_striped, per-file delays injected by replacing enspara.util.load.md with a proxy "
        "in the parent before the pools fork (only forked workers sleep). Oracle: np.concatenate of the source "
        "arrays sliced [::s][:, atoms] (h5 is lossless) and of mdtraj.load(f, **kw).xyz, lengths = ceil(n/s). "
        "Non-trivial: >= 3 files of different lengths, >= 2 workers and a planned inversion (an earlier file "
        "sleeps longer than a later one). distinct = distinct canonical JSON of the case.")
ASSUMPTIONS = [
    "rows have >= 1 element (PyTables cannot create zero-length CArrays); all rows of one array share dtype and element shape",
    "a one-row RaggedArray may come back as a plain ndarray (documented: a file with a single node loads as ndarray)",
    "for a plain ndarray loaded with a stride either x[::s] or x[:, ::s] is accepted (docstring and code path disagree on the axis)",
    "serial world only (mpi4py blocked -> DummyComm, rank 0 of 1); multiprocessing start method is fork",
    "global_lengths returned by load_h5_as_striped / load_npy_as_striped are only compared for stride == 1 (both return the unstrided lengths whatever the stride)",
    "old-style files (keys=None, '/array' + '/lengths') are not exercised",
    "completion order is steered by sleeps of 0..80 ms in the forked workers; the observed order is recorded as a class, not asserted",
]
SHARDS = {"quick": 4, "thorough": 16}

INT_DTYPES = ["int8", "int16", "int32", "int64", "uint8", "uint16", "uint32", "uint64"]
FLT_DTYPES = ["float32", "float64", "float16"]
DTYPES = INT_DTYPES + FLT_DTYPES + ["bool"]
ELEMS = [[], [], [], [3], [3], [2, 3], [1]]
TAGS = ["arr", "arr", "arr", "x", "traj_7"]


# --------------------------------------------------------------------------
# helpers

def mktmp():
    return tempfile.mkdtemp(prefix="c15-")


def values(rng, dtype, shape):
    n = int(np.prod(shape, dtype=int))
    if dtype == "bool":
        v = rng.rand(n) < 0.5
    elif dtype in INT_DTYPES:
        ii = np.iinfo(dtype)
        v = rng.randint(ii.min, int(ii.max) + 1, size=n, dtype=dtype)
    else:
        fi = np.finfo(dtype)
        v = (rng.standard_normal(n) * 10.0 ** rng.randint(-3, 4)).astype(dtype)
        special = np.array([np.nan, np.inf, -np.inf, -0.0, 0.0, fi.tiny, fi.max, -fi.max], dtype=dtype)
        mask = rng.rand(n) < 0.08
        v[mask] = special[rng.randint(0, len(special), size=int(mask.sum()))]
    return np.asarray(v, dtype=dtype).reshape(shape)


def make_rows(case):
    rng = np.random.RandomState(case["seed"])     # seed drawn by Hypothesis
    elem = tuple(case["elem"])
    return [values(rng, case["dtype"], (L,) + elem) for L in case["lengths"]]


def make_ndarray(case):
    rng = np.random.RandomState(case["seed"])
    shape = tuple(case["shape"])
    x = values(rng, case["dtype"], shape)
    lay = case.get("layout", "C")
    if lay == "F":
        x = np.asfortranarray(x)
    elif lay == "view":
        big = np.zeros((2 * shape[0],) + shape[1:], dtype=x.dtype)
        big[::2] = x
        x = big[::2]
    return x


def build_ragged(case, rows):
    mode = case["mode"]
    if mode == "rows":
        a = ra.RaggedArray([r.copy() for r in rows])
    elif mode == "flat_list":
        a = ra.RaggedArray(np.concatenate(rows), lengths=[int(L) for L in case["lengths"]])
    elif mode == "flat_np":
        a = ra.RaggedArray(np.concatenate(rows), lengths=np.array(case["lengths"], dtype=int))
    else:
        raise ValueError(mode)
    # guard: the object we are about to store must be the array we meant (constructor defects belong to C05)
    ok = len(a) == len(rows) and a.dtype == rows[0].dtype
    if ok:
        for i, r in enumerate(rows):
            g = np.asarray(a[i])
            if g.shape != r.shape or not bits(g, r, strict_dtype=False):
                ok = False
                break
    if not ok:
        raise Skip("RaggedArray constructor did not build the intended array (C05 domain)")
    return a


def bits(got, want, strict_dtype=True):
    got = np.asarray(got)
    if got.shape != want.shape:
        return False
    if got.dtype != want.dtype:
        if strict_dtype:
            return False
        try:
            got = got.astype(want.dtype)
        except (TypeError, ValueError):
            return False
    return np.ascontiguousarray(got).tobytes() == np.ascontiguousarray(want).tobytes()


def describe(x):
    if isinstance(x, np.ndarray):
        return "ndarray%s:%s" % (x.shape, x.dtype)
    if hasattr(x, "lengths"):
        try:
            return "RaggedArray(lengths=%s, data%s:%s)" % (list(x.lengths)[:12], x._data.shape, x._data.dtype)
        except Exception:
            return "RaggedArray(?)"
    return type(x).__name__


def check_rows(got, want_rows, what, allow_ndarray_for_single=True, **ctx):
    """`got` (library result) must be the ragged array made of want_rows, bit for bit."""
    dtype = want_rows[0].dtype
    if isinstance(got, np.ndarray):
        require(allow_ndarray_for_single and len(want_rows) == 1,
                "%s: got a plain ndarray for %d rows" % (what, len(want_rows)), got=describe(got), **ctx)
        require(got.dtype == dtype, "%s: element type changed" % what, got=str(got.dtype), want=str(dtype), **ctx)
        require(bits(got, want_rows[0]), "%s: single row differs" % what, got=describe(got),
                want=describe(want_rows[0]), got_head=np.asarray(got).ravel()[:8].tolist(),
                want_head=want_rows[0].ravel()[:8].tolist(), **ctx)
        return
    require(hasattr(got, "lengths") and hasattr(got, "_data"), "%s: result is neither ndarray nor RaggedArray" % what,
            got=type(got).__name__, **ctx)
    want_len = [len(r) for r in want_rows]
    require(len(got) == len(want_rows), "%s: number of rows differs" % what, got=len(got), want=len(want_rows),
            got_desc=describe(got), **ctx)
    require(np.array_equal(np.asarray(got.lengths), want_len), "%s: row lengths differ" % what,
            got=np.asarray(got.lengths).tolist()[:20], want=want_len[:20], **ctx)
    require(got.dtype == dtype, "%s: element type changed" % what, got=str(got.dtype), want=str(dtype), **ctx)
    flat = np.concatenate(want_rows)
    require(bits(got._data, flat), "%s: concatenated data differ" % what, got=describe(got),
            want="data%s:%s" % (flat.shape, flat.dtype), **ctx)
    for i, r in enumerate(want_rows):
        g = np.asarray(got[i])
        require(g.shape == r.shape, "%s: row %d has the wrong shape (row structure lost)" % (what, i),
                got=g.shape, want=r.shape, lengths=want_len[:12], **ctx)
        require(bits(g, r, strict_dtype=False), "%s: row %d differs (values / row order)" % (what, i),
                got_head=g.ravel()[:8].tolist(), want_head=r.ravel()[:8].tolist(), **ctx)


def node_names(path):
    """Names of the nodes in the order PyTables lists them (= the order a full load uses)."""
    with tables.open_file(path) as h:
        return [k.name for k in h.list_nodes("/")]


def ceil_div(n, s):
    return -(-int(n) // int(s))


# --------------------------------------------------------------------------
# strategies for the HDF5 clauses

def pick(draw, options):
    """sampled_from whose simplest (first) value is the most interesting one, drawn through an index so
    that Hypothesis's bias toward small values favours the front of the list."""
    return options[draw(st.integers(0, len(options) - 1))]


def spread(draw, lo, hi, first):
    """integer in [lo, hi] whose simplest value is `first` (Hypothesis favours small draws; rotate the range so
    that the favoured region is a typical value instead of the boundary)."""
    k = draw(st.integers(0, hi - lo))
    return lo + (first - lo + k) % (hi - lo + 1)


@st.composite
def row_lengths(draw, min_rows=1, big=False, max_len=9):
    kinds = ["small", "cross10", "small", "cross10", "small", "cross100", "small", "cross10", "small", "small"]
    if big:
        kinds = ["big", "small", "cross100", "cross10", "big", "small", "cross100", "big", "cross1000"]
    kind = pick(draw, kinds)
    if kind == "small":
        n = spread(draw, min_rows, 8, 3)
    elif kind == "cross10":
        n = draw(st.integers(9, 12))
    elif kind == "cross100":
        n = draw(st.integers(98, 102))
    elif kind == "cross1000":        # four-digit row keys
        n = draw(st.integers(998, 1003))
    else:
        n = draw(st.integers(13, 250))
    pattern = pick(draw, ["ragged", "equal", "one_off", "ragged"])
    if n > 12:
        max_len = min(max_len, 6)
    mid = max(1, max_len // 2)
    if pattern == "equal":
        L = spread(draw, 1, max_len, mid)
        lengths = [L] * n
    elif pattern == "one_off":
        L = spread(draw, 1, max_len, mid)
        lengths = [L] * n
        lengths[draw(st.integers(0, n - 1))] = spread(draw, 1, max_len, mid + 1)
    elif n <= 12:
        lengths = [spread(draw, 1, max_len, mid) for _ in range(n)]
    else:
        base = draw(st.integers(1, 3))
        k = draw(st.integers(1, 7))
        mod = draw(st.integers(2, max(2, max_len - base)))
        lengths = [base + (i * k) % mod for i in range(n)]
    return lengths


@st.composite
def ragged_case(draw, min_rows=1, big=False, with_stride=False, with_keys=False):
    lengths = draw(row_lengths(min_rows=min_rows, big=big, max_len=16 if with_stride else 9))
    elem = draw(st.sampled_from(ELEMS))
    equal = all(L == lengths[0] for L in lengths)
    modes = ["rows", "rows", "flat_list"]
    if not (equal and elem):
        # flat data + ndarray lengths with equal multi-dimensional rows is RaggedArray.__init__'s rectangular
        # fast path (a constructor question, C05); every other combination builds the intended array
        modes.append("flat_np")
    case = {"kind": "ragged", "lengths": lengths, "elem": elem,
            "dtype": draw(st.sampled_from(DTYPES)), "seed": draw(st.integers(0, 2 ** 31 - 1)),
            "mode": draw(st.sampled_from(modes)),
            "complevel": draw(st.sampled_from([0, 1, 1, 2, 3, 4, 5, 6, 7, 8, 9])),
            "tag": draw(st.sampled_from(TAGS))}
    if with_stride:
        top = max(2, min(7, max(lengths) + 1))
        kind = pick(draw, ["any", "divides", "any", "any", "beyond", "divides"])
        if kind == "divides":
            L = draw(st.sampled_from(lengths))
            divs = [d for d in range(1, 8) if L % d == 0]
            case["stride"] = draw(st.sampled_from(divs))
        elif kind == "beyond":
            case["stride"] = draw(st.integers(max(lengths), max(lengths) + 2))
        else:
            case["stride"] = draw(st.integers(1, top))
    if with_keys:
        n = len(lengths)
        how = draw(st.sampled_from(["subset", "subset", "permuted", "all", "pair"]))
        if how == "all":
            keys = list(range(n))
        elif how == "pair":
            i = draw(st.integers(0, n - 1))
            j = draw(st.integers(0, n - 2))
            j = j if j < i else j + 1
            keys = [i, j]
        else:
            if n <= 12:
                mask = draw(st.lists(st.booleans(), min_size=n, max_size=n))
            else:
                a = draw(st.integers(0, n - 1))
                step = draw(st.integers(1, 11))
                mask = [(i - a) % step == 0 for i in range(n)]
            keys = [i for i in range(n) if mask[i]]
            if len(keys) < 2:
                keys = sorted(set(keys + [0, n - 1]))
            if how == "permuted":
                keys = draw(st.permutations(keys))
        case["keys"] = [int(k) for k in keys]
        case["stride"] = draw(st.sampled_from([1, 1, 2, 3]))
    return case


@st.composite
def ndarray_case(draw, with_stride=False):
    nd = pick(draw, [2, 3, 1, 4, 2, 3])
    n = pick(draw, [5, 10, 3, 1, 9, 11, 2, 30, 100, 101])
    tail = {1: [], 2: [draw(st.integers(1, 7))], 3: [draw(st.integers(1, 6)), draw(st.sampled_from([1, 3]))],
            4: [draw(st.integers(1, 4)), 2, 3]}[nd]
    case = {"kind": "ndarray", "shape": [n] + tail, "dtype": draw(st.sampled_from(DTYPES)),
            "seed": draw(st.integers(0, 2 ** 31 - 1)), "layout": pick(draw, ["C", "F", "view", "C"]),
            "complevel": draw(st.sampled_from([0, 1, 1, 5, 9])), "tag": draw(st.sampled_from(TAGS))}
    if with_stride:
        case["stride"] = spread(draw, 1, 7, 2)
    return case


@st.composite
def roundtrip_case(draw, big=False):
    if draw(st.integers(0, 4)) == 0:
        return draw(ndarray_case())
    case = draw(ragged_case(min_rows=1, big=big))
    case["pre_append"] = draw(st.sampled_from([None, None, 1, 2, 5]))
    return case


@st.composite
def resave_case(draw):
    case = draw(roundtrip_case())
    case["presave"] = {"kind": draw(st.sampled_from(["ragged", "ragged", "ndarray"])),
                       "extra_rows": draw(st.sampled_from([0, 1, 3, 12])),
                       "dtype": draw(st.sampled_from(["int64", "float32", "int8"])),
                       "tag": draw(st.sampled_from(["arr", "arr", "old"]))}
    return case


@st.composite
def single_case(draw, big=False):
    """Everything that reaches ra.load's "only one key" shortcut together with a stride."""
    entry = pick(draw, ["ragged1", "ndarray", "one_key", "striped1", "ragged1"])
    if entry == "ndarray":
        case = draw(ndarray_case(with_stride=True))
    elif entry == "one_key":
        case = draw(ragged_case(min_rows=2, big=big))
        case["key"] = draw(st.integers(0, len(case["lengths"]) - 1))
    else:
        case = draw(ragged_case(min_rows=1))
        case["lengths"] = [spread(draw, 1, 30, 11)]
        if case["mode"] == "flat_np" and case["elem"]:
            case["mode"] = "rows"
    if entry != "ndarray":
        L = case["lengths"][case.get("key", 0)]
        case["stride"] = pick(draw, [2, 3, 1, 4, 5, 7, L, 2, 3, L + 1])
    case["entry"] = entry
    return case


@st.composite
def striped_case(draw, big=False):
    launcher = draw(st.sampled_from([None, None, 2, 3, 4]))
    if draw(st.integers(0, 5)) == 0:
        case = draw(ndarray_case())
        case["stride"] = 1
        case["launcher"] = launcher
        return case
    case = draw(ragged_case(min_rows=2, big=big, with_stride=True))
    case["launcher"] = launcher
    return case


# --------------------------------------------------------------------------
# runs for the HDF5 clauses

def saved(case, d):
    """Build the array of the case, store it with ra.save, return (path, rows, is_ndarray)."""
    path = os.path.join(d, "a.h5")
    pre = case.get("presave")
    if pre:
        # the target path already holds an earlier save (a re-run of an analysis writes over its old output)
        n_old = (len(case["lengths"]) if case["kind"] != "ndarray" else 1) + pre["extra_rows"]
        old_rows = [np.full((1 + (k % 3),), 7 + k % 100, dtype=pre["dtype"]) for k in range(n_old)]
        if pre["kind"] == "ndarray":
            ra.save(path, np.arange(12, dtype=pre["dtype"]).reshape(3, 4), tag=pre["tag"])
        else:
            ra.save(path, ra.RaggedArray(old_rows), tag=pre["tag"])
    if case["kind"] == "ndarray":
        x = make_ndarray(case)
        rows = [np.ascontiguousarray(x)]
        obj = x
    else:
        rows = make_rows(case)
        k_pre = case.get("pre_append")
        if k_pre and len(rows) >= 2 and not case["elem"] and len(set(len(r) for r in rows)) > 1:
            # the array is not fresh: it was built from its first rows, looked at (element, column slice, starts), and
            # the remaining rows were appended before it is saved
            cut = max(1, min(len(rows) - 1, k_pre))
            obj = ra.RaggedArray([r.copy() for r in rows[:cut]])
            _ = obj[0, 0], obj.starts, obj[:, :1]
            obj.append(ra.RaggedArray([r.copy() for r in rows[cut:]]))
        else:
            obj = build_ragged(case, rows)
    ra.save(path, obj, compression_level=case["complevel"], tag=case["tag"])
    return path, rows


def base_classes(case):
    if case["kind"] == "ndarray":
        return ["kind=ndarray", "ndim=%d" % len(case["shape"]), "layout=" + case["layout"],
                "dtype=" + case["dtype"], "complevel=%s" % ("0" if case["complevel"] == 0 else ">0"),
                "rows=" + rows_bucket(case["shape"][0])]
    lengths = case["lengths"]
    equal = all(L == lengths[0] for L in lengths)
    return ["kind=ragged", "rows=" + rows_bucket(len(lengths)), "elem=%s" % (tuple(case["elem"]),),
            "lengths=%s" % ("equal" if equal else "ragged"), "dtype=" + case["dtype"], "mode=" + case["mode"],
            "complevel=%s" % ("0" if case["complevel"] == 0 else ">0"), "tag=" + case["tag"],
            "equal_multidim=%s" % bool(equal and case["elem"] and len(lengths) > 1)]


def rows_bucket(n):
    if n == 1:
        return "1"
    if n <= 9:
        return "2-9"
    if n <= 12:
        return "10-12"
    if n <= 97:
        return "13-97"
    if n <= 102:
        return "98-102"
    return "103+"


def run_roundtrip(case):
    d = mktmp()
    try:
        path, rows = saved(case, d)
        got = ra.load(path)
        if case["kind"] == "ndarray":
            require(isinstance(got, np.ndarray), "ndarray in -> ndarray out violated", got=describe(got))
            require(bits(got, rows[0]), "stored ndarray does not come back bit-identical", got=describe(got),
                    want=describe(rows[0]))
            nt = len(case["shape"]) >= 2
        else:
            check_rows(got, rows, "full load")
            lengths = case["lengths"]
            nt = len(lengths) >= 2 and (len(lengths) >= 10 or len(set(lengths)) > 1 or bool(case["elem"]))
        # loading twice gives the same thing (no state kept in the file by a load)
        again = ra.load(path)
        require(describe(again) == describe(got), "second load differs from first", a=describe(got), b=describe(again))
        return Info(nt, base_classes(case))
    finally:
        shutil.rmtree(d, ignore_errors=True)


def stride_classes(case, lengths):
    s = case["stride"]
    return ["stride=%s" % (s if s <= 3 else "4+"),
            "some_len_divisible=%s" % any(L % s == 0 and L >= s for L in lengths),
            "some_len_not_divisible=%s" % any(L % s for L in lengths),
            "stride>=maxlen=%s" % (s >= max(lengths))]


def run_stride(case):
    d = mktmp()
    try:
        path, rows = saved(case, d)
        s = case["stride"]
        got = ra.load(path, stride=s)
        want = [r[::s] for r in rows]
        check_rows(got, want, "load(stride=%d)" % s, allow_ndarray_for_single=False)
        if not isinstance(got, np.ndarray):
            want_len = [ceil_div(L, s) for L in case["lengths"]]
            require(np.asarray(got.lengths).tolist() == want_len, "strided lengths are not ceil(len/stride)",
                    got=np.asarray(got.lengths).tolist()[:20], want=want_len[:20])
        lengths = case["lengths"]
        nt = s >= 2 and any(L % s for L in lengths) and any(L > s for L in lengths)
        return Info(nt, base_classes(case) + stride_classes(case, lengths))
    finally:
        shutil.rmtree(d, ignore_errors=True)


def run_stride_single(case):
    d = mktmp()
    try:
        path, rows = saved(case, d)
        s = case["stride"]
        entry = case["entry"]
        cl = ["entry=" + entry, "stride=%s" % (s if s <= 3 else "4+"), "dtype=" + case["dtype"]]
        if entry == "ndarray":
            x = rows[0]
            got = ra.load(path, stride=s)
            require(isinstance(got, np.ndarray), "ndarray in -> ndarray out violated (stride)", got=describe(got))
            cands = [x[::s]] + ([x[:, ::s]] if x.ndim >= 2 else [])
            require(any(bits(got, c) for c in cands),
                    "ndarray loaded with stride %d is neither x[::s] nor x[:, ::s] of the full load" % s,
                    got=describe(got), full=describe(x), want=[describe(c) for c in cands])
            nt = s >= 2 and x.shape[0] > s
            return Info(nt, cl + ["ndim=%d" % x.ndim])
        if entry == "one_key":
            j = case["key"]
            name = node_names(path)[j]
            got = ra.load(path, keys=[name], stride=s)
            want = [rows[j][::s]]
            L = len(rows[j])
        elif entry == "striped1":
            gl, got = ens_mpi.io.load_h5_as_striped(path, stride=s)
            want = [rows[0][::s]]
            L = len(rows[0])
            if s == 1:
                require([int(v) for v in gl] == [L], "load_h5_as_striped: global lengths wrong", got=list(gl), want=[L])
        else:
            got = ra.load(path, stride=s)
            want = [rows[0][::s]]
            L = len(rows[0])
        check_rows(got, want, "single-node load(stride=%d) via %s" % (s, entry), row_len=L)
        nt = s >= 2 and L > s
        return Info(nt, cl + ["elem=%s" % (tuple(case["elem"]),), "len%%stride=%s" % ("0" if L % s == 0 else "!=0")])
    finally:
        shutil.rmtree(d, ignore_errors=True)


def run_keys(case):
    d = mktmp()
    try:
        path, rows = saved(case, d)
        names = node_names(path)
        require(len(names) == len(rows), "file does not hold one node per row", nodes=len(names), rows=len(rows))
        K = case["keys"]
        s = case["stride"]
        got = ra.load(path, keys=[names[j] for j in K], stride=s)
        want = [rows[j][::s] for j in K]
        check_rows(got, want, "load(keys=%s, stride=%d)" % (K[:10], s), allow_ndarray_for_single=False)
        n = len(rows)
        ordered = K == sorted(K)
        nt = len(K) >= 2 and (len(K) < n or not ordered)
        sel = [case["lengths"][j] for j in K]
        cl = base_classes(case) + ["keys=%s" % ("all" if len(K) == n and ordered else "subset" if ordered else "permuted"),
                                   "nkeys=%s" % ("2" if len(K) == 2 else "3+"), "stride=%d" % s,
                                   "selected_equal_multidim=%s" % bool(case["elem"] and len(set(ceil_div(L, s) for L in sel)) == 1)]
        return Info(nt, cl)
    finally:
        shutil.rmtree(d, ignore_errors=True)


LAUNCHER_ENVS = [None, None,
                 {"SLURM_NTASKS": "4", "SLURM_PROCID": "1", "SLURM_NPROCS": "4"},
                 {"OMPI_COMM_WORLD_SIZE": "3", "OMPI_COMM_WORLD_RANK": "2"},
                 {"PMI_SIZE": "2", "PMI_RANK": "1", "PMIX_RANK": "1"}]


class launcher_env:
    """Environment variables a job scheduler / MPI launcher leaves behind (a serial analysis step run inside an
    allocation): without an MPI library this process is the whole world (rank 0 of 1) whatever they say."""

    def __init__(self, k):
        self.env = LAUNCHER_ENVS[k % len(LAUNCHER_ENVS)] if k is not None else None
        self.saved = {}

    def __enter__(self):
        for k_, v in (self.env or {}).items():
            self.saved[k_] = os.environ.get(k_)
            os.environ[k_] = v
        return self

    def __exit__(self, *a):
        for k_, v in self.saved.items():
            if v is None:
                os.environ.pop(k_, None)
            else:
                os.environ[k_] = v


def run_striped_h5(case):
    d = mktmp()
    try:
        path, rows = saved(case, d)
        s = case["stride"]
        with launcher_env(case.get("launcher")):
            gl, data = ens_mpi.io.load_h5_as_striped(path, stride=s)
        want = np.concatenate([r[::s] for r in rows])
        require(isinstance(data, np.ndarray), "load_h5_as_striped: data is not an ndarray", got=type(data).__name__)
        require(bits(data, want), "load_h5_as_striped: data differ from the concatenated strided rows",
                got=describe(data), want=describe(want))
        if s == 1:
            full = [len(r) for r in rows]
            require([int(v) for v in gl] == full, "load_h5_as_striped: lengths differ from the stored row lengths",
                    got=[int(v) for v in gl][:20], want=full[:20])
        lengths = [len(r) for r in rows]
        nt = len(rows) >= 2 and (s >= 2 or len(rows) >= 10)
        return Info(nt, base_classes(case) + ["stride=%s" % (s if s <= 3 else "4+"),
                                              "some_len_not_divisible=%s" % any(L % s for L in lengths)])
    finally:
        shutil.rmtree(d, ignore_errors=True)


# --------------------------------------------------------------------------
# bulk loading of trajectory files

DELAYS = [0.0, 0.0, 0.04, 0.08]


def topology(n_atoms):
    t = mdtraj.Topology()
    c = t.add_chain()
    r = t.add_residue("ALA", c)
    for i in range(n_atoms):
        t.add_atom("C%d" % i, mdtraj.element.carbon, r)
    return t


class MdProxy(object):
    """Stands in for the `md` module global of enspara.util.load: identical to mdtraj except that `load`, when
    executed in a forked pool worker, first sleeps for the delay Hypothesis drew for that file and afterwards
    appends the file name to a completion log."""

    def __init__(self, real, delays, parent_pid, log):
        self._real = real
        self._delays = delays
        self._parent = parent_pid
        self._log = log

    def __getattr__(self, name):
        return getattr(self._real, name)

    def load(self, filename, *a, **kw):
        child = os.getpid() != self._parent
        if child:
            time.sleep(self._delays.get(os.path.basename(str(filename)), 0.0))
        out = self._real.load(filename, *a, **kw)
        if child:
            fd = os.open(self._log, os.O_WRONLY | os.O_APPEND | os.O_CREAT, 0o600)
            try:
                os.write(fd, (os.path.basename(str(filename)) + "\n").encode())
            finally:
                os.close(fd)
        return out


@st.composite
def config(draw, n_files):
    pattern = pick(draw, ["reverse", "random", "first_slow", "none", "last_slow", "random"])
    if pattern == "none" or n_files == 1:
        delays = [0.0] * n_files
    elif pattern == "reverse":
        delays = [round(0.02 * round(4.0 * (n_files - 1 - i) / (n_files - 1)), 2) for i in range(n_files)]
    elif pattern == "first_slow":
        delays = [0.08] + [0.0] * (n_files - 1)
    elif pattern == "last_slow":
        delays = [0.0] * (n_files - 1) + [0.08]
    else:
        delays = [draw(st.sampled_from(DELAYS)) for _ in range(n_files)]
    return {"processes": pick(draw, [3, 2, 8, 1, None, 2, 16, 3]),
            "delays": delays,
            "hint": draw(st.booleans()),
            "entry": pick(draw, ["direct", "striped", "direct"])}


@st.composite
def bulk_case(draw, formats=("h5",), n_configs=1, max_files=8):
    n_atoms = spread(draw, 3, 10, 5)
    n_files = pick(draw, [3, 4, 5, 2, 6, max_files, 3, 1, 7, 4])
    shape = pick(draw, ["any", "mixed_ones", "any", "single_frames", "any"])
    if shape == "single_frames":
        frames = [1] * n_files
    elif shape == "mixed_ones":
        frames = [draw(st.sampled_from([1, 1, 2, 5])) for _ in range(n_files)]
    else:
        frames = [spread(draw, 1, 40, 9 + 4 * i) for i in range(n_files)]
    fmt = pick(draw, list(formats))
    argmode = pick(draw, ["args", "kwargs", "none", "kwargs", "args"])
    case = {"n_atoms": n_atoms, "frames": frames, "fmt": fmt, "seed": draw(st.integers(0, 2 ** 31 - 1)),
            "argmode": argmode}
    sel_size = spread(draw, 1, n_atoms, max(1, n_atoms // 2))

    def selection():
        return sorted(draw(st.permutations(list(range(n_atoms))))[:sel_size])

    def a_stride():
        k = pick(draw, ["small", "one", "small", "small", "huge", "one"])
        return 1 if k == "one" else spread(draw, 2, 7, 3) if k == "small" else 41

    if argmode == "none":
        case["strides"] = [1] * n_files
        case["atoms"] = None
    elif argmode == "kwargs":
        s = a_stride()
        case["strides"] = [s] * n_files
        case["atoms"] = selection() if draw(st.booleans()) else None
        case["give_stride"] = s != 1 or draw(st.booleans())
    else:
        per_file_stride = draw(st.booleans())
        s = a_stride()
        case["strides"] = [a_stride() for _ in range(n_files)] if per_file_stride else [s] * n_files
        case["atoms"] = [selection() for _ in range(n_files)] if draw(st.booleans()) else None
    case["configs"] = [draw(config(n_files)) for _ in range(n_configs)]
    if n_configs == 2:
        # make the two schedules really different: different worker counts, second one with a planned inversion
        c0, c1 = case["configs"]
        if c1["processes"] == c0["processes"]:
            c1["processes"] = 3 if c0["processes"] != 3 else 2
        if n_files >= 2 and c1["processes"] != 1 and not planned_inversion(c1):
            i = draw(st.integers(0, n_files - 2))
            c1["delays"][i] = 0.08
            c1["delays"][i + 1] = 0.0
    return case


def write_files(case, d):
    rng = np.random.RandomState(case["seed"])
    top = topology(case["n_atoms"])
    files, src = [], []
    for i, n in enumerate(case["frames"]):
        x = (rng.standard_normal((n, case["n_atoms"], 3)) * 2.0).astype("float32")
        f = os.path.join(d, "t%02d.%s" % (i, case["fmt"]))
        trj = mdtraj.Trajectory(x, top)
        if case["fmt"] == "h5":
            trj.save_hdf5(f)
        elif case["fmt"] == "xtc":
            trj.save_xtc(f)
        elif case["fmt"] == "dcd":
            trj.save_dcd(f)
        else:
            raise ValueError(case["fmt"])
        files.append(f)
        src.append(x)
    return files, src, top


def per_file_kwargs(case, top):
    n = len(case["frames"])
    out = []
    for i in range(n):
        kw = {}
        if case["fmt"] != "h5":
            kw["top"] = top
        s = case["strides"][i]
        if case["argmode"] == "args" or (case["argmode"] == "kwargs" and case.get("give_stride")):
            kw["stride"] = int(s)
        atoms = case["atoms"]
        if atoms is not None:
            sel = atoms[i] if case["argmode"] == "args" else atoms
            kw["atom_indices"] = np.array(sel, dtype=int)
        out.append(kw)
    return out


def one_bulk_load(case, cfg, files, kws, want_lengths, d, tag):
    log = os.path.join(d, "done-%s.log" % tag)
    delays = {os.path.basename(f): float(dl) for f, dl in zip(files, cfg["delays"])}
    call_kw = {"processes": cfg["processes"]}
    if cfg["hint"]:
        call_kw["lengths"] = list(want_lengths)
    if case["argmode"] == "args":
        call_kw["args"] = [dict(k) for k in kws]
    elif kws and kws[0]:
        call_kw.update(kws[0])
    real = ens_load.md
    require(not isinstance(real, MdProxy), "harness: proxy left installed by an earlier case")
    ens_load.md = MdProxy(real, delays, os.getpid(), log)
    try:
        if cfg["entry"] == "striped":
            lengths, xyz = ens_mpi.io.load_trajectory_as_striped(list(files), **call_kw)
        else:
            lengths, xyz = ens_load.load_as_concatenated(list(files), **call_kw)
    finally:
        ens_load.md = real
    order = []
    if os.path.exists(log):
        with open(log) as h:
            order = [ln.strip() for ln in h if ln.strip()]
    idx = [int(os.path.basename(o)[1:3]) for o in order]
    observed_inversion = any(a > b for a, b in zip(idx, idx[1:]))
    return lengths, xyz, observed_inversion, len(idx)


def bulk_oracle(case, files, src, kws):
    real = ens_load.md
    parts, lens = [], []
    for i, (f, x, kw) in enumerate(zip(files, src, kws)):
        s = case["strides"][i]
        ind = real.load(f, **kw).xyz                       # "individually loaded (strided, atom-selected)"
        if case["fmt"] == "h5":
            mine = x[::s]
            if "atom_indices" in kw:
                mine = mine[:, kw["atom_indices"]]
            if not bits(ind, np.ascontiguousarray(mine)):
                raise Skip("mdtraj itself does not return the stored frames for %s" % os.path.basename(f))
        parts.append(np.ascontiguousarray(ind))
        lens.append(ceil_div(len(x), s))
        if len(ind) != lens[-1]:
            raise Skip("mdtraj strided length is not ceil(n/stride)")
    return np.concatenate(parts), lens


# --------------------------------------------------------------------------
# the clustering front-end's loader: several (topology, trajectory set, selection) groups in one call

@st.composite
def grouped_case(draw):
    n_groups = pick(draw, [2, 3, 1, 2])
    n_sel = spread(draw, 1, 4, 2)
    groups = []
    for g in range(n_groups):
        n_atoms = spread(draw, n_sel, n_sel + 5, n_sel + 2)
        sel = sorted(draw(st.permutations(list(range(n_atoms))))[:n_sel])
        groups.append({"n_atoms": n_atoms, "selected": sel,
                       "frames": [spread(draw, 1, 12, 4 + i) for i in range(pick(draw, [2, 1, 3]))]})
    return {"groups": groups, "stride": pick(draw, [1, 2, 3, 1]), "fmt": pick(draw, ["xtc", "h5", "xtc"]),
            "seed": draw(st.integers(0, 2 ** 31 - 1))}


def run_grouped(case):
    from enspara.cluster.util import load_trajectories
    d = mktmp()
    try:
        rng = np.random.RandomState(case["seed"])        # seed drawn by Hypothesis
        tops, trjsets, sels, parts, lens = [], [], [], [], []
        for g, grp in enumerate(case["groups"]):
            t = mdtraj.Topology()
            c = t.add_chain()
            r = t.add_residue("ALA", c)
            for i in range(grp["n_atoms"]):
                t.add_atom("CX" if i in grp["selected"] else "CY", mdtraj.element.carbon, r)
            topf = os.path.join(d, "top%d.pdb" % g)
            mdtraj.Trajectory(np.zeros((1, grp["n_atoms"], 3), dtype="float32"), t).save_pdb(topf)
            files = []
            for i, n in enumerate(grp["frames"]):
                x = (rng.standard_normal((n, grp["n_atoms"], 3)) * 2.0).astype("float32")
                f = os.path.join(d, "g%d_t%02d.%s" % (g, i, case["fmt"]))
                trj = mdtraj.Trajectory(x, t)
                trj.save_hdf5(f) if case["fmt"] == "h5" else trj.save_xtc(f)
                files.append(f)
                ind = mdtraj.load(f, top=mdtraj.load(topf).top, stride=case["stride"],
                                  atom_indices=np.array(grp["selected"], dtype=int)).xyz
                parts.append(np.ascontiguousarray(ind))
                lens.append(ceil_div(n, case["stride"]))
            tops.append(topf)
            trjsets.append(files)
            sels.append("name CX")
        lengths, xyz, sub = load_trajectories(tops, trjsets, sels, case["stride"], 2)
        want = np.concatenate(parts)
        check_bulk(lengths, xyz, want, lens, "load_trajectories (groups with their own topology and selection)",
                   groups=[(g["n_atoms"], g["selected"]) for g in case["groups"]])
        require(sub.n_atoms == len(case["groups"][0]["selected"]), "returned topology does not have the selected atoms")
        differing = len(set(tuple(g["selected"]) for g in case["groups"])) > 1
        return Info(differing and len(case["groups"]) >= 2,
                    ["grouped_groups=%d" % len(case["groups"]), "grouped_selections_differ=%s" % differing,
                     "fmt=" + case["fmt"], "grouped_stride=%d" % case["stride"]])
    finally:
        shutil.rmtree(d, ignore_errors=True)


def planned_inversion(cfg):
    dl = cfg["delays"]
    return any(dl[i] > dl[j] for i in range(len(dl)) for j in range(i + 1, len(dl)))


def check_bulk(lengths, xyz, want, want_lengths, what, **ctx):
    got_len = [int(v) for v in lengths]
    require(got_len == want_lengths, "%s: returned lengths differ from the per-file frame counts" % what,
            got=got_len, want=want_lengths, **ctx)
    require(isinstance(xyz, np.ndarray) and xyz.dtype == np.float32, "%s: coordinates are not a float32 ndarray" % what,
            got=describe(xyz), **ctx)
    require(xyz.shape == want.shape, "%s: shape differs from the concatenation" % what, got=xyz.shape,
            want=want.shape, **ctx)
    if not bits(xyz, want):
        bad = np.nonzero(np.any(np.asarray(xyz) != want, axis=(1, 2)))[0]
        starts = np.cumsum([0] + want_lengths)
        files_hit = sorted(set(int(np.searchsorted(starts, b, side="right") - 1) for b in bad))
        require(False, "%s: coordinates differ from the concatenation of the individually loaded files" % what,
                wrong_frames=bad.tolist()[:20], files_hit=files_hit, lengths=want_lengths, **ctx)


def bulk_classes(case, cfg, inv, nlogged):
    n = len(case["frames"])
    strided = [ceil_div(f, s) for f, s in zip(case["frames"], case["strides"])]
    p = cfg["processes"]
    return ["fmt=" + case["fmt"], "argmode=" + case["argmode"], "files=%s" % (n if n <= 3 else "4+"),
            "processes=%s" % p, "hint=%s" % cfg["hint"], "entry=" + cfg["entry"],
            "atoms=%s" % ("none" if case["atoms"] is None else "per_file" if case["argmode"] == "args" else "shared"),
            "stride=%s" % ("1" if set(case["strides"]) == {1} else "uniform" if len(set(case["strides"])) == 1 else "per_file"),
            "all_single_frame=%s" % (set(strided) == {1}), "some_single_frame=%s" % (1 in strided),
            "planned_inversion=%s" % planned_inversion(cfg), "observed_inversion=%s" % inv,
            "workers_logged_all=%s" % (nlogged == n)]


def bulk_nt(case, cfg):
    strided = [ceil_div(f, s) for f, s in zip(case["frames"], case["strides"])]
    p = cfg["processes"]
    return len(strided) >= 3 and len(set(strided)) >= 2 and (p is None or p >= 2) and planned_inversion(cfg)


def run_bulk_concat(case):
    d = mktmp()
    try:
        files, src, top = write_files(case, d)
        kws = per_file_kwargs(case, top)
        want, want_lengths = bulk_oracle(case, files, src, kws)
        cfg = case["configs"][0]
        lengths, xyz, inv, nlog = one_bulk_load(case, cfg, files, kws, want_lengths, d, "0")
        check_bulk(lengths, xyz, want, want_lengths, "load", processes=cfg["processes"], delays=cfg["delays"])
        # the returned block belongs to the caller: loading the same files in another order (same total shape) may not
        # change it
        if len(files) >= 2 and case["argmode"] != "args":
            rev = list(files)[::-1]
            l2, x2 = ens_load.load_as_concatenated(rev, processes=cfg["processes"], **(kws[0] if kws and kws[0] else {}))
            check_bulk(lengths, xyz, want, want_lengths, "first result after a second load of the same shape",
                       processes=cfg["processes"])
            require(not np.shares_memory(np.asarray(xyz), np.asarray(x2)), "two loads returned overlapping coordinate blocks")
        # a lengths= hint that over-states a file (e.g. unstrided lengths passed together with a stride) is either
        # refused or ignored - never turned into a result with invented frames / wrong lengths
        if cfg["hint"] and case["argmode"] != "args":
            bad_hint = [int(v) for v in want_lengths]
            bad_hint[len(bad_hint) // 2] += 1 + len(bad_hint) % 3
            try:
                l3, x3 = ens_load.load_as_concatenated(list(files), processes=cfg["processes"], lengths=bad_hint,
                                                       **(kws[0] if kws and kws[0] else {}))
            except Exception:
                l3 = None
            if l3 is not None:
                check_bulk(l3, x3, want, want_lengths, "load with an over-stating lengths= hint", hint=bad_hint)
        return Info(bulk_nt(case, cfg), bulk_classes(case, cfg, inv, nlog))
    finally:
        shutil.rmtree(d, ignore_errors=True)


def run_bulk_schedule(case):
    d = mktmp()
    try:
        files, src, top = write_files(case, d)
        kws = per_file_kwargs(case, top)
        want, want_lengths = bulk_oracle(case, files, src, kws)
        results = []
        cl = []
        for k, cfg in enumerate(case["configs"]):
            lengths, xyz, inv, nlog = one_bulk_load(case, cfg, files, kws, want_lengths, d, str(k))
            results.append(([int(v) for v in lengths], np.array(xyz, copy=True)))
            cl = bulk_classes(case, cfg, inv, nlog)
        (l0, x0), (l1, x1) = results
        require(l0 == l1, "lengths depend on worker count / completion order", a=l0, b=l1)
        require(x0.shape == x1.shape and bits(x0, x1),
                "coordinates depend on worker count / completion order",
                cfg0=case["configs"][0], cfg1=case["configs"][1], shape0=x0.shape, shape1=x1.shape)
        for k, (l, x) in enumerate(results):
            check_bulk(l, x, want, want_lengths, "load #%d" % k, cfg=case["configs"][k])
        return Info(bulk_nt(case, case["configs"][1]),
                    cl + ["pair=%s/%s" % (case["configs"][0]["processes"], case["configs"][1]["processes"])])
    finally:
        shutil.rmtree(d, ignore_errors=True)


# --------------------------------------------------------------------------
# enspara.mpi.io.load_npy_as_striped: rectangular arrays stored one file per trajectory

@st.composite
def npy_case(draw):
    n_files = pick(draw, [3, 2, 4, 1, 5])
    tail = pick(draw, [[], [3], [4, 3], [1]])
    return {"rows": [spread(draw, 1, 20, 6 + 3 * i) for i in range(n_files)], "tail": tail,
            "dtype": draw(st.sampled_from(DTYPES)), "seed": draw(st.integers(0, 2 ** 31 - 1)),
            "stride": pick(draw, [2, 1, 3, 4, 7, 1, 21]), "order": draw(st.sampled_from(["C", "C", "F", "mixed"])),
            "launcher": draw(st.sampled_from([None, None, 2, 3, 4])),
            # files written on a machine of the other byte order (np.save records it in the header)
            "byteswapped": draw(st.sampled_from([False, False, False, True]))}


def run_striped_npy(case):
    d = mktmp()
    try:
        rng = np.random.RandomState(case["seed"])
        arrs, files = [], []
        for i, n in enumerate(case["rows"]):
            x = values(rng, case["dtype"], (n,) + tuple(case["tail"]))
            if case.get("order", "C") == "F" or (case.get("order") == "mixed" and i % 2):
                x = np.asfortranarray(x)          # a column-major array on disk (np.save records fortran_order)
            f = os.path.join(d, "x%02d.npy" % i)
            np.save(f, x.astype(x.dtype.newbyteorder()) if case.get("byteswapped") else x)
            arrs.append(x)
            files.append(f)
        s = case["stride"]
        with launcher_env(case.get("launcher")):
            gl, data = ens_mpi.io.load_npy_as_striped(files, stride=s)
        want = np.concatenate([x[::s] for x in arrs])
        if case.get("byteswapped") and isinstance(data, np.ndarray) and data.dtype.newbyteorder("=") == want.dtype:
            data = data.astype(want.dtype)      # same element type and values, whichever byte order the result carries
        require(isinstance(data, np.ndarray) and bits(data, want),
                "load_npy_as_striped: data differ from the concatenated strided arrays", got=describe(data),
                want=describe(want), stride=s, rows=case["rows"])
        if s == 1:
            require([int(v) for v in gl] == case["rows"], "load_npy_as_striped: lengths wrong", got=list(gl),
                    want=case["rows"])
        nt = len(arrs) >= 2 and s >= 2 and any(n % s for n in case["rows"]) and any(n > s for n in case["rows"])
        return Info(nt, ["files=%d" % len(arrs), "stride=%s" % (s if s <= 3 else "4+"), "dtype=" + case["dtype"],
                         "ndim=%d" % (1 + len(case["tail"])), "order=" + case.get("order", "C"),
                         "launcher_env=%s" % (case.get("launcher") is not None)])
    finally:
        shutil.rmtree(d, ignore_errors=True)


# --------------------------------------------------------------------------
# exhaustive sub-domains (thorough tier)

def exhaustive_rowcounts(tier, shard, nshards):
    """Every row count 1..130 (all key-name widths around 9->10 and 99->100), ragged int32 scalars."""
    if tier != "thorough":
        return None

    def gen():
        for n in range(1, 131):
            if n % nshards != shard:
                continue
            yield {"kind": "ragged", "lengths": [1 + (i * 3) % 4 for i in range(n)], "elem": [], "dtype": "int32",
                   "seed": n, "mode": "rows", "complevel": 1, "tag": "arr"}
    return gen()


def exhaustive_strides(tier, shard, nshards):
    """Every (len0, len1, stride) in 1..8 x 1..8 x 1..9 for a two-row array: all length/stride residues."""
    if tier != "thorough":
        return None

    def gen():
        idx = 0
        for a in range(1, 9):
            for b in range(1, 9):
                for s in range(1, 10):
                    idx += 1
                    if idx % nshards != shard:
                        continue
                    yield {"kind": "ragged", "lengths": [a, b], "elem": [],
                           "dtype": "int16", "seed": idx, "mode": "flat_list", "complevel": 1, "tag": "arr",
                           "stride": s}
    return gen()


# --------------------------------------------------------------------------
# very long rows (more frames than any internal read block) loaded with a stride

@st.composite
def long_stride_case(draw):
    n_rows = draw(st.sampled_from([1, 1, 2, 3]))
    return {"lengths": [draw(st.sampled_from([65535, 65536, 65537, 70001, 131073, 140000, 17])) for _ in range(n_rows)],
            "stride": draw(st.sampled_from([2, 3, 5, 7, 10, 15, 64, 1000])), "dtype": draw(st.sampled_from(["int8", "int32", "float32"])),
            "kind": draw(st.sampled_from(["ragged", "ragged", "ndarray"])), "seed": draw(st.integers(0, 2 ** 31 - 1)),
            "elem": draw(st.sampled_from([[], [], [2]]))}


def run_long_stride(case):
    rng = np.random.RandomState(case["seed"])            # seed drawn by Hypothesis
    lengths = case["lengths"] if case["kind"] == "ragged" else case["lengths"][:1]
    rows = [(rng.randint(0, 100, size=[L] + list(case["elem"]))).astype(case["dtype"]) for L in lengths]
    s = case["stride"]
    d = mktmp()
    try:
        path = os.path.join(d, "long.h5")
        ra.save(path, ra.RaggedArray([r.copy() for r in rows]) if case["kind"] == "ragged" else rows[0].copy())
        got = ra.load(path, stride=s)
        want = [r[::s] for r in rows]
        check_rows(got, want, "load(stride=%d) of rows with %s frames" % (s, lengths), allow_ndarray_for_single=True)
        full = ra.load(path)
        check_rows(full, rows, "full load of rows with %s frames" % (lengths,), allow_ndarray_for_single=True)
        big = max(lengths) > 65536 and (65536 % s != 0)
        return Info(big, ["long_kind=" + case["kind"], "long_rows=%d" % len(lengths), "long_stride=%d" % s,
                          "beyond_64k_and_stride_not_dividing=%s" % big],
                    key=[lengths, s, case["dtype"], case["kind"], case["seed"], case["elem"]])
    finally:
        shutil.rmtree(d, ignore_errors=True)


CLAUSES = [
    Clause("roundtrip", roundtrip_case(), run_roundtrip, quick=320, thorough=3000,
           exhaustive=exhaustive_rowcounts),
    Clause("resave_same_path", resave_case(), run_roundtrip, quick=200, thorough=2000,
           doc="save over a file that already holds an earlier (larger / differently tagged) save, then load"),
    Clause("stride", ragged_case(min_rows=2, with_stride=True), run_stride, quick=240, thorough=3000,
           exhaustive=exhaustive_strides),
    Clause("stride_long_rows", long_stride_case(), run_long_stride, quick=16, thorough=200,
           doc="rows of 65535..140000 frames saved and loaded with strides 2..1000 (== slicing the full load)"),
    Clause("stride_single", single_case(), run_stride_single, quick=200, thorough=2000),
    Clause("keys", ragged_case(min_rows=2, with_keys=True), run_keys, quick=240, thorough=3000),
    Clause("striped_h5", striped_case(), run_striped_h5, quick=160, thorough=2000),
    Clause("roundtrip_big", roundtrip_case(big=True), run_roundtrip, quick=8, thorough=1000),
    Clause("keys_big", ragged_case(min_rows=2, big=True, with_keys=True), run_keys, quick=0, thorough=600),
    Clause("bulk_concat", bulk_case(), run_bulk_concat, quick=72, thorough=400),
    Clause("bulk_schedule", bulk_case(n_configs=2), run_bulk_schedule, quick=32, thorough=200),
    Clause("bulk_concat_formats", bulk_case(formats=("h5", "xtc", "dcd", "dcd")), run_bulk_concat, quick=24, thorough=200),
    Clause("grouped_loader", grouped_case(), run_grouped, quick=48, thorough=400,
           doc="enspara.cluster.util.load_trajectories: 1..3 groups, each with its own topology file, trajectory files and "
               "atom selection (equal sizes, different atoms): the concatenation of the individually loaded files"),
    Clause("bulk_schedule_formats", bulk_case(formats=("h5", "h5", "h5", "xtc"), n_configs=2), run_bulk_schedule,
           quick=0, thorough=100),
    Clause("striped_npy", npy_case(), run_striped_npy, quick=80, thorough=1000),
]


# --------------------------------------------------------------------------
# matchers for the two findings of this property (only used if they are recorded as known findings instead of
# being repaired; kept as narrow as the defect)

def _is_violation(exc):
    return isinstance(exc, (Violation, ValueError))


def match_equal_multidim_rows(case, exc):
    """>= 2 loaded rows whose (strided) lengths are all equal and whose elements are multi-dimensional."""
    if case.get("kind") != "ragged" or not case.get("elem") or not _is_violation(exc):
        return False
    s = case.get("stride", 1)
    idx = case.get("keys", list(range(len(case["lengths"]))))
    if "key" in case or len(idx) < 2:
        return False
    return len(set(ceil_div(case["lengths"][j], s) for j in idx)) == 1


def match_single_node_stride(case, exc):
    """stride > 1 requested for a load that resolves to exactly one HDF5 node."""
    return "entry" in case and case.get("stride", 1) > 1 and isinstance(exc, Violation)


def match_npy_stride(case, exc):
    """load_npy_as_striped with stride > 1 trips its own `assert end == len(local_data)`."""
    return "rows" in case and "tail" in case and case.get("stride", 1) > 1 and type(exc) is AssertionError


MATCHERS = {"equal_multidim_rows": match_equal_multidim_rows, "single_node_stride": match_single_node_stride,
            "npy_stride": match_npy_stride}
