"""C08 - reactive flux obeys its definition and is conserved (reversible chains)."""
import itertools
import warnings

import numpy as np
from hypothesis import strategies as st

from vf.harness import Clause, Info, Skip, require, Violation
from vf import ref_tpt as R

from enspara import tpt

PROPERTY = "C08"
LEVEL = "exploration"
RULE = ("Hypothesis draws an ergodic reversible chain T = W/rowsum(W) from symmetric weights W (spanning tree + random "
        "extra edges and self-loops | complete | bare tree, period 2), n in 3..8 (quick) / 3..25 (thorough '_large' "
        "clauses), weights k/20 (k in 1..20), in a third of the cases times 10**-e, e in 0..3; the stationary vector "
        "is known in closed form (row sums of W) and is either passed as `populations` or left for the library to "
        "compute; disjoint non-empty source/sink lists in arbitrary order (list / tuple / int32 / int64 / bare int) "
        "leaving >= 1 intermediate state; container out of ndarray (C, F order), csr, csc, coo, lil, dok, dia, bsr "
        "*_matrix, csr with explicit zeros, coo with duplicates, csr_array, coo_array. Oracle: forward committor from "
        "a reduced-block numpy solve, backward committor from the same solve on the time-reversed chain, then the "
        "literal formula / balance sums in dense numpy. A case is non-trivial when the stationary vector is "
        "non-uniform and there are >= 2 intermediate states; distinct = distinct canonical JSON. Thorough "
        "additionally enumerates every source/sink pair with >= 1 intermediate state on two fixed reversible chains "
        "(n = 4, 5) x {ndarray, csr, lil} x populations {given, computed}.")
ASSUMPTIONS = ["the chain is irreducible, row-stochastic to rounding and reversible (built from symmetric weights)",
               "populations, when given, are the exact stationary vector as a float64 ndarray",
               "source and sink sets contain no repeated state and leave at least one intermediate state",
               "reactive_populations: at least one intermediate state has a committor strictly between 0 and 1 "
               "(otherwise pi*q+*q- is identically zero, cannot be normalised, and the case is skipped)",
               "results may come back as ndarray or as a scipy.sparse container; only values are compared"]
SHARDS = {"quick": 4, "thorough": 16}

# Tolerances.  A flux entry pi_i (1-q_i) T_ij q_j inherits the committor error, which no double precision solve
# keeps below ~eps*cond(I-Q); so every comparison of values derived from q allows REL + R.cond_slack(cond)
# (= 1e3*eps*cond) relative to the q-independent factor pi_i*T_ij.  Balance sums are residual-like and get a
# fixed tolerance.  R.within() records observed/tolerance; the largest ratio over 40 000 calibration cases
# was < 1e-2 for every check.
REL = 1e-9                       # base relative tolerance of values derived from the committors
ZERO = 1e-15                     # entries that must vanish (diagonal, into sources, out of sinks; observed: exact 0)
BAL_ATOL, BAL_RTOL = 1e-12, 1e-9  # balance sums (observed <= 1e-15)
SAME = 1e-12                     # container agreement (observed: bit-identical)

W = R.within


def _quiet(fn, *a, **k):
    """Every library call of this check goes through here: the arguments (transition matrix container, state sets,
    populations) are the caller's and must come back unchanged - the same objects are what the next analysis
    (net fluxes after fluxes, another source/sink pair) is run on."""
    before = [R.snapshot(x) for x in a] + [R.snapshot(v) for v in k.values()]
    with warnings.catch_warnings():
        warnings.simplefilter("ignore")
        try:
            return fn(*a, **k)
        finally:
            after = [R.snapshot(x) for x in a] + [R.snapshot(v) for v in k.values()]
            if after != before:
                names = ["tprob", "sources", "sinks"][:len(a)] + list(k)
                bad = [n_ for n_, x, y in zip(names, before, after) if x != y]
                raise Violation("%s modified the caller's %s" % (getattr(fn, "__name__", "call"), ", ".join(bad)))


@st.composite
def flux_case(draw, max_n=8, reactive_only=False):
    ch = draw(R.chain(max_n=max_n, kinds=R.REV_KINDS))
    if reactive_only or draw(st.sampled_from([True, True, False])):
        src, snk = draw(R.reactive_sets(ch))
    else:
        src, snk = draw(R.disjoint_sets(ch["n"], min_inter=1))
    case = {"chain": ch, "container": draw(st.sampled_from(R.CONTAINERS)),
            "sources": src, "sinks": snk,
            "src_form": draw(st.sampled_from(R.SET_FORMS)), "snk_form": draw(st.sampled_from(R.SET_FORMS)),
            "pops": draw(st.sampled_from(["none", "given"]))}
    variant = draw(st.sampled_from(["plain", "plain", "plain", "float32_dyadic", "negative_ids", "near_uniform", "thin_bridge",
                                    "listed_twice"]))
    if variant == "listed_twice":
        case["listed_twice"] = draw(st.sampled_from(["sources", "sinks", "both"]))
        case["src_form"] = "list" if case["src_form"] == "scalar" else case["src_form"]
        case["snk_form"] = "list" if case["snk_form"] == "scalar" else case["snk_form"]
    if variant == "near_uniform" and ch["E"] is None:
        # a reversible chain whose stationary distribution is uniform to within ~1e-6 but NOT exactly: symmetric circulant
        # weights of order 1e6..3e7 plus small symmetric integer noise (row sums differ in the 7th digit)
        n_ = ch["n"]
        c_ = [draw(st.integers(1, 30)) for _ in range(n_ // 2 + 1)]
        noise = [[draw(st.integers(0, 40)) for _ in range(n_)] for _ in range(n_)]
        M = [[c_[min(abs(i - j), n_ - abs(i - j))] * 10 ** 6 + (noise[min(i, j)][max(i, j)] if i != j else 0) for j in range(n_)]
             for i in range(n_)]
        ch["M"] = M
        ch["kind"] = "rev_dense"
        case["pops"] = "none"
    elif variant == "thin_bridge" and ch["E"] is None:
        # almost all of the population sits in the sources and sinks (heavy self-counts there): the total reactive weight
        # is ~1e-9 of the whole - the reactive populations are still a probability vector
        M = np.array(ch["M"], dtype=np.int64)
        for s_ in list(src) + list(snk):
            M[s_, s_] += 10 ** 10
        ch["M"] = M.tolist()
        case["pops"] = "given"
    if variant == "float32_dyadic" and ch["E"] is None:
        # a float32 transition matrix whose entries are exact in float32: symmetric integer weights with the diagonal
        # chosen so that every row sums to the same power of two (reversible, uniform populations).  Everything the
        # library derives from it is still expected at double precision (populations are supplied in float64: the
        # eigen-solver would otherwise legitimately run in single precision).
        M = np.array(ch["M"], dtype=np.int64)
        off = M.sum(axis=1) - np.diag(M)
        tot = 1
        while tot <= int(off.max()):
            tot *= 2
        M[np.arange(ch["n"]), np.arange(ch["n"])] = tot - off
        ch["M"] = M.tolist()
        case["t_dtype"] = "float32"
        case["pops"] = "given"
    elif variant == "negative_ids":
        # numpy-style ids counted from the end (-1 is the last state) for every second member of each set
        case["neg_ids"] = True
        for k in ("src_form", "snk_form"):
            if case[k] == "scalar":
                case[k] = "list"
    return case


@st.composite
def multi_case(draw, max_n=8):
    c = draw(flux_case(max_n=max_n, reactive_only=draw(st.booleans())))
    del c["container"]
    return c


class Ctx:
    """Everything the oracles need for one case (nothing here touches enspara)."""

    def __init__(self, case):
        ch = case["chain"]
        self.T = R.build_T(ch)
        self.n = ch["n"]
        self.pi = R.exact_pi_reversible(ch)
        self.src, self.snk = list(case["sources"]), list(case["sinks"])
        self.inter = [i for i in range(self.n) if i not in set(self.src) | set(self.snk)]
        self.qf = R.ref_committor(self.T, self.src, self.snk)
        self.qb = R.ref_backward_committor(self.T, self.pi, self.src, self.snk)
        self.flux = R.ref_flux(self.T, self.pi, self.qf, self.qb)
        # no state is ever visited by a reactive trajectory (every intermediate state commits with certainty):
        # the reactive density pi*q+*q- is identically zero and no probability vector can be formed from it
        self.no_reactive_state = bool(np.max(self.pi * self.qf * self.qb) <= 0.0)
        # relative accuracy that can be asked of anything computed from the committors of this case
        self.qtol = REL + 2.0 * R.cond_slack(R.cond_free(self.T, self.src + self.snk))
        self.edge = self.pi[:, None] * self.T          # q-independent factor of the flux through an edge
        # when the library computes the stationary vector itself (dense eigen-decomposition) each component is
        # only accurate to ~eps/gap in absolute terms (observed <= 2.4*eps/gap), gap = 1 - second eigenvalue
        if case["pops"] == "given":
            self.pi_tol = 0.0
        else:
            d = np.sqrt(self.pi)
            S = (d[:, None] * self.T) / d[None, :]
            lam = np.linalg.eigvalsh((S + S.T) / 2.0)
            self.pi_tol = R.K_COND * R.EPS / max(1.0 - float(lam[-2]), R.EPS)
        self.ftol = ZERO + self.qtol * self.edge + self.pi_tol * self.T      # per-edge flux tolerance
        self.case = case

    def args(self, container=None):
        c = self.case
        X = R.to_container(self.T, container or c["container"])
        if c.get("t_dtype") == "float32":
            X32 = X.astype(np.float32)
            require(bool(np.array_equal(R.dense_of(X32).astype(np.float64), self.T)), "harness: T is not exact in float32")
            X = X32
        src, snk = self.src, self.snk
        if c.get("neg_ids"):
            src = [s - self.n if k % 2 == 0 else s for k, s in enumerate(src)]
            snk = [s - self.n if k % 2 == 1 else s for k, s in enumerate(snk)]
        if c.get("listed_twice"):
            # the same two SETS, one member written twice (ids collected from two overlapping criteria)
            src = list(src) + ([src[0]] if c["listed_twice"] in ("sources", "both") else [])
            snk = list(snk) + ([snk[-1]] if c["listed_twice"] in ("sinks", "both") else [])
        a = (X, R.set_arg(src, c["src_form"]), R.set_arg(snk, c["snk_form"]))
        kw = {"populations": self.pi.copy()} if c["pops"] == "given" else {}
        return a, kw

    def info(self, extra=()):
        c, ch = self.case, self.case["chain"]
        uniform = bool(np.max(self.pi) - np.min(self.pi) <= 1e-9)
        nt = (not uniform) and len(self.inter) >= 2
        cl = ["kind=" + ch["kind"], "wide=%s" % (ch["E"] is not None),
              "n=%s" % ("3" if self.n == 3 else "4-8" if self.n <= 8 else "9+"),
              "pops=" + c["pops"], "pi_uniform=%s" % uniform,
              "n_sources=%s" % min(len(self.src), 3), "n_sinks=%s" % min(len(self.snk), 3),
              "intermediates=%s" % min(len(self.inter), 3), "no_reactive_state=%s" % self.no_reactive_state,
              "src_form=" + c["src_form"], "snk_form=" + c["snk_form"],
              "t_dtype=" + c.get("t_dtype", "float64"), "negative_ids=%s" % bool(c.get("neg_ids")),
              "heavy_ends=%s" % bool(np.max(np.diag(np.array(ch["M"], dtype=float))) >= 1e10)]
        if "container" in c:
            cl.append("container=" + c["container"])
        return Info(nt, cl + list(extra))


def _mat(x, n, what):
    x = R.dense_of(x)
    require(x.shape == (n, n), "%s does not have shape (n_states, n_states)" % what, shape=x.shape)
    require(bool(np.all(np.isfinite(x))), "%s has non-finite entries" % what, value=x.tolist())
    return x


# --------------------------------------------------------------------------
# clause 1: definition of the reactive flux

def check_flux(cx, F):
    n = cx.n
    require(W("flux_diag", np.diag(F), ZERO), "reactive flux is not zero on the diagonal",
            diagonal=np.diag(F).tolist())
    off = ~np.eye(n, dtype=bool)
    tol = cx.ftol
    require(W("flux_def", (F - cx.flux)[off], tol[off]),
            "reactive flux differs from pi_i * q-_i * T_ij * q+_j", got=F.tolist(), want=cx.flux.tolist(),
            pi=cx.pi.tolist(), q_forward=cx.qf.tolist(), q_backward=cx.qb.tolist())
    require(W("flux_nonneg", np.maximum(-F, 0.0)[off], tol[off]), "negative reactive flux", got=F.tolist())


def run_flux(case):
    cx = Ctx(case)
    a, kw = cx.args()
    F = _mat(_quiet(tpt.reactive_fluxes, *a, **kw), cx.n, "reactive_fluxes")
    check_flux(cx, F)
    selfloops = bool(np.any(np.diag(cx.T)[cx.inter] > 0))
    extra = ["intermediate_selfloop=%s" % selfloops]
    if "populations" in kw and int(np.sum(cx.T * 1000)) % 3 == 0:
        # the weights of the states may be handed over as whole numbers (frame counts per state) or in single
        # precision: the flux through an edge is linear in the weight of the state it leaves (f_ij = w_i q-_i T_ij q+_j),
        # so row i of the result is row i of the result for pi, times w_i / pi_i
        for tag, w in (("int64", np.round(cx.pi * 2.0 ** 20).astype(np.int64)),
                       ("int32", np.round(cx.pi * 1000.0).astype(np.int32)),
                       ("float32", cx.pi.astype(np.float32))):
            a2, _ = cx.args()
            F2 = _mat(_quiet(tpt.reactive_fluxes, *a2, populations=w.copy()), cx.n, "reactive_fluxes")
            ratio = np.where(cx.pi > 0, w.astype(np.float64) / np.where(cx.pi > 0, cx.pi, 1.0), 0.0)
            want = F * ratio[:, None]
            require(bool(np.all(np.abs(F2 - want) <= 1e-12 * np.abs(want) + ZERO * float(np.max(ratio)))),
                    "reactive flux is not linear in the populations: weights given as %s" % tag,
                    got=F2.tolist(), want=want.tolist(), weights=w.tolist())
        extra.append("populations_also_as_counts=True")
    return cx.info(extra)


# --------------------------------------------------------------------------
# clause 2: net flux = positive part of f - f^T

def check_net(cx, N, F):
    require(bool(np.all(N >= 0)), "net flux has a negative entry", net=N.tolist())
    both = np.minimum(N, N.T)
    # the positive part of x and of -x cannot both be non-zero: exact zero is the claim
    require(bool(np.all(both == 0)), "both directions of a pair carry net flux",
            pairs=np.argwhere(both != 0).tolist(), net=N.tolist())
    want = np.maximum(F - F.T, 0.0)
    require(W("net_vs_lib", N - want, ZERO + 1e-12 * np.maximum(np.abs(F), np.abs(F.T))),
            "net flux is not the positive part of (flux - flux^T) of reactive_fluxes",
            net=N.tolist(), flux=F.tolist())
    ref = np.maximum(cx.flux - cx.flux.T, 0.0)
    require(W("net_vs_ref", N - ref, cx.ftol + cx.ftol.T),
            "net flux differs from the positive part of the reference flux difference",
            net=N.tolist(), want=ref.tolist())


def run_net(case):
    cx = Ctx(case)
    a, kw = cx.args()
    N = _mat(_quiet(tpt.net_fluxes, *a, **kw), cx.n, "net_fluxes")
    a, kw = cx.args()
    F = _mat(_quiet(tpt.reactive_fluxes, *a, **kw), cx.n, "reactive_fluxes")
    check_net(cx, N, F)
    bidir = bool(np.any((cx.flux > 1e-12) & (cx.flux.T > 1e-12)))
    return cx.info(["has_bidirectional_flux=%s" % bidir])


# --------------------------------------------------------------------------
# clause 3: conservation

def check_conservation(cx, N):
    inflow, outflow = N.sum(axis=0), N.sum(axis=1)
    total_out = float(N[cx.src, :].sum())
    total_in = float(N[:, cx.snk].sum())
    if cx.inter:
        ii = cx.inter
        bad = np.abs(inflow[ii] - outflow[ii])
        ok = W("balance", bad, BAL_ATOL + BAL_RTOL * np.maximum(inflow[ii], outflow[ii]))
        require(ok, "net flux into an intermediate state differs from net flux out of it", states=ii,
                inflow=inflow[ii].tolist(), outflow=outflow[ii].tolist(), net=N.tolist())
    # exact zeros unless a committor is a rounding error outside [0, 1] (then of the order eps * edge weight)
    pair = cx.ftol + cx.ftol.T
    require(W("into_sources", N[:, cx.src], pair[:, cx.src]), "net flux flows into a source state",
            columns=N[:, cx.src].tolist(), sources=cx.src)
    require(W("out_of_sinks", N[cx.snk, :], pair[cx.snk, :]), "net flux flows out of a sink state",
            rows=N[cx.snk, :].tolist(), sinks=cx.snk)
    require(W("total", total_out - total_in, BAL_ATOL + BAL_RTOL * max(total_out, total_in)),
            "total outflow from the sources differs from total inflow to the sinks",
            out_of_sources=total_out, into_sinks=total_in)
    require(total_out > 0, "no net flux leaves the sources of an irreducible chain", net=N.tolist())
    ref_total = float(cx.flux[cx.src, :].sum())     # nothing flows back into the sources (q+ = 0 there)
    require(W("total_ref", total_out - ref_total, float(cx.ftol[cx.src, :].sum())),
            "total reactive flux differs from the reference value", got=total_out, want=ref_total)


def run_conservation(case):
    cx = Ctx(case)
    a, kw = cx.args()
    N = _mat(_quiet(tpt.net_fluxes, *a, **kw), cx.n, "net_fluxes")
    check_conservation(cx, N)
    return cx.info()


# --------------------------------------------------------------------------
# clause 4: reactive populations

def check_pops(cx, P):
    require(isinstance(P, np.ndarray) and P.shape == (cx.n,), "reactive_populations is not an (n_states,) ndarray",
            type=type(P).__name__, shape=getattr(P, "shape", None))
    P = P.astype(np.float64)
    require(bool(np.all(np.isfinite(P))), "reactive populations not finite", got=P.tolist())
    dens = cx.pi * cx.qf * cx.qb
    S = float(dens.sum())
    ref = dens / S
    # d_i = pi_i q_i (1-q_i) is known to qtol*pi_i; after normalisation the error is at most 2*qtol/S
    tol = 1e-12 + (2.0 * cx.qtol + (cx.n + 1) * cx.pi_tol) / S
    require(W("pops_nonneg", np.maximum(-P, 0.0), tol), "negative reactive population", got=P.tolist())
    require(W("pops_sum", P.sum() - 1.0, 1e-12), "reactive populations do not sum to 1", total=float(P.sum()),
            got=P.tolist())
    require(W("pops_src", P[cx.src], ZERO), "reactive population does not vanish on a source",
            got=P.tolist(), sources=cx.src)
    require(W("pops_snk", P[cx.snk], ZERO), "reactive population does not vanish on a sink",
            got=P.tolist(), sinks=cx.snk)
    require(W("pops_ref", P - ref, tol), "reactive populations are not proportional to pi * q+ * q-",
            got=P.tolist(), want=ref.tolist())
    return P


def run_pops(case):
    cx = Ctx(case)
    if cx.no_reactive_state:
        raise Skip("reactive density is identically zero")
    a, kw = cx.args()
    check_pops(cx, _quiet(tpt.reactive_populations, *a, **kw))
    return cx.info()



# --------------------------------------------------------------------------
# clause 8: the same container object, refilled in place with another reversible chain, analysed again

REFILL_CONT = ["ndarray", "ndarray_F", "lil", "csr_expl0"]


@st.composite
def refill_case(draw, max_n=7):
    ch = draw(R.chain(max_n=max_n, kinds=R.REV_KINDS, wide_ok=False))
    ch2 = draw(R.chain(min_n=ch["n"], max_n=ch["n"], kinds=R.REV_KINDS, wide_ok=False))
    src, snk = draw(R.disjoint_sets(ch["n"], min_inter=1))
    return {"chain": ch, "chain2": ch2, "sources": src, "sinks": snk, "container": draw(st.sampled_from(REFILL_CONT)),
            "src_form": "list", "snk_form": "list", "pops": "none",
            "first": draw(st.sampled_from(["reactive_fluxes", "net_fluxes", "reactive_populations"])),
            "second": draw(st.sampled_from(["reactive_fluxes", "net_fluxes", "conservation"]))}


def run_refill(case):
    cx1 = Ctx(case)
    case2 = dict(case)
    case2["chain"] = case["chain2"]
    cx2 = Ctx(case2)
    X = R.to_container(cx1.T, case["container"])
    src, snk = list(cx1.src), list(cx1.snk)
    try:
        first = _quiet(getattr(tpt, case["first"]), X, src, snk)
    except Exception:
        first = None            # e.g. reactive density identically zero: the first call only has to have happened
    kept = None if first is None else np.array(R.dense_of(first), copy=True)
    T2 = cx2.T
    cont = case["container"]
    if cont.startswith("ndarray"):
        X[...] = T2
    elif cont == "lil":
        with warnings.catch_warnings():
            warnings.simplefilter("ignore")
            for i in range(cx1.n):
                for j in range(cx1.n):
                    X[i, j] = T2[i, j]
    else:
        X.data[...] = T2.ravel()
    require(bool(np.array_equal(R.dense_of(X), T2)), "harness: refill failed")
    if case["second"] == "reactive_fluxes":
        F = _mat(_quiet(tpt.reactive_fluxes, X, src, snk), cx2.n, "reactive_fluxes")
        check_flux(cx2, F)
    else:
        N = _mat(_quiet(tpt.net_fluxes, X, src, snk), cx2.n, "net_fluxes")
        check_conservation(cx2, N)
    if kept is not None:
        require(bool(np.array_equal(R.dense_of(first), kept, equal_nan=True)), "the result of the first call changed during the second call")
    differ = not np.allclose(cx1.pi, cx2.pi)
    i = cx2.info(["first=" + case["first"], "second=" + case["second"], "populations_differ=%s" % differ])
    return Info(i.nontrivial and differ, i.classes)


# --------------------------------------------------------------------------
# clause 9: a refused call (populations of the wrong length) leaves the caller's objects usable

def run_refused_then_reuse(case):
    cx = Ctx(case)
    a, kw = cx.args()
    refused = 0
    for fn, bad in ((tpt.reactive_fluxes, np.full(cx.n + 1, 1.0 / (cx.n + 1))), (tpt.net_fluxes, np.full(max(cx.n - 1, 1), 0.5)),
                    (tpt.reactive_populations, np.ones((2, cx.n)))):
        try:
            _quiet(fn, *a, populations=bad)       # _quiet itself reports arguments changed by the refused call
        except Violation:
            raise
        except Exception:
            refused += 1
    F = _mat(_quiet(tpt.reactive_fluxes, *a, **kw), cx.n, "reactive_fluxes")
    check_flux(cx, F)
    N = _mat(_quiet(tpt.net_fluxes, *a, **kw), cx.n, "net_fluxes")
    check_conservation(cx, N)
    i = cx.info(["refused_calls=%d" % refused])
    selfloops = bool(np.any(np.diag(cx.T) > 0))
    return Info(i.nontrivial and refused > 0 and selfloops, i.classes)

# --------------------------------------------------------------------------
# clause 5: every container, same values

def run_containers(case):
    cx = Ctx(case)
    base = None
    for cont in R.CONTAINERS:
        a, kw = cx.args(cont)
        F = _mat(_quiet(tpt.reactive_fluxes, *a, **kw), cx.n, "reactive_fluxes[%s]" % cont)
        a, kw = cx.args(cont)
        N = _mat(_quiet(tpt.net_fluxes, *a, **kw), cx.n, "net_fluxes[%s]" % cont)
        a, kw = cx.args(cont)
        P = np.asarray(_quiet(tpt.reactive_populations, *a, **kw), dtype=np.float64)
        if cx.no_reactive_state:
            P = np.zeros(cx.n)      # undefined (0/0) - not compared
        if base is None:
            base = (F, N, P)
            check_flux(cx, F)
            check_net(cx, N, F)
            check_conservation(cx, N)
            if not cx.no_reactive_state:
                check_pops(cx, P)
            continue
        for nm, got, want in (("reactive_fluxes", F, base[0]), ("net_fluxes", N, base[1]),
                              ("reactive_populations", P, base[2])):
            require(got.shape == want.shape, "%s: shape differs between ndarray and %s input" % (nm, cont))
            tol = 2 * cx.ftol if got.ndim == 2 else (2.0 * cx.qtol + (cx.n + 1) * cx.pi_tol) / float(
                (cx.pi * cx.qf * cx.qb).sum() or 1.0)
            require(W("same_" + nm, got - want, SAME + tol),
                    "%s differs between ndarray and %s input" % (nm, cont), dense=want.tolist(), other=got.tolist())
    return cx.info()


# --------------------------------------------------------------------------
# exhaustive sub-domain (thorough)

FIXED = [
    {"n": 4, "kind": "rev", "E": None,
     "M": [[6, 3, 0, 1], [3, 0, 8, 2], [0, 8, 5, 4], [1, 2, 4, 0]]},
    {"n": 5, "kind": "rev", "E": None,
     "M": [[4, 2, 0, 0, 1], [2, 0, 7, 3, 0], [0, 7, 1, 5, 0], [0, 3, 5, 0, 9], [1, 0, 0, 9, 2]]},
]


def exhaustive_pairs(tier, shard, nshards):
    if tier != "thorough":
        return None

    def gen():
        idx = 0
        for ch in FIXED:
            n = ch["n"]
            for lab in itertools.product((0, 1, 2), repeat=n):
                src = [i for i in range(n) if lab[i] == 1]
                snk = [i for i in range(n) if lab[i] == 2]
                if not src or not snk or len(src) + len(snk) == n:
                    continue
                for cont in ("ndarray", "csr", "lil"):
                    for pops in ("none", "given"):
                        idx += 1
                        if idx % nshards != shard:
                            continue
                        yield {"chain": ch, "container": cont, "sources": src, "sinks": snk,
                               "src_form": "list", "snk_form": "int64", "pops": pops}
    return gen()


# --------------------------------------------------------------------------
# big chains: individual edge fluxes become tiny (1e-8 and below) simply because there are many states, which is the
# normal regime of real models; plus argument immutability (a flux routine that rewrites the caller's populations
# corrupts every later call made with them)

@st.composite
def big_case(draw):
    # (one case in six has just over a thousand states: beyond any internal row-block of a dense computation)
    return {"n": draw(st.one_of(st.integers(150, 400), st.integers(150, 400), st.integers(150, 400), st.integers(150, 400),
                                st.integers(150, 400), st.sampled_from([1025, 1030, 1100]))),
            "seed": draw(st.integers(0, 2 ** 31 - 1)),
            # also source / sink SETS of dozens of states (a folded / unfolded ensemble), beyond any internal block of
            # right-hand sides
            "nsrc": draw(st.sampled_from([1, 2, 3, 3, 40])), "nsnk": draw(st.sampled_from([1, 2, 3, 3, 64, 65, 100])),
            "container": draw(st.sampled_from(["ndarray", "ndarray", "ndarray_F", "csr", "csc"])),
            "pops": draw(st.sampled_from(["given", "given", "computed"])),
            "density": draw(st.sampled_from([1.0, 0.2])),
            # nearly all population in the end states: reactive fluxes of 1e-9 .. 1e-17 (absolute magnitudes have no
            # meaning: a flux of 1e-17 is as much a flux as one of 0.1)
            "ends_weight": draw(st.sampled_from([0, 0, 1e6, 1e12, 1e15]))}


def run_big(case):
    rng = np.random.RandomState(case["seed"])            # seed drawn by Hypothesis
    n = case["n"]
    Wt = rng.rand(n, n) + 0.05
    if case["density"] < 1:
        Wt *= (rng.rand(n, n) < case["density"])
        for k in range(n):
            Wt[k, (k + 1) % n] += 0.5
    Wt = Wt + Wt.T
    perm = rng.permutation(n)
    src = sorted(int(x) for x in perm[:case["nsrc"]])
    snk = sorted(int(x) for x in perm[case["nsrc"]:case["nsrc"] + case["nsnk"]])
    if case.get("ends_weight"):
        for s_ in src + snk:
            Wt[s_, s_] += case["ends_weight"] * n
        case = dict(case, pops="given")          # (a chain this metastable has no accurately computable eigenvector)
    r = Wt.sum(axis=1)
    T = Wt / r[:, None]
    pi = r / r.sum()
    qf = R.ref_committor(T, src, snk)
    qb = 1.0 - qf                                         # reversible chain
    Fref = pi[:, None] * qb[:, None] * T * qf[None, :]
    np.fill_diagonal(Fref, 0.0)
    Nref = np.maximum(Fref - Fref.T, 0.0)
    X = R.to_container(T, case["container"])
    pops = pi.copy()
    kw = {"populations": pops} if case["pops"] == "given" else {}
    Tb = T.copy()
    F = R.dense_of(tpt.reactive_fluxes(X, src, snk, **kw))
    N = R.dense_of(tpt.net_fluxes(X, src, snk, **kw))
    P = np.asarray(tpt.reactive_populations(X, src, snk, **kw)).ravel()
    require(np.array_equal(pops, pi), "a flux routine modified the caller's populations array")
    require(np.array_equal(R.dense_of(X), Tb), "a flux routine modified the caller's transition matrix")
    rtol = 1e-6 if case["pops"] == "given" else 1e-4      # computed pi: eigen-solver accuracy ~ eps/gap
    scale = np.maximum(Fref, Fref.T)
    bad = np.abs(F - Fref) > rtol * scale + 1e-300
    require(not bad.any(), "reactive flux differs from its definition on a big chain (relative tolerance per edge)",
            n=n, worst=float(np.max(np.abs(F - Fref) / (scale + 1e-300))), edge=np.argwhere(bad)[:3].tolist(),
            got=F[bad][:3].tolist(), want=Fref[bad][:3].tolist())
    bad = np.abs(N - Nref) > rtol * scale + 1e-300
    require(not bad.any(), "net flux is not the positive part of flux - flux^T on a big chain (relative tolerance per edge)",
            n=n, edges=int(bad.sum()), got=N[bad][:3].tolist(), want=Nref[bad][:3].tolist(),
            smallest_true_net=float(Nref[Nref > 0].min()) if (Nref > 0).any() else 0.0)
    inter = [i for i in range(n) if i not in src and i not in snk]
    inflow, outflow = N.sum(axis=0), N.sum(axis=1)
    require(np.all(np.abs(inflow[inter] - outflow[inter]) <= 1e-6 * np.maximum(inflow[inter], outflow[inter]) + 1e-300),
            "net flux not conserved at an intermediate state of a big chain",
            worst=float(np.max(np.abs(inflow[inter] - outflow[inter]))))
    # second call with the SAME argument objects gives the same answer
    P2 = np.asarray(tpt.reactive_populations(X, src, snk, **kw)).ravel()
    require(np.array_equal(P, P2), "reactive_populations called twice on the same arguments gave different values")
    tiny = int(((Nref > 0) & (Nref < 1e-8)).sum())
    return Info(tiny > 0 or len(snk) > 64, ["big_container=" + case["container"], "big_pops=" + case["pops"], "big_over_1024_states=%s" % (case["n"] > 1024),
                           "big_sinks=%s" % ("<=3" if len(snk) <= 3 else "64" if len(snk) == 64 else ">64"),
                           "ends_weight=%g" % case.get("ends_weight", 0),
                           "edges_below_1e-8=%s" % ("0" if tiny == 0 else "some" if tiny < 100 else "many")])


# --------------------------------------------------------------------------
# >= 1000-state sparse chains: the library computes the populations itself through its sparse (ARPACK) eigen-solver

@st.composite
def arpack_case(draw):
    return {"n": draw(st.sampled_from([1000, 1001, 1100])), "seed": draw(st.integers(0, 2 ** 31 - 1)),
            "n_clusters": draw(st.integers(2, 4)), "nsrc": draw(st.integers(1, 2)), "nsnk": draw(st.integers(1, 2)),
            "container": draw(st.sampled_from(["csr", "coo", "csc"])),
            "set_form": draw(st.sampled_from(["list", "col2d", "nested"]))}


def run_arpack(case):
    from vf import ref_c16
    n = case["n"]
    Ts = ref_c16.seeded_big_sparse(n, case["seed"], "rev_clusters", n_clusters=case["n_clusters"])
    T = np.asarray(Ts.toarray())
    A = T.T - np.eye(n)
    A[-1, :] = 1.0
    b = np.zeros(n)
    b[-1] = 1.0
    pi = np.linalg.solve(A, b)                         # stationary distribution, dense reference
    require(np.all(pi > 0) and abs(pi.sum() - 1) < 1e-9, "harness: reference stationary vector invalid")
    rng = np.random.RandomState(case["seed"] + 1)
    perm = rng.permutation(n)
    src = sorted(int(x) for x in perm[:case["nsrc"]])
    snk = sorted(int(x) for x in perm[case["nsrc"]:case["nsrc"] + case["nsnk"]])
    qf = R.ref_committor(T, src, snk)
    Fref = pi[:, None] * (1.0 - qf)[:, None] * T * qf[None, :]
    np.fill_diagonal(Fref, 0.0)
    X = {"csr": Ts.tocsr(), "coo": Ts.tocoo(), "csc": Ts.tocsc()}[case["container"]]
    S, K = R.set_arg(src, case["set_form"]), R.set_arg(snk, case["set_form"])
    F = R.dense_of(tpt.reactive_fluxes(X, S, K))        # populations omitted: computed by the library
    scale = np.maximum(Fref, Fref.T)
    tot_ref = float(Fref[src, :].sum())
    tot = float(F[src, :].sum())
    require(abs(tot - tot_ref) <= 1e-5 * tot_ref, "total reactive flux out of the sources differs from the reference on a "
            ">=1000-state sparse chain (populations computed by the library)", got=tot, want=tot_ref, n=n)
    bad = np.abs(F - Fref) > 1e-4 * scale + 1e-300
    require(not bad.any(), "reactive flux differs from its definition on a >=1000-state sparse chain",
            n=n, edges=int(bad.sum()), worst=float(np.max(np.abs(F - Fref) / (scale + 1e-300))))
    N = R.dense_of(tpt.net_fluxes(X, S, K))
    inter = [i for i in range(n) if i not in src and i not in snk]
    inflow, outflow = N.sum(axis=0), N.sum(axis=1)
    require(np.all(np.abs(inflow[inter] - outflow[inter]) <= 1e-5 * np.maximum(inflow[inter], outflow[inter]) + 1e-300),
            "net flux not conserved at an intermediate state (>=1000-state sparse chain)")
    return Info(True, ["arpack_container=" + case["container"], "arpack_n=%d" % n, "set_form=" + case["set_form"]],
                key=[case["n"], case["seed"], case["container"], case["nsrc"], case["nsnk"]])


CLAUSES = [
    Clause("flux_definition", flux_case(), run_flux, quick=1500, thorough=12000, exhaustive=exhaustive_pairs,
           doc="f_ij = pi_i q-_i T_ij q+_j off the diagonal, 0 on it"),
    Clause("net_positive_part", flux_case(), run_net, quick=1200, thorough=10000,
           doc="net = max(f - f^T, 0); at most one direction of a pair is non-zero"),
    Clause("conservation", flux_case(), run_conservation, quick=1200, thorough=10000, exhaustive=exhaustive_pairs,
           doc="in = out at intermediates; nothing into sources / out of sinks; out of sources = into sinks"),
    Clause("reactive_populations", flux_case(reactive_only=True), run_pops, quick=1000, thorough=8000,
           doc="probability vector, zero on sources and sinks, proportional to pi q+ q-"),
    Clause("containers_agree", multi_case(), run_containers, quick=200, thorough=2000,
           doc="every sparse container gives the ndarray values"),
    Clause("big_chain_relative", big_case(), run_big, quick=24, thorough=400,
           doc="definition, net flux, conservation with per-edge relative tolerance on 150-400 state chains; arguments untouched"),
    Clause("arpack_chain", arpack_case(), run_arpack, quick=8, thorough=64,
           doc="definition + conservation on >=1000-state sparse chains with library-computed populations"),
    Clause("second_call_refilled", refill_case(), run_refill, quick=600, thorough=5000,
           doc="analyse, refill the same container object in place with another reversible chain, analyse again "
               "(populations computed by the library both times)"),
    Clause("refused_call_then_reuse", flux_case(), run_refused_then_reuse, quick=400, thorough=4000,
           doc="calls refused for a wrong-length populations vector, then the same container analysed normally"),
    Clause("flux_definition_large", flux_case(max_n=25), run_flux, quick=0, thorough=2500),
    Clause("conservation_large", flux_case(max_n=25), run_conservation, quick=0, thorough=2500),
    Clause("reactive_populations_large", flux_case(max_n=25, reactive_only=True), run_pops, quick=0, thorough=1500),
    Clause("containers_agree_large", multi_case(max_n=20), run_containers, quick=0, thorough=300),
]


# --------------------------------------------------------------------------
# matcher for the (repairable, see proposed_fixes/C08-1.diff) defect: net_fluxes rejects sparse containers

def m_net_fluxes_sparse_where(case, exc):
    """net_fluxes() on scipy.sparse input dies in np.where(<sparse comparison>)."""
    import traceback
    if not isinstance(exc, ValueError):
        return False
    frames = [(f.filename, f.name) for f in traceback.extract_tb(exc.__traceback__)]
    inside = any(fn.endswith("enspara/tpt/tpt.py") and name == "net_fluxes" for fn, name in frames)
    cont = case.get("container")
    sparse_case = cont in R.SPARSE or cont is None
    return inside and sparse_case and "nonzero" in str(exc)


MATCHERS = {"net_fluxes_sparse_where": m_net_fluxes_sparse_where}
