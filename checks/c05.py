"""C05 - reading a ragged array equals reading the list of its rows.

Every clause builds the library object and the model (`rows`, a python list of numpy arrays) from the same
generated description, evaluates one read on both and applies the three-way verdict of DESIGN.md section 2 C05:

  1. model raises IndexError (row / element out of range)  -> library must raise (returning data = violation);
  2. model result has no rows or an empty row (not representable with positive row lengths)
                                                          -> library may raise, or return the *equal* structure;
  3. otherwise                                            -> equal values AND equal row structure.

The model lives in vf/ref_ragged.py (shared with C06).
"""
import itertools

import numpy as np
from hypothesis import strategies as st

from vf.harness import Clause, Info, require, Violation
from vf import ref_ragged as R

from enspara import ra

PROPERTY = "C05"
LEVEL = "exploration"
RULE = ("Hypothesis draws a ragged array description: 1..6 rows of length 1..7 (1..12 rows of length 1..20 in the "
        "thorough-only any_large clause) with a forced all-equal class of one third (rectangular fast path), element shape scalar / (2,) / (3,2), dtype "
        "int64 / float64 / bool, distinct arange-based content, one of five construction paths (nested lists, list "
        "of ndarrays, flat data + lengths as ndarray / list of python ints / list of numpy ints), and one index "
        "expression of the clause's grammar form: a[i], a[slice], a[list|ndarray], a[i,j], a[i,slice], "
        "a[slice|rows,slice] split by the sign pattern of the second-dimension slice (forward / negative start / "
        "negative step) and a[general first-dimension slice, .], a[slice,j], a[slice,cols], paired fancy a[rows,cols] "
        "/ a[i,cols] / a[rows,j], a[ragged bool mask] (built from arrays, flat+lengths or the library's own "
        "comparison operator), ra.where, iteration, flatten and the lengths/starts/shape/size/dtype attributes. "
        "Bounds are drawn from None and [-L-2, L+2], steps from {None,1,2,3,-1,-2,-3}, integer indices inside and "
        "outside the rows. Oracle: the same expression on the python list of per-row numpy arrays; three-way "
        "verdict (model IndexError -> library must raise; empty row / no rows -> may raise or equal structure; else "
        "equal values and equal row lengths, read back through a[k], lengths, starts, size and flatten). "
        "A case is non-trivial when the expression has a second-dimension component and the row lengths are not "
        "all equal, or when it hits equal-length rows with a negative bound or step; for one-dimensional forms and "
        "attributes when there are >= 2 rows of unequal length. distinct = distinct canonical JSON of the case. "
        "Thorough additionally enumerates every length vector with <= 3 rows of length <= 3 against every pair of "
        "slices (bounds None or within one beyond the extent: [-(n+1), n+1] over n rows, [-(L+1), L+1] over the "
        "longest row; steps {None,2,-1}), every a[slice] and a[i, slice] with bounds in [-4,4] + None and steps "
        "{None,1,2,-1}, every (i,j) in [-5,5]^2 and every a[slice, j] with j in [-4,4].")
ASSUMPTIONS = [
    "row lengths are positive (the class cannot represent empty rows); results with empty rows / no rows may raise",
    "index lists / arrays are non-empty integer sequences; paired fancy indices have equal length "
    "(a[rows, j] with an integer j is the supported way to pair one column with several rows)",
    "boolean masks are ragged arrays of scalar booleans with the same row lengths as the array they index",
    "element dtype of returned rows is not compared (rows are legitimately stored in object arrays); "
    "a single element may come back as a 1-element array",
    "lengths passed to the constructor are consistent with the flat data (sum(lengths) == len(data))",
]
SHARDS = {"quick": 4, "thorough": 16}

POS_STEPS = (None, None, 1, 2, 3)
NEG_STEPS = (-1, -1, -2, -3)


# ======================================================================================================
# generators (everything is drawn here; cases are plain JSON)

@st.composite
def arr_part(draw, max_rows=6, max_len=7, eshapes=("scalar",), hows=R.CONSTRUCTIONS, min_rows=1):
    n = draw(st.integers(min_rows, max_rows))
    if draw(st.sampled_from(["equal", "ragged", "ragged"])) == "equal":
        lengths = [draw(st.integers(1, max_len))] * n
    else:
        lengths = draw(st.lists(st.integers(1, max_len), min_size=n, max_size=n))
    return {"lengths": lengths,
            "eshape": draw(st.sampled_from(eshapes)),
            "dtype": draw(st.sampled_from(["int64", "int64", "float64", "bool"])),
            "how": draw(st.sampled_from(hows)),
            "offset": draw(st.integers(0, 40))}


def _bound(draw, lo, hi):
    return draw(st.one_of(st.none(), st.integers(lo, hi)))


def draw_slice(draw, L, kind="any"):
    """[start, stop, step] for an axis of extent (at most) L."""
    if kind == "forward":        # start >= 0 or None, step > 0, any stop
        return [_bound(draw, 0, L + 2), _bound(draw, -L - 2, L + 2), draw(st.sampled_from(POS_STEPS))]
    if kind == "negstart":
        return [draw(st.integers(-L - 2, -1)), _bound(draw, -L - 2, L + 2), draw(st.sampled_from(POS_STEPS))]
    if kind == "negstep":
        return [_bound(draw, -L - 2, L + 2), _bound(draw, -L - 2, L + 2), draw(st.sampled_from(NEG_STEPS))]
    if kind == "rows_simple":    # first dimension: start in [-n, n+2], stop in [-n-2, n], step > 0
        return [_bound(draw, -L, L + 2), _bound(draw, -L - 2, L), draw(st.sampled_from(POS_STEPS))]
    return [_bound(draw, -L - 2, L + 2), _bound(draw, -L - 2, L + 2),
            draw(st.sampled_from(POS_STEPS + NEG_STEPS))]


def draw_int(draw, v):
    return {"t": draw(st.sampled_from(["int", "int", "npint"])), "v": int(v)}


def draw_seq(draw, vals):
    vals = [int(x) for x in vals]
    t = draw(st.sampled_from(["list", "nd", "nd"]))
    e = {"t": t, "v": vals}
    if t == "nd":
        # valid index values in a narrow element type: flat offsets computed in that type would wrap
        fits = [dt for dt in ("int8", "int16", "int32", "uint8", "uint16")
                if all(np.iinfo(dt).min <= v <= np.iinfo(dt).max for v in vals)]
        dt = draw(st.sampled_from(["int64", "int64"] + fits))
        if dt != "int64":
            e["dt"] = dt
    return e


def draw_row_index(draw, n, oob=False):
    if oob:
        return draw(st.one_of(st.integers(n, n + 2), st.integers(-n - 3, -n - 1)))
    return draw(st.integers(-n, n - 1))


def draw_rows_seq(draw, n, max_size=4):
    return draw_seq(draw, draw(st.lists(st.integers(-n, n - 1), min_size=1, max_size=max_size)))


def draw_col(draw, L, oob=None):
    """Column index for a row of length L: inside, or outside above ('hi') / below ('lo')."""
    if oob == "hi":
        return draw(st.integers(L, L + 2))
    if oob == "lo":
        return draw(st.integers(-L - 3, -L - 1))
    return draw(st.integers(-L, L - 1))


def draw_first(draw, n, kinds=("slice", "rows")):
    """First-dimension selector for the two-dimensional slice forms."""
    if draw(st.sampled_from(kinds)) == "slice":
        if draw(st.booleans()):
            return {"t": "slice", "v": [None, None, None]}
        return {"t": "slice", "v": draw_slice(draw, n, "rows_simple")}
    return draw_rows_seq(draw, n)


def tup(a, b):
    return {"t": "tuple", "a": a, "b": b}


def _with(arr, index, **extra):
    c = dict(arr)
    c["index"] = index
    c.update(extra)
    return c


@st.composite
def case_row_int(draw, **kw):
    arr = draw(arr_part(**kw))
    n = len(arr["lengths"])
    return _with(arr, draw_int(draw, draw_row_index(draw, n, oob=draw(st.integers(0, 4)) == 0)))


@st.composite
def case_row_slice(draw, **kw):
    arr = draw(arr_part(**kw))
    return _with(arr, {"t": "slice", "v": draw_slice(draw, len(arr["lengths"]), "any")})


@st.composite
def case_row_list(draw, **kw):
    arr = draw(arr_part(**kw))
    n = len(arr["lengths"])
    vals = draw(st.lists(st.integers(-n, n - 1), min_size=1, max_size=5))
    if draw(st.integers(0, 5)) == 0:
        vals[draw(st.integers(0, len(vals) - 1))] = draw_row_index(draw, n, oob=True)
    return _with(arr, draw_seq(draw, vals))


@st.composite
def case_element(draw, **kw):
    arr = draw(arr_part(**kw))
    lengths = arr["lengths"]
    i = draw_row_index(draw, len(lengths))
    return _with(arr, tup(draw_int(draw, i), draw_int(draw, draw_col(draw, lengths[i]))))


@st.composite
def case_oob(draw, **kw):
    """An element-type access with at least one index outside its row (or one row outside the array)."""
    arr = draw(arr_part(**kw))
    lengths = arr["lengths"]
    n = len(lengths)
    form = draw(st.sampled_from(["int,int", "int,cols", "rows,int", "rows,cols", "slice,int", "slice,cols"]))
    what = draw(st.sampled_from(["hi", "lo", "row"]))
    if form in ("slice,int", "slice,cols"):
        s = [None, None, None] if draw(st.booleans()) else draw_slice(draw, n, "rows_simple")
        sel = lengths[slice(*s)]
        if not sel:
            s, sel = [None, None, None], lengths
        lo, hi = min(sel), max(sel)
        # outside at least one selected row: beyond the shortest row (maybe inside longer ones), or below -shortest
        if what == "lo":
            bad = draw(st.integers(-hi - 2, -lo - 1))
        else:
            bad = draw(st.integers(lo, hi + 1))
        if form == "slice,int":
            b = draw_int(draw, bad)
        else:
            cols = draw(st.lists(st.integers(-lo, lo - 1), min_size=0, max_size=2))
            cols.insert(draw(st.integers(0, len(cols))), bad)
            b = draw_seq(draw, cols)
        return _with(arr, tup({"t": "slice", "v": s}, b), oob=what if what != "row" else "hi")
    k = 1 if form.startswith("int") else draw(st.integers(1, 4))
    ii = [draw_row_index(draw, n) for _ in range(k)]
    pos = draw(st.integers(0, k - 1))
    if form == "rows,int":
        # one column for all rows: outside at least one of them
        lo, hi = min(lengths[i] for i in ii), max(lengths[i] for i in ii)
        if what == "row":
            ii[pos] = draw_row_index(draw, n, oob=True)
            j = draw(st.integers(-lo, lo - 1))
        elif what == "lo":
            j = draw(st.integers(-hi - 2, -lo - 1))
        else:
            j = draw(st.integers(lo, hi + 1))
        return _with(arr, tup(draw_seq(draw, ii), draw_int(draw, j)), oob=what)
    if form == "int,cols":
        L = lengths[ii[0]]
        cols = draw(st.lists(st.integers(-L, L - 1), min_size=0, max_size=3))
        if what == "row":
            cols = cols or [0]
            a = draw_int(draw, draw_row_index(draw, n, oob=True))
        else:
            cols.insert(draw(st.integers(0, len(cols))), draw_col(draw, L, what))
            a = draw_int(draw, ii[0])
        return _with(arr, tup(a, draw_seq(draw, cols)), oob=what)
    jj = [draw_col(draw, lengths[i]) for i in ii]
    if what == "row":
        ii[pos] = draw_row_index(draw, n, oob=True)
    else:
        jj[pos] = draw_col(draw, lengths[ii[pos]], what)
    if form == "int,int":
        return _with(arr, tup(draw_int(draw, ii[0]), draw_int(draw, jj[0])), oob=what)
    return _with(arr, tup(draw_seq(draw, ii), draw_seq(draw, jj)), oob=what)


@st.composite
def case_int_slice(draw, **kw):
    arr = draw(arr_part(**kw))
    lengths = arr["lengths"]
    i = draw_row_index(draw, len(lengths), oob=draw(st.integers(0, 9)) == 0)
    L = lengths[i] if -len(lengths) <= i < len(lengths) else max(lengths)
    return _with(arr, tup(draw_int(draw, i), {"t": "slice", "v": draw_slice(draw, L, "any")}))


@st.composite
def case_slice2d(draw, sign="forward", **kw):
    arr = draw(arr_part(**kw))
    lengths = arr["lengths"]
    n, L = len(lengths), max(lengths)
    a = draw_first(draw, n)
    if a["t"] != "slice" and draw(st.integers(0, 9)) == 0:
        a["v"][draw(st.integers(0, len(a["v"]) - 1))] = draw_row_index(draw, n, oob=True)
    mode = draw(st.sampled_from(["tame", "tame", "wild"]))
    if mode == "wild":
        s = draw_slice(draw, L, sign)
    else:
        # slices that leave every row of length >= 1 non-empty whenever possible
        m = min(lengths)
        if sign == "forward":
            s = [draw(st.sampled_from([None, 0, 0, min(1, m - 1)])),
                 draw(st.sampled_from([None, L, L + 1, -1 if m > 1 else None, m, max(1, m - 1)])),
                 draw(st.sampled_from(POS_STEPS))]
        elif sign == "negstart":
            s = [draw(st.integers(-L - 1, -1)),
                 draw(st.sampled_from([None, None, L, L + 1, m])),
                 draw(st.sampled_from(POS_STEPS))]
        else:
            s = [draw(st.sampled_from([None, None, -1, -1, L, L - 1, m - 1])),
                 draw(st.sampled_from([None, None, -L - 1, -L - 2, 0])),
                 draw(st.sampled_from(NEG_STEPS))]
    return _with(arr, tup(a, {"t": "slice", "v": s}))


@st.composite
def case_dim1_general(draw, **kw):
    """General first-dimension slice (negative steps, bounds beyond the number of rows) with a forward second
    dimension (slice / int / column list valid in every row)."""
    arr = draw(arr_part(**kw))
    lengths = arr["lengths"]
    n, m = len(lengths), min(lengths)
    if draw(st.booleans()):
        s1 = draw_slice(draw, n, "any")
    else:   # selections that keep at least one row
        s1 = draw(st.sampled_from([[None, None, -1], [None, None, -2], [-1, None, -1], [n - 1, None, -1],
                                   [-n - 1, None, None], [-n - 2, None, 1], [None, n + 1, None], [0, n + 2, 1],
                                   [-n - 1, n + 1, 1], [n + 1, None, -1], [None, -n - 1, -1], [n, 0, -1],
                                   [-1, 0, -1], [-1, -n - 1, -1], [-1, -n - 2, -2], [n - 1, -n - 1, -1]]))
    kind = draw(st.sampled_from(["slice", "slice", "int", "cols"]))
    if kind == "slice":
        b = {"t": "slice", "v": draw(st.sampled_from([[None, None, None], [0, None, None], [None, m, None],
                                                       [0, max(lengths), 1], [None, 1, None], [0, None, 2]]))}
    elif kind == "int":
        b = draw_int(draw, draw(st.integers(-m, m - 1)))
    else:
        b = draw_seq(draw, draw(st.lists(st.integers(-m, m - 1), min_size=1, max_size=3)))
    return _with(arr, tup({"t": "slice", "v": s1}, b))


@st.composite
def case_slice_cols(draw, **kw):
    """a[slice, j] and a[slice, cols] with the columns inside every selected row."""
    arr = draw(arr_part(**kw))
    lengths = arr["lengths"]
    n = len(lengths)
    s = [None, None, None] if draw(st.booleans()) else draw_slice(draw, n, "rows_simple")
    sel = lengths[slice(*s)]
    m = min(sel) if sel else min(lengths)
    if draw(st.booleans()):
        b = draw_int(draw, draw(st.integers(-m, m - 1)))
    else:
        b = draw_seq(draw, draw(st.lists(st.integers(-m, m - 1), min_size=1, max_size=4)))
    return _with(arr, tup({"t": "slice", "v": s}, b))


@st.composite
def case_paired(draw, **kw):
    arr = draw(arr_part(**kw))
    lengths = arr["lengths"]
    n = len(lengths)
    form = draw(st.sampled_from(["rows,cols", "rows,cols", "int,cols", "rows,int"]))
    if form == "int,cols":
        i = draw_row_index(draw, n)
        cols = draw(st.lists(st.integers(-lengths[i], lengths[i] - 1), min_size=1, max_size=5))
        return _with(arr, tup(draw_int(draw, i), draw_seq(draw, cols)))
    ii = [draw_row_index(draw, n) for _ in range(draw(st.integers(1, 5)))]
    if form == "rows,int":
        m = min(lengths[i] for i in ii)
        return _with(arr, tup(draw_seq(draw, ii), draw_int(draw, draw(st.integers(-m, m - 1)))))
    jj = [draw_col(draw, lengths[i]) for i in ii]
    return _with(arr, tup(draw_seq(draw, ii), draw_seq(draw, jj)))


@st.composite
def case_mask(draw, none_selected=False, **kw):
    arr = draw(arr_part(**kw))
    lengths = arr["lengths"]
    total = sum(lengths)
    src = draw(st.sampled_from(["arrays", "flat", "cmp"]))
    if src == "cmp" and (arr["eshape"] != "scalar" or arr["dtype"] == "bool"):
        src = "arrays"
    if src == "cmp":
        # the mask is produced by the library's own comparison operator, `a[a < thr]`, as in the docs / suite;
        # content is increasing in flat order, so the threshold selects the first k flat positions
        k = 0 if none_selected else draw(st.integers(1, total))
        mask = [m.tolist() for m in R.split_rows(np.arange(total) < k, lengths)]
        return _with(arr, {"t": "mask", "v": mask}, mask_src=src, mask_k=k)
    if none_selected:
        mask = [[False] * L for L in lengths]
    else:
        kind = draw(st.sampled_from(["random", "random", "all", "one", "rowgap"]))
        if kind == "all":
            mask = [[True] * L for L in lengths]
        elif kind == "one":
            i = draw(st.integers(0, len(lengths) - 1))
            j = draw(st.integers(0, lengths[i] - 1))
            mask = [[(r == i and c == j) for c in range(L)] for r, L in enumerate(lengths)]
        else:
            mask = [draw(st.lists(st.booleans(), min_size=L, max_size=L)) for L in lengths]
            if kind == "rowgap" and len(lengths) > 1:
                i = draw(st.integers(0, len(lengths) - 1))
                mask[i] = [False] * lengths[i]
            if not any(any(m) for m in mask):
                mask[-1][-1] = True
    return _with(arr, {"t": "mask", "v": mask}, mask_src=src)


@st.composite
def case_attrs(draw, **kw):
    return _with(draw(arr_part(**kw)), None)


@st.composite
def case_any(draw, **kw):
    """Any grammar form (used for multi-dimensional elements and the large thorough clause)."""
    which = draw(st.sampled_from(["row_int", "row_slice", "row_list", "element", "oob", "int_slice", "fwd", "fwd",
                                  "negstart", "negstep", "dim1", "slice_cols", "paired", "mask"]))
    strat = {"row_int": case_row_int, "row_slice": case_row_slice, "row_list": case_row_list,
             "element": case_element, "oob": case_oob, "int_slice": case_int_slice,
             "fwd": lambda **k: case_slice2d(sign="forward", **k),
             "negstart": lambda **k: case_slice2d(sign="negstart", **k),
             "negstep": lambda **k: case_slice2d(sign="negstep", **k),
             "dim1": case_dim1_general, "slice_cols": case_slice_cols, "paired": case_paired,
             "mask": case_mask}[which]
    return draw(strat(**kw))


# ======================================================================================================
# evaluation

def make(case):
    rows = R.make_rows(case["lengths"], R.ESHAPES[case["eshape"]], case["dtype"], case["offset"])
    return rows, R.build(rows, case["how"])


def lib_index(case, a):
    e = case["index"]
    if e["t"] != "mask":
        return R.dec_index(e)
    src = case.get("mask_src", "arrays")
    if src == "cmp":
        flat = R.make_flat(case["lengths"], (), case["dtype"], case["offset"])
        k = case["mask_k"]
        return a < (flat[k] if k < len(flat) else flat[-1] + 1)
    return R.build_mask(e["v"], "arrays" if src == "arrays" else "flat")


def verdict(case, rows, a, e=None, idx=None):
    """Apply the three-way verdict to one read; returns the verdict label."""
    e = e if e is not None else case["index"]
    idx = idx if idx is not None else lib_index(case, a)
    expr = "a[%s]" % R.show_index(e)
    ctx = dict(lengths=case["lengths"], how=case["how"], eshape=case["eshape"], dtype=case["dtype"])
    try:
        m, mexc = R.model_getitem(rows, e), None
    except IndexError as x:
        m, mexc = None, x
    parts = [x for x in (idx if isinstance(idx, tuple) else (idx,)) if isinstance(x, np.ndarray)]
    before = [x.copy() for x in parts]
    try:
        g, gexc = a[idx], None
    except Exception as x:      # noqa - any exception counts as "raises"
        g, gexc = None, x
    # a read is a read: the caller's index arrays are its arguments and must come back untouched (numpy never rewrites
    # them; a library that resolves negative entries in place makes the caller's NEXT read, on another row or array,
    # address other elements)
    for x, b in zip(parts, before):
        require(np.array_equal(x, b), "%s: the read modified the caller's index array" % expr, before=b.tolist(),
                after=x.tolist(), **ctx)

    if mexc is not None:
        require(gexc is not None,
                "%s: index outside the array/row must raise, but data was returned" % expr,
                returned=_plain(g), model_error=str(mexc), **ctx)
        return "oob->raised"

    if m.kind == "rows" and m.degenerate():
        if gexc is not None:
            return "degenerate->raised"
        require(R.is_ragged(g), "%s: expected a RaggedArray (or an error) for a selection with empty rows" % expr,
                got=type(g).__name__, **ctx)
        want_len = [len(r) for r in m.value]
        got_len = np.asarray(g.lengths).tolist()
        require(got_len == want_len, "%s: selection with empty rows returned different row lengths" % expr,
                got=got_len, want=want_len, returned=_plain(g), **ctx)
        if len(m.value) and sum(want_len):
            bad = R.diff_against_rows(g, m.value, views=("rows", "flatten"))
            require(not bad, "%s: selection with empty rows returned different data" % expr, diff=bad, **ctx)
        return "degenerate->equal"

    if gexc is not None:
        raise Violation("%s: library raised %s: %s but the list-of-rows model returns %s | %s" % (
            expr, type(gexc).__name__, str(gexc)[:200], _plain_model(m),
            ", ".join("%s=%r" % kv for kv in ctx.items()))) from gexc

    # the same index OBJECTS are used for a second read: a read that rewrites the caller's index arrays (e.g. resolves
    # negative entries in place) makes the next read with them return other elements
    try:
        g2 = a[idx]
    except Exception as x:      # noqa
        raise Violation("%s: second read with the same index objects raised %s: %s (first read succeeded)" % (
            expr, type(x).__name__, str(x)[:200])) from x

    if m.kind == "rows":
        bad = R.diff_against_rows(g, m.value)
        require(not bad, "%s: returned ragged array differs from list-of-rows result" % expr,
                diff=bad, want=_plain_model(m), **ctx)
        bad = R.diff_against_rows(g2, m.value)
        require(not bad, "%s: SECOND read with the same index objects differs from list-of-rows result" % expr,
                diff=bad, want=_plain_model(m), **ctx)
        return "equal"

    require(not R.is_ragged(g) and g is not None, "%s: expected an array, got %s" % (expr, type(g).__name__), **ctx)
    gv = np.asarray(g)
    w = np.asarray(m.value)
    if m.kind == "elem" and gv.shape == (1,) + w.shape:
        gv = np.asarray(gv[0])        # a[i, j] legitimately comes back as a 1-element array
    require(R.values_equal(gv, w), "%s: returned values differ from list-of-rows result" % expr,
            got=_plain(gv), got_shape=gv.shape, want=w.tolist(), want_shape=w.shape, **ctx)
    gv2 = np.asarray(g2)
    if m.kind == "elem" and gv2.shape == (1,) + w.shape:
        gv2 = np.asarray(gv2[0])
    require(R.values_equal(gv2, w), "%s: SECOND read with the same index objects differs from list-of-rows result" % expr,
            got=_plain(gv2), want=w.tolist(), **ctx)
    return "equal"


def _plain(g):
    try:
        if R.is_ragged(g):
            return {"lengths": np.asarray(g.lengths).tolist(), "flat": np.asarray(g.flatten()).tolist()}
        return np.asarray(g).tolist()
    except Exception:
        return repr(g)


def _plain_model(m):
    if m.kind == "rows":
        return [r.tolist() for r in m.value]
    return np.asarray(m.value).tolist()


def _slices_in(e):
    out = []
    if e is None:
        return out
    if e["t"] == "slice":
        out.append(("d1", e["v"]))
    if e["t"] == "tuple":
        if e["a"]["t"] == "slice":
            out.append(("d1", e["a"]["v"]))
        if e["b"]["t"] == "slice":
            out.append(("d2", e["b"]["v"]))
    return out


def _is_neg(v):
    return any(x is not None and x < 0 for x in v)


def info_for(case, v):
    e = case.get("index")
    lengths = case["lengths"]
    equal = len(set(lengths)) == 1
    form = R.form_of(e) if e is not None else "attrs"
    cl = ["form=" + form, "verdict=" + v, "%s|%s" % (form, v), "how=" + case["how"], "eshape=" + case["eshape"],
          "dtype=" + case["dtype"], "rows_equal=%s" % equal, "nrows=%s" % ("1" if len(lengths) == 1 else ">=2")]
    neg = False
    for dim, s in _slices_in(e):
        cl.append("%s:%s" % (dim, R.slice_sign(s)))
        cl.append("%s:%s|%s" % (dim, R.slice_sign(s), v))
        neg = neg or _is_neg(s)
    if "oob" in case:
        cl.append("oob=%s|%s" % (case["oob"], form))
    if e is not None and e["t"] == "mask":
        cl.append("mask_src=" + case.get("mask_src", "arrays"))
    if e is not None and (e["t"] == "tuple" or e["t"] == "mask"):
        nt = (not equal) or (equal and neg)
    else:
        nt = len(lengths) >= 2 and not equal
    if v in ("degenerate->raised",):
        nt = False
    return Info(nt, cl)


def run_read(case):
    rows, a = make(case)
    v = verdict(case, rows, a)
    if case["index"]["t"] == "mask":
        # the mask itself must describe the same positions: ra.where(mask) == np.where per row
        mask = lib_index(case, a)
        wi, wj = R.model_where(case["index"]["v"])
        got = ra.where(mask)
        require(isinstance(got, tuple) and len(got) == 2, "ra.where did not return a (rows, cols) pair", got=got)
        require(R.values_equal(got[0], wi) and R.values_equal(got[1], wj),
                "ra.where(mask) differs from per-row np.where",
                got=[np.asarray(x).tolist() for x in got], want=[wi.tolist(), wj.tolist()], lengths=case["lengths"])
    return info_for(case, v)


def run_oob(case):
    """Second sentence of the statement: an element access outside a row raises instead of returning data of a
    neighbouring row.  The strategy guarantees at least one index outside; the model must agree."""
    rows, a = make(case)
    try:
        R.model_getitem(rows, case["index"])
        raise AssertionError("generator bug: case_oob produced an in-range access")
    except IndexError:
        pass
    return info_for(case, verdict(case, rows, a))


def run_attrs(case, with_shape=True, only_shape=False):
    rows, a = make(case)
    at = R.model_attrs(rows)
    ctx = dict(lengths=case["lengths"], how=case["how"], eshape=case["eshape"], dtype=case["dtype"])
    if not only_shape:
        bad = R.diff_against_rows(a, rows)
        require(not bad, "freshly constructed array disagrees with its rows", diff=bad, **ctx)
        require(a.dtype == at["dtype"], "dtype differs from np.concatenate(rows).dtype",
                got=str(a.dtype), want=str(at["dtype"]), **ctx)
        it = [np.asarray(r) for r in a]                      # iteration protocol (for r in a)
        require(len(it) == len(rows), "iteration yields a different number of rows", got=len(it), want=len(rows), **ctx)
        for k, (g, w) in enumerate(zip(it, rows)):
            require(R.values_equal(g, w), "iteration: row %d differs" % k, got=g.tolist(), want=w.tolist(), **ctx)
    if with_shape or only_shape:
        got = tuple(None if x is None else int(x) for x in a.shape)
        require(got == at["shape"], "shape differs from (n_rows, common row length or None) + element shape",
                got=got, want=at["shape"], **ctx)
    return info_for(case, "equal")


def run_attrs_scalar(case):
    return run_attrs(case, with_shape=True)


def run_attrs_multidim(case):
    return run_attrs(case, with_shape=False)


def run_shape_multidim(case):
    return run_attrs(case, only_shape=True)



# --------------------------------------------------------------------------
# reads of an array that is not fresh: it was read before, then a whole row was rebound (possibly to another length),
# then read again.  The reading code may not remember anything about the earlier layout.

@st.composite
def case_after_update(draw, **kw):
    case = draw(case_any(**kw))
    n = len(case["lengths"])
    ups = []
    for _ in range(draw(st.integers(1, 3))):
        ups.append({"row": draw(st.integers(0, n - 1)), "len": draw(st.integers(1, 8)),
                    "as": draw(st.sampled_from(["array", "list", "ragged"])), "tag": draw(st.integers(1, 9))})
    case["updates"] = ups
    return case


def run_after_update(case):
    rows, a = make(case)
    e = case["index"]
    esh = R.ESHAPES[case["eshape"]]

    def read_all():
        try:
            a[lib_index(case, a)] if e["t"] != "mask" else None
        except Exception:
            pass
        _ = a.starts, a.lengths, a.shape, a.size
        for i in range(len(rows)):
            _ = a[i, 0], a[i, len(rows[i]) - 1]
    read_all()
    resized = 0
    for u in case["updates"]:
        i = u["row"]
        ragged = len(set(len(r) for r in rows)) > 1
        # `a[i] = v` on an array whose rows are all equally long is a numpy block assignment (broadcast / reject);
        # a single row is resized only while the array is ragged, and never under a mask index (fixed mask shape)
        L = u["len"] if (ragged and e["t"] != "mask") else len(rows[i])
        new = (np.arange(L * int(np.prod(esh, dtype=int))).reshape((L,) + tuple(esh)) + 1000 * u["tag"]).astype(rows[i].dtype)
        if u["as"] == "array":
            a[i] = new.copy()
        elif u["as"] == "list":
            a[i] = new.tolist()
        else:
            a[i:i + 1] = ra.RaggedArray([new.copy()])
        resized += L != len(rows[i])
        rows = list(rows)
        rows[i] = new
        read_all()
    case2 = dict(case)
    case2["lengths"] = [len(r) for r in rows]
    bad = R.diff_against_rows(a, rows)
    require(not bad, "after rebinding rows the array disagrees with the list of rows", diff=bad, updates=case["updates"],
            lengths=case["lengths"])
    st_want = np.concatenate([[0], np.cumsum(case2["lengths"])[:-1]])
    require(np.array_equal(np.asarray(a.starts), st_want), "starts disagree after rebinding rows", got=a.starts, want=st_want)
    if e["t"] == "mask":
        case2["mask_src"] = "arrays"      # the positions drawn for the mask, not a comparison with the (changed) data
    v = verdict(case2, rows, a)
    info = info_for(case2, v)
    return Info(info.nontrivial and resized, list(info.classes) + ["rows_resized=%d" % min(resized, 2)])


# --------------------------------------------------------------------------
# few, very long rows: whether rows are "equally long" is an exact question at any size

@st.composite
def long_rows_case(draw):
    L = draw(st.sampled_from([99999, 100000, 100001, 250000, 1000000, 2000003]))
    ds = draw(st.lists(st.sampled_from([0, 0, 1, -1, 2, -3]), min_size=1, max_size=3))
    return {"L": L, "ds": ds, "how": draw(st.sampled_from(["arrays", "flat_nd", "flat_pyints"])),
            "dtype": draw(st.sampled_from(["int8", "int32", "float32"]))}


def run_long_rows(case):
    lens = [case["L"]] + [case["L"] + d for d in case["ds"]]
    total = sum(lens)
    flat = (np.arange(total) % 113).astype(case["dtype"])
    starts = np.concatenate([[0], np.cumsum(lens)[:-1]])
    rows = [flat[s:s + L] for s, L in zip(starts, lens)]
    if case["how"] == "arrays":
        a = ra.RaggedArray([r.copy() for r in rows])
    elif case["how"] == "flat_nd":
        a = ra.RaggedArray(flat.copy(), lengths=np.array(lens))
    else:
        a = ra.RaggedArray(flat.copy(), lengths=[int(x) for x in lens])
    second = lens[0] if len(set(lens)) == 1 else None
    got = tuple(None if x is None else int(x) for x in a.shape)
    require(got == (len(lens), second), "shape of an array with few very long rows disagrees with the list of rows",
            got=got, want=(len(lens), second), lengths=lens)
    require([int(x) for x in a.lengths] == lens and [int(x) for x in a.starts] == [int(x) for x in starts],
            "lengths / starts of an array with very long rows disagree", lengths=lens)
    require(a.size == total and a.dtype == flat.dtype, "size / dtype disagree", lengths=lens)
    for i, L in enumerate(lens):
        for j in (0, L - 1, -1, -L):
            e = np.asarray(a[i, j]).ravel()
            require(e.size == 1 and e[0] == rows[i][j], "element read on a very long row disagrees", i=i, j=j, lengths=lens)
        for j in (L, -L - 1):
            try:
                a[i, j]
            except Exception:
                continue
            raise Violation("a[%d, %d]: index outside the row must raise, but data was returned" % (i, j))
    sub = a[:, -2:]
    require(np.array_equal(sub.flatten(), np.concatenate([r[-2:] for r in rows])), "a[:, -2:] on very long rows disagrees",
            lengths=lens)
    return Info(second is None, ["long_L=%d" % case["L"], "long_equal=%s" % (second is not None), "how=" + case["how"]])


# --------------------------------------------------------------------------
# flat data + a lengths table held in a narrow integer type: every length fits the type, their running total does not

@st.composite
def narrow_lengths_case(draw):
    width = draw(st.sampled_from(["int8", "int8", "int16", "uint8x"]))
    n = draw(st.integers(3, 8))
    if width == "int16":
        lens = [draw(st.integers(6000, 32767)) for _ in range(n)]
        width_dt = "int16"
    else:
        lens = [draw(st.integers(1, 127)) for _ in range(n)]
        width_dt = "int8"
    if draw(st.integers(0, 3)) == 0:
        lens = [lens[0]] * n                       # equally long rows
    return {"lengths": lens, "ldtype": width_dt, "dtype": draw(st.sampled_from(["int64", "int32", "float64", "int8"]))}


def run_narrow_lengths(case):
    lens = case["lengths"]
    total = sum(lens)
    flat = (np.arange(total) % 101).astype(case["dtype"])
    starts = [int(x) for x in np.concatenate([[0], np.cumsum(lens)[:-1]])]
    rows = [flat[s:s + L] for s, L in zip(starts, lens)]
    L_arr = np.array(lens, dtype=case["ldtype"])
    import warnings as _w
    with _w.catch_warnings():
        _w.simplefilter("ignore")
        a = ra.RaggedArray(flat.copy(), lengths=L_arr)
        require(np.array_equal(L_arr, np.array(lens, dtype=case["ldtype"])), "constructor changed the caller's lengths table")
        require(len(a) == len(lens) and [int(x) for x in a.lengths] == lens and [int(x) for x in a.starts] == starts,
                "len / lengths / starts disagree with the lengths given (narrow lengths table)", lengths=lens,
                got_lengths=[int(x) for x in a.lengths], got_starts=[int(x) for x in a.starts], ldtype=case["ldtype"])
        for i, r in enumerate(rows):
            got = np.asarray(a[i])
            require(got.shape == r.shape and np.array_equal(got, r), "a[i] is not row i of the flat data (narrow lengths "
                    "table)", i=i, got_len=len(got), want_len=len(r), got_first=got[:1].tolist(), want_first=r[:1].tolist(),
                    lengths=lens, ldtype=case["ldtype"])
            for j in (0, -1):
                e = np.asarray(a[i, j]).ravel()
                require(e.size == 1 and e[0] == r[j], "a[i, j] disagrees with row i (narrow lengths table)", i=i, j=j,
                        lengths=lens, ldtype=case["ldtype"])
        it = [np.asarray(r) for r in a]
        require(len(it) == len(rows) and all(x.shape == y.shape and np.array_equal(x, y) for x, y in zip(it, rows)),
                "iteration disagrees with the rows (narrow lengths table)", got=[len(x) for x in it], want=lens)
        sub = a[:, 0:2]
        require(np.array_equal(np.asarray(sub.flatten()), np.concatenate([r[0:2] for r in rows])),
                "a[:, 0:2] disagrees with the rows (narrow lengths table)", lengths=lens)
        require(np.array_equal(np.asarray(a.flatten()), flat), "flatten disagrees (narrow lengths table)")
    top = 127 if case["ldtype"] == "int8" else 32767
    return Info(total > top and len(set(lens)) > 1, ["narrow_ldtype=" + case["ldtype"], "narrow_total_exceeds_type=%s" % (total > top),
                                                     "narrow_equal=%s" % (len(set(lens)) == 1)])


# --------------------------------------------------------------------------
# rows of DIFFERENT element types (an integer row next to a fractional one, a bool row next to counts): a list of rows
# concatenates them with numpy's promotion, whichever row comes first

MIXED = [["int64", "float64"], ["bool", "int64"], ["int8", "int64"], ["int32", "float32"], ["float32", "float64"],
         ["uint8", "int16"]]


@st.composite
def mixed_rows_case(draw):
    pair = list(draw(st.sampled_from(MIXED)))
    if draw(st.booleans()):
        pair.reverse()
    n = draw(st.integers(2, 5))
    dts = [pair[0]] + [draw(st.sampled_from(pair)) for _ in range(n - 2)] + [pair[1]]
    return {"dtypes": dts, "lengths": [draw(st.integers(1, 5)) for _ in range(n)], "how": draw(st.sampled_from(["arrays", "nested"])),
            "seed": draw(st.integers(0, 10 ** 6))}


def run_mixed_rows(case):
    rng = np.random.RandomState(case["seed"])            # seed drawn by Hypothesis
    rows = []
    for dt, L in zip(case["dtypes"], case["lengths"]):
        if dt == "bool":
            rows.append(rng.rand(L) < 0.5)
        elif dt.startswith("float"):
            rows.append((rng.randint(-20, 20, size=L) + 0.5).astype(dt))
        else:
            hi = min(int(np.iinfo(dt).max), 10 ** 6 if dt == "int64" else 100)
            rows.append(rng.randint(0, hi, size=L).astype(dt) if dt != "int64" else (rng.randint(0, 100, size=L) * 10 ** 4).astype(dt))
    want_dtype = np.concatenate(rows).dtype
    if case["how"] == "nested":
        a = ra.RaggedArray([r.tolist() for r in rows])
        model = [np.array(r.tolist()) for r in rows]
        want_dtype = np.concatenate(model).dtype
    else:
        a = ra.RaggedArray([r.copy() for r in rows])
        model = rows
    model = [np.asarray(r).astype(want_dtype) for r in model]
    bad = R.diff_against_rows(a, model)
    require(not bad, "an array built from rows of different element types disagrees with the concatenated list of rows",
            diff=bad, dtypes=case["dtypes"], how=case["how"])
    require(a.dtype == want_dtype, "dtype differs from np.concatenate(rows).dtype", got=str(a.dtype), want=str(want_dtype),
            dtypes=case["dtypes"])
    flat = np.concatenate(model)
    require(R.values_equal(a.flatten(), flat), "flatten() differs from the concatenated rows", got=a.flatten().tolist(), want=flat.tolist())
    narrow_first = np.dtype(case["dtypes"][0]) != want_dtype
    return Info(narrow_first, ["mixed=%s" % "+".join(sorted(set(case["dtypes"]))), "narrow_row_first=%s" % narrow_first, "how=" + case["how"]])

# ======================================================================================================
# exhaustive small sub-domains (thorough)

def small_length_vectors(max_rows=3, max_len=3):
    for n in range(1, max_rows + 1):
        for lv in itertools.product(range(1, max_len + 1), repeat=n):
            yield list(lv)


def small_slices(lo=-4, hi=4, steps=(None, 1, 2, -1)):
    vals = [None] + list(range(lo, hi + 1))
    for s0 in vals:
        for s1 in vals:
            for stp in steps:
                yield [s0, s1, stp]


def _sharded(gen, shard, nshards):
    for k, c in enumerate(gen):
        if k % nshards == shard:
            yield c


def _base(lv, how="flat_nd"):
    return {"lengths": lv, "eshape": "scalar", "dtype": "int64", "how": how, "offset": 0}


def exh_slice_pairs(tier, shard, nshards):
    if tier != "thorough":
        return None

    def gen():
        hows = ("flat_nd", "arrays", "flat_pyint")
        k = 0
        for lv in small_length_vectors():
            n = len(lv)
            L = max(lv)
            # bounds reach one beyond the extent on either side (further out is the same clipping class):
            # [-(n+1), n+1] + None over the rows, [-(L+1), L+1] + None over the longest row; steps None/2/-1
            # (step 1 is enumerated in the a[slice] / a[i, slice] grid and drawn in every random clause)
            for s1 in small_slices(-n - 1, n + 1, (None, 2, -1)):
                for s2 in small_slices(-L - 1, L + 1, (None, 2, -1)):
                    k += 1
                    yield _with(_base(lv, hows[k % 3]), tup({"t": "slice", "v": s1}, {"t": "slice", "v": s2}))
    return _sharded(gen(), shard, nshards)


def exh_elements(tier, shard, nshards):
    if tier != "thorough":
        return None

    def gen():
        for lv in small_length_vectors():
            for how in ("flat_nd", "arrays"):
                for i in range(-5, 6):
                    for j in range(-5, 6):
                        yield _with(_base(lv, how), tup({"t": "int", "v": i}, {"t": "int", "v": j}))
    return _sharded(gen(), shard, nshards)


def exh_slice_int(tier, shard, nshards):
    if tier != "thorough":
        return None

    def gen():
        for lv in small_length_vectors():
            for s1 in small_slices():
                for j in range(-4, 5):
                    yield _with(_base(lv), tup({"t": "slice", "v": s1}, {"t": "int", "v": j}))
    return _sharded(gen(), shard, nshards)


def exh_rows_and_int_slice(tier, shard, nshards):
    if tier != "thorough":
        return None

    def gen():
        for lv in small_length_vectors():
            for how in ("flat_nd", "arrays", "nested"):
                for s in small_slices():
                    yield _with(_base(lv, how), {"t": "slice", "v": s})
                    for i in range(-len(lv) - 1, len(lv) + 1):
                        yield _with(_base(lv, how), tup({"t": "int", "v": i}, {"t": "slice", "v": s}))
    return _sharded(gen(), shard, nshards)


# ======================================================================================================
# clauses

SC = dict(eshapes=("scalar",))
MD = dict(eshapes=("vec2", "mat32"))
ALL = dict(eshapes=("scalar", "scalar", "vec2", "mat32"), max_rows=12, max_len=20)

# --------------------------------------------------------------------------
# more than 20000 rows: the constructor switches its input checking off above that size

@st.composite
def huge_case(draw):
    return {"n": draw(st.sampled_from([19999, 20000, 20001, 20007])), "seed": draw(st.integers(0, 2 ** 31 - 1)),
            "how": draw(st.sampled_from(["arrays", "nested", "flat_nd", "flat_pyints"])),
            "probe": draw(st.lists(st.integers(0, 19998), min_size=3, max_size=6))}


def run_huge(case):
    rng = np.random.RandomState(case["seed"])            # seed drawn by Hypothesis
    n = case["n"]
    lens = rng.randint(1, 4, size=n)
    flat = np.arange(int(lens.sum()), dtype=np.int64)
    starts = np.concatenate([[0], np.cumsum(lens)[:-1]])
    rows = [flat[s:s + L] for s, L in zip(starts, lens)]
    if case["how"] == "arrays":
        a = ra.RaggedArray([r.copy() for r in rows])
    elif case["how"] == "nested":
        a = ra.RaggedArray([r.tolist() for r in rows])
    elif case["how"] == "flat_nd":
        a = ra.RaggedArray(flat.copy(), lengths=lens.copy())
    else:
        a = ra.RaggedArray(flat.copy(), lengths=[int(x) for x in lens])
    require(len(a) == n, "len() of a >20000-row array disagrees", got=len(a), want=n)
    require(np.array_equal(np.asarray(a.lengths), lens), "lengths of a >20000-row array disagree")
    require(np.array_equal(np.asarray(a.starts), starts), "starts of a >20000-row array disagree")
    require(np.array_equal(a.flatten(), flat), "flat data of a >20000-row array disagree")
    require(a.size == flat.size and a.dtype == flat.dtype, "size / dtype of a >20000-row array disagree")
    for i in case["probe"] + [0, n - 1, -1]:
        i = int(i)
        require(np.array_equal(np.asarray(a[i]).astype(np.int64), rows[i]), "row read of a >20000-row array disagrees", row=i)
        j = int(lens[i]) - 1
        e = np.asarray(a[i, j]).ravel()
        require(e.size == 1 and int(e[0]) == int(rows[i][j]), "element read of a >20000-row array disagrees", i=i, j=j)
        try:
            a[i, int(lens[i])]
        except Exception:
            pass
        else:
            raise Violation("a[%d, %d]: index outside the row must raise, but data was returned" % (i, int(lens[i])))
    lo = case["probe"][0]
    sub = a[lo:lo + 3]
    require([int(x) for x in sub.lengths] == [int(x) for x in lens[lo:lo + 3]] and
            np.array_equal(sub.flatten(), np.concatenate(rows[lo:lo + 3])), "row-slice read of a >20000-row array disagrees")
    col = a[lo:lo + 50, 0]
    require(np.array_equal(np.asarray(col.flatten()), np.array([rows[k][0] for k in range(lo, min(lo + 50, n))])),
            "a[slice, 0] of a >20000-row array disagrees")
    return Info(n > 20000, ["huge_n=%d" % n, "huge_how=" + case["how"]], key=[n, case["seed"], case["how"]])


CLAUSES = [
    # attributes, iteration, flatten, construction paths
    Clause("construct_attrs", case_attrs(**SC), run_attrs_scalar, quick=600, thorough=3600,
           doc="lengths/starts/shape/size/dtype/len/flatten/iteration/a[k] of a fresh array, 5 construction paths"),
    # first-dimension reads
    Clause("row_int", case_row_int(**SC), run_read, quick=400, thorough=2400, doc="a[i]"),
    Clause("row_slice", case_row_slice(**SC), run_read, quick=600, thorough=3600, doc="a[slice]",
           exhaustive=exh_rows_and_int_slice),
    Clause("row_list", case_row_list(**SC), run_read, quick=400, thorough=2400, doc="a[list|ndarray of rows]"),
    # elements
    Clause("element", case_element(**SC), run_read, quick=500, thorough=3000, doc="a[i, j] inside the row",
           exhaustive=exh_elements),
    Clause("oob_raises", case_oob(**SC), run_oob, quick=1200, thorough=7200,
           doc="element access outside a row raises (never a neighbouring row's data)"),
    # two-dimensional slices
    Clause("int_slice", case_int_slice(**SC), run_read, quick=600, thorough=3600, doc="a[i, slice], any signs"),
    Clause("slice2d_forward", case_slice2d(sign="forward", **SC), run_read, quick=1200, thorough=7200,
           doc="a[slice|rows, slice] with start >= 0 / None and positive step (any stop)"),
    Clause("slice2d_negstart", case_slice2d(sign="negstart", **SC), run_read, quick=900, thorough=5400,
           doc="a[slice|rows, slice] with a negative start in the second dimension"),
    Clause("slice2d_negstep", case_slice2d(sign="negstep", **SC), run_read, quick=900, thorough=5400,
           doc="a[slice|rows, slice] with a negative step in the second dimension"),
    Clause("dim1_general", case_dim1_general(**SC), run_read, quick=900, thorough=5400,
           doc="a[s, .] with negative steps / bounds beyond the number of rows in the first dimension"),
    Clause("slice_cols", case_slice_cols(**SC), run_read, quick=700, thorough=4200, doc="a[slice, j], a[slice, cols]",
           exhaustive=exh_slice_int),
    # fancy
    Clause("huge_row_count", huge_case(), run_huge, quick=8, thorough=64,
           doc="arrays with 19999..20007 rows (the constructor's input checking is switched off above 20000)"),
    Clause("construct_mixed_dtype_rows", mixed_rows_case(), run_mixed_rows, quick=300, thorough=4000,
           doc="rows of different element types (either order): values, dtype and flatten as np.concatenate gives them"),
    Clause("long_rows", long_rows_case(), run_long_rows, quick=12, thorough=120,
           doc="2-4 rows of 10^5..2*10^6 elements whose lengths differ by 0..3: shape, starts, element reads, outside-row raises"),
    Clause("narrow_lengths_table", narrow_lengths_case(), run_narrow_lengths, quick=200, thorough=2000,
           doc="flat data + lengths in int8 / int16 whose running total exceeds the type: rows, elements, iteration, slices"),
    Clause("paired_long_rows", case_paired(eshapes=("scalar",), max_rows=4, max_len=400), run_read, quick=400, thorough=4000,
           doc="paired / (row, cols) / (rows, col) reads on rows long enough that flat offsets exceed 127 / 255"),
    Clause("paired", case_paired(**SC), run_read, quick=900, thorough=5400,
           doc="a[(rows, cols)], a[i, cols], a[rows, j]"),
    Clause("mask", case_mask(**SC), run_read, quick=700, thorough=4200, doc="a[ragged bool mask] + ra.where"),
    Clause("mask_none_selected", case_mask(none_selected=True, **SC), run_read, quick=100, thorough=600,
           doc="a[mask] / ra.where with an all-False mask returns an empty selection"),
    Clause("read_after_update", case_after_update(eshapes=("scalar", "scalar", "vec2"), max_rows=6, max_len=7), run_after_update,
           quick=800, thorough=8000,
           doc="every grammar form on an array that was read, had whole rows rebound (also to other lengths), and is read again"),
    # multi-dimensional elements
    Clause("multidim_construct", case_attrs(**MD), run_attrs_multidim, quick=600, thorough=3600,
           doc="construct_attrs for (2,) and (3,2) elements (without shape)"),
    Clause("multidim_shape", case_attrs(**MD), run_shape_multidim, quick=100, thorough=600,
           doc="shape == (n_rows, common length | None) + element shape"),
    Clause("multidim_reads", case_any(**MD), run_read, quick=2500, thorough=15000,
           doc="every grammar form on arrays of (2,) and (3,2) elements"),
    # thorough only
    Clause("any_large", case_any(**ALL), run_read, quick=0, thorough=15000, doc="every form, up to 12 rows"),
    Clause("slice_pairs_small", case_slice2d(**SC), run_read, quick=0, thorough=0, exhaustive=exh_slice_pairs,
           doc="exhaustive: <=3 rows of length <=3 x all slice pairs"),
]


# ======================================================================================================
# matchers for findings (used only if listed in known_findings.json)

def _idx(case):
    return case.get("index") or {}


def _d2_slice(case):
    e = _idx(case)
    if e.get("t") == "tuple" and e["b"]["t"] == "slice" and e["a"]["t"] not in ("int", "npint"):
        return e["b"]["v"]
    return None


def m_negstart_or_negstep_d2(case, exc):
    """a[rows-or-slice, slice] whose second-dimension slice has a negative start or a negative step."""
    s = _d2_slice(case)
    return s is not None and ((s[0] is not None and s[0] < 0) or (s[2] is not None and s[2] < 0))


def m_dim1_slice_outside(case, exc):
    """a[slice, .] whose first-dimension slice has a negative step, a start below -n_rows or a stop above n_rows."""
    e = _idx(case)
    if e.get("t") != "tuple" or e["a"]["t"] != "slice":
        return False
    s, n = e["a"]["v"], len(case["lengths"])
    return ((s[2] is not None and s[2] < 0) or (s[0] is not None and s[0] < -n) or (s[1] is not None and s[1] > n))


def m_fastpath_multidim(case, exc):
    """multi-dimensional elements + equal-length rows reaching the constructor with array-like lengths."""
    if case["eshape"] == "scalar" or "shape differs" in str(exc):
        return False
    if len(set(case["lengths"])) == 1 and case["how"] in ("flat_nd", "flat_npint"):
        return True
    e = _idx(case)
    if e.get("t") == "tuple" and e["b"]["t"] == "slice" and e["a"]["t"] not in ("int", "npint"):
        try:
            rows = R.make_rows(case["lengths"], R.ESHAPES[case["eshape"]], case["dtype"], case["offset"])
            m = R.model_getitem(rows, e)
            return len(set(len(r) for r in m.value)) == 1
        except Exception:
            return False
    return False


def m_mask_none_selected(case, exc):
    e = _idx(case)
    return e.get("t") == "mask" and not any(any(m) for m in e["v"])


def m_shape_4d(case, exc):
    return case.get("index") is None and case["eshape"] == "mat32" and "shape differs" in str(exc)


MATCHERS = {
    "negstart_or_negstep_d2": m_negstart_or_negstep_d2,
    "dim1_slice_outside": m_dim1_slice_outside,
    "fastpath_multidim": m_fastpath_multidim,
    "mask_none_selected": m_mask_none_selected,
    "shape_4d": m_shape_4d,
}
