"""C01 - clustering results are self-consistent for every algorithm and input.

One clause per sentence of the statement; every clause draws the entry point
(kcenters, KCenters.fit, kmedoids, KMedoids.fit, hybrid, KHybrid.fit), the
start (cold / warm) and the configuration itself, so each sentence is decided
for every entry point.  Oracles are validity predicates recomputed in float64
numpy (vf/ref_cluster.py) - never the library's own distance kernels.
"""
import itertools
import logging

import numpy as np
from hypothesis import strategies as st

from vf.harness import Skip, Clause, Info, require
from vf import ref_cluster as rc

from enspara.cluster import kcenters as kc_mod
from enspara.cluster import kmedoids as km_mod
from enspara.cluster import hybrid as hy_mod
from enspara.cluster import KCenters, KMedoids, KHybrid

logging.getLogger("enspara").setLevel(logging.ERROR)
_OMP_LIMIT = rc.single_thread_kernels()      # one OpenMP thread per shard process (see ref_cluster)

PROPERTY = "C01"
LEVEL = "exploration"
RULE = ("Hypothesis draws a data set of DISTINCT points (distinct integer-lattice sites, uniform cube or tight blobs + "
        "outliers, 1..40 x 1..4 quick / 1..300 x 1..8 thorough; dtype float64/float32/int8/int16/int32/int64; floats "
        "with or without a sub-quarter-step jitter and a scale 1e-3..250; C/F/strided layout), a metric (euclidean, "
        "manhattan, Chebyshev as user callable), an entry point (kcenters, KCenters.fit, kmedoids, KMedoids.fit, hybrid, "
        "KHybrid.fit) and its configuration: k-centers family - cold or warm from 1..4 data frames (array / list of "
        "views / list of copies), stop by n_clusters (up to n+1), radius (fraction of the starting radius) or both, "
        "absent criteria omitted or None, triangle shortcut on/off, 0..4 medoid sweeps, int or RandomState seed; "
        "k-medoids family - cold (n_clusters) or warm from center indices (list/ndarray), from (labels, distances), "
        "from all three, or from (trajectory, frame) pairs + X_lengths, 1..4 sweeps, explicit proposals or a seed. "
        "Warm states come from the float64 reference assigner. A case is non-trivial when the result has >= 2 centers "
        "and at least one frame that is not a center; distinct = distinct canonical JSON. For explicit-proposal "
        "k-medoids cases a brute-force PAM replay classifies which of the three re-assignment branches accepted "
        "proposals exercised (classes pam_branch=*). Clause warm_start_complete isolates warm starts that need no "
        "further center; thorough additionally enumerates all 1-D integer sets of 4..5 points out of {0..6} x all "
        "ordered center pairs x all proposal pairs (pam_small_exhaustive).")
ASSUMPTIONS = [
    "points are pairwise distinct (by construction); coordinates stay within +-120 (ints) / +-60*250 (floats)",
    "init_centers and warm-start center indices are distinct frames of the data and have the data's dtype",
    "warm-start (labels, distances) are a consistent nearest-center state (float64 distances, int labels)",
    "kmedoids(n_iters=0), cold k-medoids with n_clusters > n_frames, random_first_center=True are outside the domain",
    "cold k-medoids draws k only up to the point where k random frames are distinct with probability >= 1e-3",
    "KMedoids.fit takes no random_state: the check pins numpy's global RNG / unseeded default_rng per case so that "
    "failures replay; the verdict does not depend on which random outcome is produced",
    "radius criteria are fractions (<= 0.95 for warm starts) of the float64 reference starting radius, never on a boundary",
]
SHARDS = {"quick": 4, "thorough": 16}

ENTRIES = ("kcenters", "KCenters.fit", "kmedoids", "KMedoids.fit", "hybrid", "KHybrid.fit")
KC_FAMILY = ("kcenters", "KCenters.fit", "hybrid", "KHybrid.fit")
INIT_FORMS = ("array", "list_views", "list_copies")
KM_STARTS = ("cold", "inds", "state", "all", "pairs", "pairs_state")
# life of an estimator object before the observed fit: fresh from the constructor; built with other parameters and
# re-configured through set_params (the scikit-learn protocol the classes inherit); or already fitted to other data
EST_LIVES = ("fresh", "fresh", "reconfigured", "refit")


class ReusedBufferChebyshev:
    def __init__(self):
        self.buf = None

    def __call__(self, X, y):
        d = np.abs(np.asarray(X, dtype=np.float64) - np.asarray(y, dtype=np.float64)).max(axis=1)
        if self.buf is None or self.buf.shape != d.shape:
            self.buf = np.empty_like(d)
        self.buf[...] = d
        return self.buf


def _decoy_metric(name):
    from enspara.cluster import util as cl_util
    return cl_util._get_distance_method("manhattan" if name != "manhattan" else "euclidean")


def _resolved(M):
    from enspara.cluster import util as cl_util
    return cl_util._get_distance_method(M)


def _make_estimator(cls, M, name, life, **params):
    """Build the estimator along the drawn life; the observed fit always runs with exactly `params` and metric M."""
    if life != "reconfigured":
        return cls(M, **params)
    decoy = {}
    for k, v in params.items():
        if k == "random_state":
            decoy[k] = v
        elif k in ("n_clusters",):
            decoy[k] = (v or 0) + 1
        elif k == "cluster_radius":
            decoy[k] = None if v is None else 3.0 * v
        elif k in ("kmedoids_updates", "n_iters"):
            decoy[k] = v + 1
        else:
            decoy[k] = v
    est = cls(_decoy_metric(name), **decoy)
    est.set_params(metric=_resolved(M), **{k: v for k, v in params.items() if k != "random_state"})
    return est


def _first_life(est, life, X, fit_kw, seed=None):
    """life == 'refit': the object is first fitted to the same points in reverse order (other indices, other
    first center), then to the data of the case."""
    if life != "refit":
        return
    Y = np.ascontiguousarray(X[::-1])
    kw = {k: v for k, v in fit_kw.items() if k in ("init_centers",)}
    try:
        est.fit(Y, **kw)
    except Exception:
        pass            # whatever the first fit does, the observed one must stand on its own


# --------------------------------------------------------------------------
# strategies

def _lengths(draw, n):
    """Trajectory lengths (>= 1 each) summing to n."""
    if n == 1:
        return [1]
    ncut = draw(st.integers(0, min(4, n - 1)))
    cuts = sorted(draw(st.lists(st.integers(1, n - 1), min_size=ncut, max_size=ncut, unique=True)))
    edges = [0] + cuts + [n]
    return [edges[i + 1] - edges[i] for i in range(len(edges) - 1)]


def _kc_cfg(draw, n, entry, corner):
    cfg = {"init": None, "init_form": None, "n_clusters": None, "radius_frac": None,
           "none_style": draw(st.sampled_from(["omit", "None"])), "tri": False,
           "n_iters": None, "rs_kind": "int"}
    if corner == "complete":
        mode = draw(st.sampled_from(["k_le_m", "radius_met", "all_frames"]))
        cfg["corner_mode"] = mode
        if mode == "all_frames":
            cfg["init"] = draw(st.permutations(list(range(n))))
            how = draw(st.sampled_from(["n", "radius", "both"]))
            if how in ("n", "both"):
                cfg["n_clusters"] = draw(st.integers(1, n + 2))
            if how in ("radius", "both"):
                cfg["radius_abs_steps"] = draw(st.floats(0.01, 5.0))   # radius in lattice steps (start radius is 0)
        else:
            m = draw(st.integers(1, min(4, n)))
            cfg["init"] = draw(st.lists(st.integers(0, n - 1), min_size=m, max_size=m, unique=True))
            if mode == "k_le_m":
                cfg["n_clusters"] = draw(st.integers(1, m))
                if draw(st.booleans()):
                    cfg["radius_frac"] = draw(st.floats(0.02, 2.0))
            else:
                cfg["radius_frac"] = draw(st.floats(1.05, 2.0))
                if m == n:
                    cfg["radius_abs_steps"] = draw(st.floats(0.01, 5.0))
                if draw(st.booleans()):
                    cfg["n_clusters"] = draw(st.integers(m + 1, n + 2))
        cfg["init_form"] = draw(st.sampled_from(INIT_FORMS))
    else:
        warm = n >= 2 and draw(st.booleans())
        m = 0
        if warm:
            m = draw(st.integers(1, min(4, n - 1)))
            cfg["init"] = draw(st.lists(st.integers(0, n - 1), min_size=m, max_size=m, unique=True))
            cfg["init_form"] = draw(st.sampled_from(INIT_FORMS))
        stop = "n" if n == 1 else draw(st.sampled_from(["n", "radius", "both"]))
        if stop in ("n", "both"):
            cfg["n_clusters"] = draw(st.integers(m + 1, n + 1))
        if stop in ("radius", "both"):
            # warm: strictly below the starting radius, so at least one more center is needed
            cfg["radius_frac"] = draw(st.floats(0.02, 0.95 if warm else 1.1))
    if entry == "kcenters":
        cfg["tri"] = draw(st.booleans())          # forced off below for a callable that is not a metric
    if entry in ("hybrid", "KHybrid.fit"):
        cfg["n_iters"] = draw(st.integers(0, 4))
        if entry == "hybrid":
            cfg["rs_kind"] = draw(st.sampled_from(["int", "RandomState"]))
    return cfg


def _km_cfg(draw, n, entry, max_iters=4):
    start = draw(st.sampled_from(KM_STARTS))
    kmax = rc.max_distinct_k(n) if start == "cold" else n
    k = draw(st.integers(1, kmax))
    cfg = {"start": start, "k": k, "centers": None, "container": "list", "lab_dtype": "int64",
           "lengths": None, "n_iters": draw(st.integers(1, max_iters)), "proposals": None}
    explicit = entry == "kmedoids" and draw(st.sampled_from([True, False, True]))
    if start != "cold":
        cfg["centers"] = draw(st.lists(st.integers(0, n - 1), min_size=k, max_size=k, unique=True))
        cfg["container"] = draw(st.sampled_from(["list", "ndarray"]))
        cfg["lab_dtype"] = draw(st.sampled_from(["int64", "int32"]))
    if start in ("pairs", "pairs_state"):
        cfg["lengths"] = _lengths(draw, n)
        cfg["container"] = draw(st.sampled_from(["list_of_tuples", "list_of_lists"]))
    if explicit:
        cfg["proposals"] = draw(st.lists(st.integers(0, n - 1), min_size=k, max_size=k))
    return cfg


@st.composite
def cluster_case(draw, max_n=40, max_d=4, entries=ENTRIES, corner=None, min_n=1):
    # configuration first, bulky site list last (see ref_cluster.dataset_shape)
    entry = draw(st.sampled_from(list(entries)))
    metric = draw(st.sampled_from(list(rc.METRICS)))
    shape = draw(rc.dataset_shape(max_n=max_n, max_d=max_d, min_n=min_n))
    n = shape["n"]
    case = {"data": None, "metric": metric, "entry": entry, "seed": draw(st.one_of(st.sampled_from([0, 0, 1]), st.integers(0, 2 ** 31 - 1)))}
    if entry in KC_FAMILY:
        case["kc"] = _kc_cfg(draw, n, entry, corner)
    else:
        case["km"] = _km_cfg(draw, n, entry)
    case["est_life"] = draw(st.sampled_from(EST_LIVES))
    case["alias"] = draw(st.booleans())          # 'manhattan' may be asked for by its scipy name 'cityblock'
    case["data"] = draw(rc.dataset_sites(shape))
    return case



@st.composite
def near_tie_case(draw):
    """Two centers a, b and frames whose distances to them differ by one part in 1e5 .. 1e7 (far above the round-off
    of the float64 kernels, 1e-15): the frame is assigned to the strictly closer one whichever is listed first, and
    data whose coordinates are tiny (1e-9 .. 1e-12 per lattice step) still get their own labels."""
    entry = draw(st.sampled_from(list(ENTRIES)))
    metric = draw(st.sampled_from(list(rc.METRICS)))
    mode = draw(st.sampled_from(["wide", "wide", "tiny"]))
    d = draw(st.integers(1, 2))
    if mode == "wide":
        L = draw(st.sampled_from([50000, 123457, 600000, 1000000, 3000000]))
        special = [0, 2 * L + 1, L, L + 1]
        extra = draw(st.lists(st.integers(-L, 3 * L).filter(lambda v: v not in special), min_size=0, max_size=6, unique=True))
        dtype = draw(st.sampled_from(["float64", "int32", "int64"]))
        step = 1
    else:
        L = draw(st.integers(2, 40))
        special = [0, 2 * L + 1, L, L + 1]
        extra = draw(st.lists(st.integers(-60, 120).filter(lambda v: v not in special), min_size=0, max_size=6, unique=True))
        dtype = draw(st.sampled_from(["float64", "float64", "float32"]))
        step = draw(st.sampled_from([1e-9, 1e-10, 1e-12]))
    xs = special + extra
    order = draw(st.permutations(list(range(len(xs)))))
    sites = [[xs[i]] + ([draw(st.integers(0, 3)) if i >= 4 else 0] if d == 2 else []) for i in order]
    pos = {orig: k for k, orig in enumerate(order)}
    ia, ib = pos[0], pos[1]
    n = len(sites)
    pair = draw(st.sampled_from([[ia, ib], [ib, ia]]))
    case = {"data": {"sites": sites, "step": step, "jitter": None, "dtype": dtype,
                     "layout": draw(st.sampled_from(["C", "F", "strided"])), "kind": "near_tie/" + mode},
            "metric": metric, "entry": entry, "seed": draw(st.integers(0, 2 ** 31 - 1)),
            "est_life": draw(st.sampled_from(EST_LIVES))}
    if entry in KC_FAMILY:
        cfg = {"init": pair, "init_form": draw(st.sampled_from(INIT_FORMS)), "n_clusters": draw(st.sampled_from([2, 2, 3])),
               "radius_frac": None, "none_style": draw(st.sampled_from(["omit", "None"])), "tri": False,
               "n_iters": None, "rs_kind": "int", "corner_mode": "k_le_m"}
        if entry == "kcenters":
            cfg["tri"] = draw(st.booleans())
        if entry in ("hybrid", "KHybrid.fit"):
            cfg["n_iters"] = draw(st.integers(0, 2))
            if entry == "hybrid":
                cfg["rs_kind"] = draw(st.sampled_from(["int", "RandomState"]))
        cfg["n_clusters"] = min(cfg["n_clusters"], n)
        case["kc"] = cfg
    else:
        start = draw(st.sampled_from([s for s in KM_STARTS if s != "cold"]))
        cfg = {"start": start, "k": 2, "centers": pair, "container": draw(st.sampled_from(["list", "ndarray"])),
               "lab_dtype": draw(st.sampled_from(["int64", "int32"])), "lengths": None,
               "n_iters": draw(st.integers(1, 2)), "proposals": None}
        if start in ("pairs", "pairs_state"):
            cfg["lengths"] = _lengths(draw, n)
            cfg["container"] = draw(st.sampled_from(["list_of_tuples", "list_of_lists"]))
        if entry == "kmedoids" and draw(st.booleans()):
            cfg["proposals"] = draw(st.lists(st.integers(0, n - 1), min_size=2, max_size=2))
        case["km"] = cfg
    return case

# --------------------------------------------------------------------------
# running one case

def freeze(o):
    """Bit-exact, type-aware canonical form used to detect modified inputs."""
    if isinstance(o, np.ndarray):
        return ("nd", o.dtype.str, o.shape, np.ascontiguousarray(o).tobytes())
    if isinstance(o, (list, tuple)):
        return (type(o).__name__, tuple(freeze(x) for x in o))
    if isinstance(o, (np.generic,)):
        return (type(o).__name__, o.item())
    return (type(o).__name__, o)


class Run:
    """Everything a clause needs to know about one library call."""

    def __init__(self, case):
        self.case = case
        self.name = case["metric"]
        self.X = rc.build_points(case["data"])
        rc.assert_distinct(self.X)
        self.n = len(self.X)
        self.rtol, self.atol = rc.tol(case["data"]["dtype"], case["data"]["step"])
        self.inputs = {}      # name -> live object handed to the library
        self.snap = {}        # name -> frozen form before the call
        self.logs = None      # reference PAM replay (explicit proposals only)
        self.est = None
        self.r = None
        self.classes = []

    def give(self, name, obj):
        self.inputs[name] = obj
        return obj

    def snapshot(self):
        self.snap = {k: freeze(v) for k, v in self.inputs.items()}
        self.X_before = self.X.copy()


def _init_centers(run, cfg):
    idx = cfg["init"]
    if idx is None:
        return None
    X = run.X
    if cfg["init_form"] == "array":
        return X[np.array(idx, dtype=int)]
    if cfg["init_form"] == "list_views":
        return [X[i] for i in idx]
    return [X[i].copy() for i in idx]


def _radius(run, cfg):
    X, name = run.X, run.name
    if cfg.get("radius_frac") is None and cfg.get("radius_abs_steps") is None:
        return None
    start = [X[i] for i in cfg["init"]] if cfg["init"] is not None else [X[0]]
    r0 = rc.ref_radius(name, X, start)
    if r0 > 0 and cfg.get("radius_frac") is not None:
        return float(cfg["radius_frac"]) * r0
    if cfg.get("radius_abs_steps") is not None:
        return float(cfg["radius_abs_steps"]) * float(run.case["data"]["step"])
    return None


def execute(case):
    run = Run(case)
    X, name = run.give("X", run.X), run.name
    if X.base is not None:
        run.give("X_backing_buffer", X.base)      # strided layout: the gaps between the rows must stay untouched too
    M = rc.library_metric(name)
    if name == "manhattan" and case.get("alias"):
        M = "cityblock"
        run.classes.append("metric_name=cityblock")
    if name == "chebyshev" and case.get("alias"):
        # a user metric that writes every result into one preallocated work vector and returns it (the equivalent of
        # functools.partial(libdist.euclidean, out=scratch)): the values are right at the moment of return
        M = ReusedBufferChebyshev()
        run.classes.append("metric_name=chebyshev_reused_buffer")
    entry = case["entry"]
    cl = run.classes
    cl += ["entry=" + entry, "metric=" + name, "dtype=" + case["data"]["dtype"],
           "layout=" + case["data"]["layout"], "kind=" + case["data"]["kind"],
           "jitter=%s" % (case["data"]["jitter"] is not None), "readonly=%s" % bool(case["data"].get("readonly"))]
    if entry in KC_FAMILY:
        cfg = case["kc"]
        init = _init_centers(run, cfg)
        radius = _radius(run, cfg)
        k = cfg["n_clusters"]
        if k is None and radius is None:
            # degenerate draw (single point / zero starting radius): fall back to a count criterion
            k = run.n
        if init is not None:
            run.give("init_centers", init)
        cl.append("start=" + ("cold" if init is None else "warm/" + cfg["init_form"]))
        cl.append("stop=" + ("both" if (k is not None and radius is not None) else "n" if k is not None else "radius"))
        if cfg.get("corner_mode"):
            cl.append("corner=" + cfg["corner_mode"])
        if k is not None and k > run.n:
            cl.append("n_clusters>n")
        run.snapshot()
        if entry in ("kcenters", "hybrid"):
            kw = {}
            if k is not None:
                kw["n_clusters"] = k
            elif cfg["none_style"] == "None":
                kw["n_clusters"] = None
            if radius is not None:
                kw["dist_cutoff"] = radius
            elif cfg["none_style"] == "None":
                kw["dist_cutoff"] = None
            if init is not None:
                kw["init_centers"] = init
            if entry == "kcenters":
                cl.append("tri=%s" % cfg["tri"])
                tri = cfg["tri"] and case["metric"] in rc.TRUE_METRICS     # the shortcut presupposes a metric
                run.r = kc_mod.kcenters(X, M, use_triangle_inequality=tri, **kw)
            else:
                rs = case["seed"] if cfg["rs_kind"] == "int" else np.random.RandomState(case["seed"])
                cl += ["sweeps=%d" % cfg["n_iters"], "rs=" + cfg["rs_kind"]]
                run.r = hy_mod.hybrid(X, M, n_iters=cfg["n_iters"], random_state=rs, **kw)
        elif entry == "KCenters.fit":
            life = case.get("est_life", "fresh")
            cl.append("est_life=" + life)
            est = _make_estimator(KCenters, M, name, life, n_clusters=k, cluster_radius=radius)
            _first_life(est, life, X, {"init_centers": init} if init is not None else {})
            est.fit(X, init_centers=init) if init is not None else est.fit(X)
            run.est = est
        else:
            cl.append("sweeps=%d" % cfg["n_iters"])
            life = case.get("est_life", "fresh")
            cl.append("est_life=" + life)
            est = _make_estimator(KHybrid, M, name, life, n_clusters=k, cluster_radius=radius,
                                  kmedoids_updates=cfg["n_iters"], random_state=case["seed"])
            _first_life(est, life, X, {"init_centers": init} if init is not None else {})
            est.fit(X, init_centers=init) if init is not None else est.fit(X)
            run.est = est
    else:
        cfg = case["km"]
        start = cfg["start"]
        kw = {}
        cl += ["start=" + ("cold" if start == "cold" else "warm/" + start), "sweeps=%d" % cfg["n_iters"]]
        if start == "cold":
            kw["n_clusters"] = cfg["k"]
        else:
            cidx = [int(i) for i in cfg["centers"]]
            cl.append("container=" + cfg["container"])
            if start in ("inds", "all"):
                obj = list(cidx) if cfg["container"] == "list" else np.array(cidx, dtype=np.int64)
                kw["cluster_center_inds"] = run.give("cluster_center_inds", obj)
            if start in ("pairs", "pairs_state"):
                lengths = [int(x) for x in cfg["lengths"]]
                starts = np.concatenate([[0], np.cumsum(lengths)])
                pairs = []
                for i in cidx:
                    t = int(np.searchsorted(starts, i, side="right") - 1)
                    pairs.append((t, int(i - starts[t])))
                if cfg["container"] == "list_of_lists":
                    pairs = [list(p) for p in pairs]
                kw["cluster_center_inds"] = run.give("cluster_center_inds", pairs)
                kw["X_lengths"] = run.give("X_lengths", lengths)
                cl.append("n_traj=%s" % ("1" if len(lengths) == 1 else ">1"))
            if start in ("state", "all", "pairs_state"):
                lab, dist = rc.ref_assign(name, X, [X[i] for i in cidx])
                kw["assignments"] = run.give("assignments", lab.astype(cfg["lab_dtype"]))
                kw["distances"] = run.give("distances", dist.copy())
                cl.append("labels=" + cfg["lab_dtype"])
        if cfg["proposals"] is not None:
            kw["proposals"] = run.give("proposals", [int(p) for p in cfg["proposals"]])
        cl.append("drive=" + ("proposals" if cfg["proposals"] is not None else "rng"))
        run.snapshot()
        if entry == "kmedoids":
            run.r = km_mod.kmedoids(X, M, n_iters=cfg["n_iters"], random_state=case["seed"], **kw)
            # brute-force PAM replay, only to classify the case (bounded: it costs O(sweeps * k^2 * n))
            if (cfg["proposals"] is not None and start != "cold"
                    and cfg["n_iters"] * cfg["k"] ** 2 * run.n <= 300000):
                cur, logs = list(cidx), []
                for _ in range(cfg["n_iters"]):
                    cur, lg = rc.ref_pam_sweep(name, run.X_before, cur, cfg["proposals"])
                    logs += lg
                run.logs = logs
                cl += rc.branch_classes(logs)
                cl.append("replay_accepts=%s" % ("0" if not any(e["accepted"] for e in logs) else ">=1"))
        else:
            life = case.get("est_life", "fresh")
            cl.append("est_life=" + life)
            est = _make_estimator(KMedoids, M, name, life, n_clusters=kw.pop("n_clusters", None), n_iters=cfg["n_iters"])
            with rc.pinned_global_rng(case["seed"]):
                if life == "refit":
                    try:
                        est.fit(np.ascontiguousarray(X[::-1]), **kw)
                    except Exception:
                        pass
                est.fit(X, **kw)
            run.est = est
    if run.est is not None:
        est = run.est
        require(hasattr(est, "result_"), "estimator has no result_ after fit")
        # the documented estimator attributes are the observation points
        run.r = type(est.result_)(center_indices=est.center_indices_, distances=est.distances_,
                                  assignments=est.labels_, centers=est.centers_)
    return run


def nontrivial(run):
    r = run.r
    try:
        k = len(r.centers)
    except Exception:
        return False
    return k >= 2 and run.n > k


def info(run):
    r = run.r
    k = len(r.centers)
    cl = list(run.classes)
    cl.append("k=%s" % ("1" if k == 1 else "n" if k == run.n else "2..n-1"))
    cl.append("n=%s" % ("1" if run.n == 1 else "2-9" if run.n < 10 else "10-40" if run.n <= 40 else ">40"))
    return Info(nontrivial(run), cl)


# --------------------------------------------------------------------------
# oracles (one per sentence)

def _shape_ok(run):
    """Common structural facts every sentence relies on; violations of these are
    reported by whichever clause meets them first."""
    r, n = run.r, run.n
    require(len(r.centers) == len(r.center_indices), "number of centers != number of center indices",
            centers=len(r.centers), indices=len(r.center_indices))
    require(len(r.centers) >= 1, "no centers reported")
    require(np.shape(r.assignments) == (n,), "labels do not have one entry per frame", shape=np.shape(r.assignments))
    require(np.shape(r.distances) == (n,), "distances do not have one entry per frame", shape=np.shape(r.distances))


def _center_index_array(run):
    idx = np.asarray(run.r.center_indices)
    require(idx.ndim == 1 and idx.dtype.kind in "iu", "center indices are not a flat list of integers",
            got=run.r.center_indices)
    require(bool(np.all((idx >= 0) & (idx < run.n))), "center index outside [0, n_frames)", got=idx.tolist(), n=run.n)
    return idx.astype(np.int64)


def oracle_centers_are_frames(run):
    _shape_ok(run)
    idx = _center_index_array(run)
    X = run.X_before
    for c, i in enumerate(idx):
        ctr = np.asarray(run.r.centers[c])
        require(ctr.shape == X[i].shape and np.array_equal(ctr, X[i]),
                "reported center differs from the frame at its reported index",
                center=c, index=int(i), reported=ctr.tolist(), frame=X[i].tolist())


def oracle_distances_exact(run):
    _shape_ok(run)
    r, X = run.r, run.X_before
    lab = np.asarray(r.assignments)
    k = len(r.centers)
    require(lab.dtype.kind in "iu" and bool(np.all((lab >= 0) & (lab < k))),
            "cannot look up assigned centers: label outside [0, k)", labels=lab.tolist(), k=k)
    D = rc.ref_dist_matrix(run.name, X, r.centers)
    want = D[np.arange(run.n), lab]
    got = np.asarray(r.distances, dtype=np.float64)
    ok = rc.close(got, want, run.rtol, run.atol)
    bad = np.where(~ok)[0]
    require(len(bad) == 0, "reported distance != metric distance to the assigned center",
            frame=int(bad[0]) if len(bad) else None, label=int(lab[bad[0]]) if len(bad) else None,
            reported=float(got[bad[0]]) if len(bad) else None, reference=float(want[bad[0]]) if len(bad) else None,
            center_indices=list(map(int, np.asarray(r.center_indices).ravel()[:20])))


def oracle_nearest_center(run):
    _shape_ok(run)
    r, X = run.r, run.X_before
    lab = np.asarray(r.assignments)
    k = len(r.centers)
    require(lab.dtype.kind in "iu" and bool(np.all((lab >= 0) & (lab < k))),
            "cannot look up assigned centers: label outside [0, k)", labels=lab.tolist(), k=k)
    D = rc.ref_dist_matrix(run.name, X, r.centers)
    own = D[np.arange(run.n), lab]
    best = D.min(axis=1)
    ok = rc.not_less(best, own, run.rtol, run.atol)
    bad = np.where(~ok)[0]
    require(len(bad) == 0, "another reported center is strictly closer than the assigned one",
            frame=int(bad[0]) if len(bad) else None, label=int(lab[bad[0]]) if len(bad) else None,
            own_distance=float(own[bad[0]]) if len(bad) else None,
            closer_center=int(np.argmin(D[bad[0]])) if len(bad) else None,
            its_distance=float(best[bad[0]]) if len(bad) else None,
            center_indices=list(map(int, np.asarray(r.center_indices).ravel()[:20])))


def oracle_labels_in_range(run):
    _shape_ok(run)
    lab = np.asarray(run.r.assignments)
    k = len(run.r.centers)
    require(lab.dtype.kind in "iu", "labels are not integers", dtype=str(lab.dtype))
    require(bool(np.all((lab >= 0) & (lab < k))), "label outside [0, number of centers)",
            labels=lab.tolist(), k=k)


def oracle_center_self_label(run):
    _shape_ok(run)
    idx = _center_index_array(run)
    lab = np.asarray(run.r.assignments)
    dist = np.asarray(run.r.distances, dtype=np.float64)
    for c, i in enumerate(idx):
        require(int(lab[i]) == c, "center frame does not carry its own label",
                center=c, frame=int(i), label=int(lab[i]), center_indices=idx.tolist())
        require(abs(float(dist[i])) <= run.atol, "center frame is not at distance zero",
                center=c, frame=int(i), distance=float(dist[i]))


def oracle_inputs_unmodified(run):
    require(run.r is not None, "no result")
    for name, obj in run.inputs.items():
        require(freeze(obj) == run.snap[name], "input %r was modified by the call" % name,
                before=run.snap[name][:3] if name in ("X", "X_backing_buffer") else _thaw(run.snap[name]),
                after=None if name in ("X", "X_backing_buffer") else obj)
    require(np.array_equal(run.X, run.X_before), "X was modified by the call")


def _thaw(fr):
    if fr[0] == "nd":
        return np.frombuffer(fr[3], dtype=np.dtype(fr[1])).reshape(fr[2]).tolist()
    if fr[0] in ("list", "tuple"):
        return [_thaw(x) for x in fr[1]]
    return fr[1]


ORACLES = [oracle_centers_are_frames, oracle_distances_exact, oracle_nearest_center,
           oracle_labels_in_range, oracle_center_self_label, oracle_inputs_unmodified]


def make_run(oracle):
    def run_clause(case):
        run = execute(case)
        oracle(run)
        return info(run)
    run_clause.__name__ = "run_" + oracle.__name__[7:]
    return run_clause


def run_all(case):
    run = execute(case)
    for o in ORACLES:
        o(run)
    return info(run)


# --------------------------------------------------------------------------
# exhaustive sub-domain: every small tie-rich 1-D configuration through two PAM sweeps

def exhaustive_small(tier, shard, nshards):
    if tier != "thorough":
        return None

    def gen():
        idx = 0
        for size in (4, 5):
            for pts in itertools.combinations(range(7), size):
                for ctrs in itertools.permutations(range(size), 2):
                    for props in itertools.product(range(size), repeat=2):
                        idx += 1
                        if idx % nshards != shard:
                            continue
                        metric = rc.TRUE_METRICS[idx % 3]
                        yield {"data": {"sites": [[p] for p in pts], "step": 1, "jitter": None, "dtype": "int64",
                                        "layout": "C", "kind": "uniform"},
                               "metric": metric, "entry": "kmedoids", "seed": 0,
                               "km": {"start": "inds", "k": 2, "centers": list(ctrs), "container": "list",
                                      "lab_dtype": "int64", "lengths": None, "n_iters": 2,
                                      "proposals": list(props)}}
    return gen()


_S = cluster_case()
_L = cluster_case(max_n=300, max_d=8, min_n=20)

# --------------------------------------------------------------------------
# stateful clause: the life of ONE clustering estimator object (RuleBasedStateMachine, JSON history)
#
# operations: construct, reconfigure (set_params / public attributes: metric, n_clusters), fit(data k), predict(data j).
# Invariant after every step: the fitted attributes describe the LAST fit - centers are the frames of that data set at
# center_indices_, labels_ / distances_ are nearest-center assignments under the metric the object had at that fit, the
# number of centers is the one requested at that fit; predict() assigns to exactly those centers.

from hypothesis.stateful import RuleBasedStateMachine, rule, initialize, precondition    # noqa: E402

LIFE_KINDS = ["KCenters", "KHybrid", "KMedoids"]
LIFE_METRICS = ["euclidean", "manhattan", "chebyshev"]


def life_points(seed, n, d):
    rng = np.random.RandomState(seed)
    sites = set()
    while len(sites) < n:
        sites.add(tuple(int(v) for v in rng.randint(-30, 31, size=d)))        # 61^d sites: room for every n drawn
    P = np.array(sorted(sites), dtype=np.float64)
    rng.shuffle(P)
    return P + rng.uniform(-0.2, 0.2, size=P.shape)


class ClusterLife:
    def __init__(self):
        self.est = None
        self.kind = None
        self.cfg = None
        self.fit_state = None          # (metric name, k, X)
        self.buffers = {}              # caller-owned arrays that live as long as this history and are refilled in place

    def caller_buffer(self, store, n, d):
        """The SAME array object for every fit of this history that names this store and shape (a caller that keeps one
        table and overwrites its contents between runs); column-major or a column slice of a wider table."""
        key = (store, n, d)
        if key not in self.buffers:
            if store == "refill_F":
                self.buffers[key] = np.zeros((n, d), dtype=np.float64, order="F")
            else:
                self.buffers[key] = np.zeros((n, 2 * d + 1), dtype=np.float64)[:, 1::2]
        return self.buffers[key]

    def metric_obj(self, name):
        return _resolved(rc.library_metric(name))

    def check(self, where):
        if self.est is None or self.fit_state is None:
            return
        name, k, X = self.fit_state
        est = self.est
        idx = [int(i) for i in np.asarray(est.center_indices_).ravel()]
        ctr = [np.asarray(c, dtype=np.float64) for c in est.centers_]
        require(len(idx) == len(ctr) == min(k, len(X)), "the number of centers is not the one requested at the last fit",
                after=where, got=len(ctr), want=min(k, len(X)), kind=self.kind)
        for j, i in enumerate(idx):
            require(0 <= i < len(X) and np.array_equal(ctr[j], X[i]), "a center is not the frame at its center index "
                    "(of the data of the last fit)", after=where, center=j, index=i, kind=self.kind)
        D = rc.ref_dist_matrix(name, X, ctr)
        lab = np.asarray(est.labels_, dtype=int)
        dist = np.asarray(est.distances_, dtype=np.float64)
        require(lab.shape == (len(X),) and dist.shape == (len(X),), "labels_/distances_ do not describe the data of the last fit",
                after=where, labels=lab.shape, n=len(X))
        own = D[np.arange(len(X)), lab]
        require(bool(np.all(np.abs(dist - own) <= 1e-9 * np.maximum(1.0, own))), "a reported distance is not the distance to the "
                "labelled center under the metric of the last fit", after=where, metric=name, kind=self.kind,
                worst=float(np.max(np.abs(dist - own))))
        require(bool(np.all(D.min(axis=1) >= own - 1e-9 * np.maximum(1.0, own))), "a frame is not labelled with its nearest "
                "center", after=where, metric=name, kind=self.kind)

    def step(self, op):
        k_ = op["op"]
        if k_ == "construct":
            self.kind, self.cfg = op["kind"], {"metric": op["metric"], "k": op["k"]}
            M = self.metric_obj(op["metric"])
            if self.kind == "KCenters":
                self.est = KCenters(M, n_clusters=op["k"])
            elif self.kind == "KHybrid":
                self.est = KHybrid(M, n_clusters=op["k"], kmedoids_updates=1, random_state=7)
            else:
                self.est = KMedoids(M, n_clusters=op["k"], n_iters=1)
            self.fit_state = None
        elif k_ == "reconfigure":
            ch = {}
            if "metric" in op:
                ch["metric"] = self.metric_obj(op["metric"])
                self.cfg["metric"] = op["metric"]
            if "k" in op:
                ch["n_clusters"] = op["k"]
                self.cfg["k"] = op["k"]
            if op["how"] == "set_params":
                self.est.set_params(**ch)
            else:
                for a_, v in ch.items():
                    setattr(self.est, a_, v)
        elif k_ == "fit":
            X = life_points(op["seed"], op["n"], op["d"])
            kk = self.cfg["k"]
            if self.kind == "KMedoids" and kk > rc.max_distinct_k(len(X)):
                raise Skip("cold k-medoids start needs k distinct random frames")
            store = op.get("store", "copy")
            if store == "copy":
                given = X.copy()
            else:
                given = self.caller_buffer(store, *X.shape)
                given[...] = X
            with rc.pinned_global_rng(op["seed"]):
                self.est.fit(given)
            require(np.array_equal(given, X), "fit changed the caller's data", kind=self.kind, store=store)
            self.fit_state = (self.cfg["metric"], kk, X)
        elif k_ == "predict":
            name, kk, X = self.fit_state
            Y = life_points(op["seed"], op["n"], X.shape[1]) + op["shift"]
            res = self.est.predict(Y.copy())
            ctr = [np.asarray(c, dtype=np.float64) for c in self.est.result_.centers]
            D = rc.ref_dist_matrix(self.cfg["metric"], Y, ctr)
            lab = np.asarray(res.assignments, dtype=int)
            dist = np.asarray(res.distances, dtype=np.float64)
            own = D[np.arange(len(Y)), lab]
            require(bool(np.all(np.abs(dist - own) <= 1e-9 * np.maximum(1.0, own))), "predict: reported distance is not the "
                    "distance to the assigned center of the last fit (current metric)", kind=self.kind, metric=self.cfg["metric"])
            require(bool(np.all(D.min(axis=1) >= own - 1e-9 * np.maximum(1.0, own))), "predict: a frame is not assigned to its "
                    "nearest center of the last fit", kind=self.kind, metric=self.cfg["metric"])
        else:
            raise ValueError(k_)
        self.check(k_)

    @staticmethod
    def replay(history):
        c = ClusterLife()
        for op in history:
            c.step(op)
        return c


def cluster_life_info(history):
    kinds = [h["op"] for h in history]
    cl = ["life_op=" + k for k in sorted(set(kinds))] + ["life_kind=" + history[0].get("kind", "?"),
                                                        "life_fits=%d" % min(kinds.count("fit"), 3)]
    tables = [(h.get("store"), h["n"], h["d"]) for h in history if h["op"] == "fit" and h.get("store", "copy") != "copy"]
    cl.append("life_same_table_refilled=%s" % (len(tables) != len(set(tables))))
    nt, seen_fit, pending = False, False, False
    for k in kinds:
        if k == "fit":
            nt = nt or (seen_fit and pending)
            seen_fit, pending = True, False
        elif k in ("reconfigure", "predict"):
            pending = pending or seen_fit
    return Info(nt, cl)


def run_cluster_life(case):
    ClusterLife.replay(case["history"])
    return cluster_life_info(case["history"])


def make_cluster_life(hooks):
    class ClusterLifeMachine(RuleBasedStateMachine):
        def __init__(self):
            super().__init__()
            self.core = ClusterLife()
            self.history = []
            self.dead = False

        def do(self, op):
            if self.dead or hooks.over_budget():
                self.dead = True
                return
            self.history.append(op)
            try:
                self.core.step(op)
            except Skip:
                self.history.pop()
            except Exception as exc:
                self.dead = True
                if hooks.failed(list(self.history), exc):
                    return
                raise

        @initialize(kind=st.sampled_from(LIFE_KINDS), metric=st.sampled_from(LIFE_METRICS), k=st.integers(1, 5))
        def construct(self, kind, metric, k):
            self.do({"op": "construct", "kind": kind, "metric": metric, "k": k})

        @precondition(lambda self: not self.dead and self.core.est is not None)
        @rule(data=st.data())
        def reconfigure(self, data):
            op = {"op": "reconfigure", "how": data.draw(st.sampled_from(["set_params", "setattr"]))}
            what = data.draw(st.sampled_from(["metric", "k", "both"]))
            if what in ("metric", "both"):
                op["metric"] = data.draw(st.sampled_from(LIFE_METRICS))
            if what in ("k", "both"):
                op["k"] = data.draw(st.integers(1, 5))
            self.do(op)

        @precondition(lambda self: not self.dead and self.core.est is not None)
        @rule(seed=st.integers(0, 10 ** 6), n=st.integers(3, 25), d=st.integers(1, 3),
              store=st.sampled_from(["copy", "copy", "refill_F", "refill_colslice"]))
        def fit(self, seed, n, d, store):
            if store != "copy":
                n, d = 6 + n % 3, 1 + d % 2          # few shapes, so that a history meets the same table again
            self.do({"op": "fit", "seed": seed, "n": n, "d": d, "store": store})

        @precondition(lambda self: not self.dead and self.core.fit_state is not None)
        @rule(seed=st.integers(0, 10 ** 6), n=st.integers(1, 12), shift=st.sampled_from([0.0, 0.5, 3.0]))
        def predict(self, seed, n, shift):
            self.do({"op": "predict", "seed": seed, "n": n, "shift": shift})

        def teardown(self):
            if not self.dead and self.history:
                hooks.done(list(self.history), cluster_life_info(self.history))

    return ClusterLifeMachine


CLAUSES = [
    Clause("centers_are_frames", _S, make_run(oracle_centers_are_frames), quick=1400, thorough=26000,
           doc="every reported center is the data frame found at its reported center index"),
    Clause("distances_exact", _S, make_run(oracle_distances_exact), quick=1400, thorough=26000,
           doc="every frame's reported distance equals the metric distance to the center it is assigned to"),
    Clause("nearest_center", _S, make_run(oracle_nearest_center), quick=1400, thorough=26000,
           doc="no other reported center is strictly closer to that frame"),
    Clause("labels_in_range", _S, make_run(oracle_labels_in_range), quick=800, thorough=14000,
           doc="labels always lie in [0, number of centers)"),
    Clause("center_self_label", _S, make_run(oracle_center_self_label), quick=1400, thorough=26000,
           doc="every center frame carries its own label at distance zero"),
    Clause("inputs_unmodified", _S, make_run(oracle_inputs_unmodified), quick=1400, thorough=26000,
           doc="the inputs are not modified"),
    Clause("warm_start_complete", cluster_case(entries=KC_FAMILY, corner="complete"), run_all, quick=600,
           thorough=9000, doc="all sentences, for warm starts that need no further center"),
    Clause("near_ties_and_tiny_scales", near_tie_case(), run_all, quick=600, thorough=9000,
           doc="all sentences on warm starts where a frame's two center distances differ by 1e-5..1e-7 relative (the later "
               "or the earlier center being the closer one) and on data with 1e-9..1e-12 coordinates"),
    Clause("estimator_life", None, run_cluster_life, quick=400, thorough=4000, stateful=make_cluster_life, steps=10,
           doc="stateful: construct / reconfigure / fit / predict histories of one KCenters / KHybrid / KMedoids object; the "
               "fitted attributes always describe the last fit under the metric and cluster count it had then"),
    Clause("all_large", _L, run_all, quick=0, thorough=4000, doc="all sentences on 20..300 frames x 1..8 dims"),
    Clause("pam_small_exhaustive", _S, run_all, quick=0, thorough=0, exhaustive=exhaustive_small,
           doc="all sentences on every small 1-D integer configuration"),
]
MATCHERS = {}
