"""C14 - MPI-striped clustering and reductions equal their serial counterparts.

No MPI runtime exists in the sandbox: the algorithmic claim is decided against the
in-process communicator double vf/fakempi.py (N rank threads, baton scheduler, arrival
order at collectives drawn by Hypothesis, collective/root mismatch = deadlock = violation).
"""
VF_MPI = 'fake'

import os
import shutil
import tempfile

import numpy as np
from hypothesis import strategies as st

from vf.harness import Clause, Info, require, Violation, Skip
from vf import fakempi

from enspara import mpi, ra
from enspara.cluster import kcenters as kc, hybrid as hy, kmedoids as km, util as cutil
from enspara.mpi import ops, io as mio

PROPERTY = "C14"
LEVEL = "exploration"
RULE = ("Hypothesis draws a world size 1..6 (thorough 1..9), a trajectory-length vector with at least as many "
        "trajectories as ranks (lengths 1..7, including ranks that own a single length-1 trajectory), tie-free data "
        "(seeded gaussian points, 1..3 dims; tie-freeness of the greedy sequence is verified), stopping criteria, sweep "
        "counts, seeds and a schedule (which runnable rank proceeds next => arrival order at every collective). Each "
        "world runs on vf/fakempi.py; the oracle is the serial algorithm / serial definition on the concatenated data, "
        "compared on EVERY rank. Non-trivial: world size >= 2, unequal lengths and (for clustering) the farthest point "
        "changes owner rank at least twice; distinct = distinct JSON case.")
ASSUMPTIONS = ["decided against an in-process communicator double; real mpi4py/libmpi buffer handling is not exercised",
               "trajectory i is owned by rank i % size and local data are the owned trajectories concatenated in order "
               "(the layout enspara.mpi.io produces)",
               "at least as many trajectories as ranks (the library rejects fewer)",
               "cold-start k-medoids in a world of size > 1 is a recorded known finding (it raises before clustering)"]
SHARDS = {"quick": 4, "thorough": 16}


# ---------------------------------------------------------------------------
# generators

@st.composite
def world_case(draw, max_size=6, max_traj=9, min_traj_extra=0):
    size = draw(st.integers(1, max_size))
    ntraj = draw(st.integers(size, max(size, max_traj)))
    kind = draw(st.sampled_from(["any", "any", "ones", "equal"]))
    if kind == "equal":
        L = draw(st.integers(1, 5))
        lengths = [L] * ntraj
    elif kind == "ones":
        lengths = [draw(st.sampled_from([1, 1, 2, 5])) for _ in range(ntraj)]
    else:
        lengths = [draw(st.integers(1, 7)) for _ in range(ntraj)]
    return {"size": size, "lengths": lengths, "dim": draw(st.integers(1, 3)),
            "data_seed": draw(st.integers(0, 2 ** 31 - 1)),
            "schedule": draw(st.lists(st.integers(0, 11), min_size=1, max_size=12)),
            "metric": draw(st.sampled_from(["euclidean", "manhattan"]))}


def make_data(c):
    rng = np.random.RandomState(c["data_seed"])        # seed drawn by Hypothesis
    n = int(sum(c["lengths"]))
    X = rng.normal(size=(n, c["dim"]))
    starts = np.concatenate([[0], np.cumsum(c["lengths"])]).astype(int)
    sp = c.get("special")
    if sp == "tiny":
        X = X * c.get("scale", 1e-9)                      # coordinates in metres: every distance far below 1e-8
    elif sp == "near_tie" and c["lengths"][0] >= 2 and len(c["lengths"]) >= 2:
        # after the first center (frame 0, rank 0) the farthest frame lives on rank 1 at distance D+1 while rank 0's
        # own farthest frame is at distance D: the two local maxima differ by one part in D (1e-5 .. 1e-7), tie-free
        D = float(c.get("D", 10 ** 6))
        X = X * (D / 10.0)
        X[0] = 0.0
        X[1] = 0.0
        X[1, 0] = D
        X[starts[1]] = 0.0
        X[starts[1], 0] = -(D + 1.0)
    trajs = [X[starts[i]:starts[i + 1]] for i in range(len(c["lengths"]))]
    return X, trajs


def local_of(trajs, rank, size):
    return np.concatenate(trajs[rank::size])


def refd(metric, X, y):
    X = np.asarray(X, dtype=np.float64)
    d = X - np.asarray(y, dtype=np.float64)
    return np.sqrt((d * d).sum(axis=1)) if metric == "euclidean" else np.abs(d).sum(axis=1)


def greedy(metric, X, k):
    """reference Gonzalez sequence from frame 0; returns (indices, radii after each center, min gap at choices)."""
    idx = [0]
    dmin = refd(metric, X, X[0])
    radii = [dmin.max()]
    gap = np.inf
    while len(idx) < k and dmin.max() > 0:
        s = np.sort(dmin)
        if len(s) > 1:
            gap = min(gap, s[-1] - s[-2])
        i = int(np.argmax(dmin))
        idx.append(i)
        dmin = np.minimum(dmin, refd(metric, X, X[i]))
        radii.append(dmin.max())
    return idx, radii, gap


def owner_of_frame(lengths, size, g):
    starts = np.concatenate([[0], np.cumsum(lengths)])
    t = int(np.searchsorted(starts, g, side="right") - 1)
    return t % size


def run(c, fn):
    try:
        res, w = fakempi.run_world(c["size"], fn, c["schedule"])
    except fakempi.WorldError as e:
        raise Violation("communicator protocol violated: %s" % e)
    return res, w


def classes(c, w=None, extra=()):
    L = c["lengths"]
    cl = ["size=%d" % c["size"], "lengths_equal=%s" % (len(set(L)) == 1), "has_len1=%s" % (1 in L),
          "ntraj_eq_size=%s" % (len(L) == c["size"]), "metric=" + c.get("metric", "-")]
    if w is not None:
        for k in w.counts:
            cl.append("collective=" + k)
    return cl + list(extra)


# ---------------------------------------------------------------------------
# A. distributed k-centers == serial k-centers

@st.composite
def kcenters_case(draw, **kw):
    c = draw(world_case(**kw))
    n = sum(c["lengths"])
    c["stop"] = draw(st.sampled_from(["n", "n", "radius", "both"]))
    c["k"] = draw(st.integers(1, min(n, 8)))
    c["radius_rank"] = draw(st.integers(0, 7))
    c["tri"] = draw(st.booleans())
    c["special"] = draw(st.sampled_from([None, None, None, "tiny", "near_tie"]))
    if c["special"] == "tiny":
        c["scale"] = draw(st.sampled_from([1e-9, 1e-10, 1e-12]))
    elif c["special"] == "near_tie":
        c["D"] = draw(st.sampled_from([10 ** 5, 10 ** 6, 10 ** 7]))
    return c


def stopping(c, X):
    metric = c["metric"]
    idx, radii, gap = greedy(metric, X, len(X))
    unit = float(radii[0]) if radii[0] > 0 else 1.0       # "tie-free" is relative to the extent of the data
    unit = min(unit, 1.0)
    if gap < 1e-7 * unit:
        raise Skip()
    kw = {}
    if c["stop"] in ("n", "both"):
        kw["n_clusters"] = c["k"]
    if c["stop"] in ("radius", "both"):
        j = min(c["radius_rank"], len(radii) - 1)
        lo = radii[j]
        hi = radii[j - 1] if j > 0 else radii[0] * 1.5 + 1.0
        if j < len(radii) - 1 and not (hi - lo > 1e-7 * unit):
            raise Skip()
        kw["dist_cutoff"] = (lo + hi) / 2 if lo > 0 else hi / 2
    return kw, idx


def run_kcenters(c):
    X, trajs = make_data(c)
    lengths = np.array(c["lengths"], dtype=int)
    kw, gidx = stopping(c, X)
    metric = c["metric"]
    ser = kc.kcenters(X.copy(), metric, use_triangle_inequality=c["tri"], **kw)
    size = c["size"]

    def fn(rank):
        loc = local_of(trajs, rank, size).copy()
        r = kc.kcenters(loc, metric, mpi_mode=True, use_triangle_inequality=c["tri"], **kw)
        d = ops.assemble_striped_ragged_array(r.distances, lengths)
        a = ops.assemble_striped_ragged_array(r.assignments, lengths)
        ci = ops.convert_local_indices(r.center_indices, lengths)
        return [int(x) for x in ci], np.asarray(d), np.asarray(a), [np.asarray(x) for x in r.centers]

    res, w = run(c, fn)
    want_ci = [int(x) for x in ser.center_indices]
    for rank, (ci, d, a, ctrs) in enumerate(res):
        require(ci == want_ci, "distributed k-centers picked different centers than serial", rank=rank, got=ci,
                want=want_ci, lengths=c["lengths"])
        require(a.shape == ser.assignments.shape and np.array_equal(a, ser.assignments),
                "reassembled labels differ from serial", rank=rank, got=a.tolist(), want=ser.assignments.tolist())
        require(d.shape == ser.distances.shape and np.allclose(d, ser.distances, rtol=1e-12, atol=1e-12),
                "reassembled distances differ from serial", rank=rank, got=d.tolist(), want=ser.distances.tolist())
        require(len(ctrs) == len(ser.centers) and all(np.array_equal(x, y) for x, y in zip(ctrs, ser.centers)),
                "center coordinates differ from serial", rank=rank)
    owners = [owner_of_frame(lengths, size, g) for g in want_ci]
    changes = sum(1 for x, y in zip(owners, owners[1:]) if x != y)
    nt = size >= 2 and len(set(c["lengths"])) > 1 and changes >= 2
    return Info(nt, classes(c, w, ["stop=" + c["stop"], "tri=%s" % c["tri"], "owner_changes=%d" % min(changes, 3),
                                   "ncenters=%d" % min(len(want_ci), 6)]))


# ---------------------------------------------------------------------------
# B/C. distributed k-medoids stage (hybrid, warm-started kmedoids): serial invariants

def check_invariants(metric, X, ci, labels, dists, centers, what, rank):
    k = len(ci)
    require(k >= 1, what + ": no centers")
    for cidx, g in enumerate(ci):
        require(0 <= g < len(X), what + ": center index out of range", rank=rank, g=g)
        require(np.array_equal(np.asarray(centers[cidx]), X[g]), what + ": center is not the frame at its index",
                rank=rank, center=cidx, index=g)
    require(labels.shape == (len(X),) and dists.shape == (len(X),), what + ": wrong result shape", rank=rank)
    require(np.all((labels >= 0) & (labels < k)), what + ": label outside [0, k)", rank=rank, labels=labels.tolist())
    D = np.stack([refd(metric, X, X[g]) for g in ci], axis=1)
    own = D[np.arange(len(X)), labels.astype(int)]
    require(np.allclose(dists, own, rtol=1e-9, atol=1e-9), what + ": reported distance is not the distance to the assigned center",
            rank=rank, got=dists.tolist(), want=own.tolist())
    require(np.all(D.min(axis=1) >= dists - 1e-9), what + ": another center is strictly closer than the assigned one",
            rank=rank, labels=labels.tolist(), best=D.argmin(axis=1).tolist())
    for cidx, g in enumerate(ci):
        require(int(labels[g]) == cidx or D[g, int(labels[g])] <= 1e-12, what + ": center frame not labelled with itself",
                rank=rank, center=cidx)
        require(dists[g] <= 1e-9, what + ": center frame has non-zero distance", rank=rank, center=cidx)
    return float(np.mean(D.min(axis=1) ** 2))


@st.composite
def hybrid_case(draw, **kw):
    c = draw(world_case(**kw))
    n = sum(c["lengths"])
    c["k"] = draw(st.integers(1, min(n, 6)))
    c["n_iters"] = draw(st.integers(1, 3))
    c["seed"] = draw(st.integers(0, 2 ** 31 - 1))
    c["form"] = draw(st.sampled_from(["function", "estimator"]))
    return c


def run_hybrid(c):
    X, trajs = make_data(c)
    lengths = np.array(c["lengths"], dtype=int)
    metric = c["metric"]
    idx, radii, gap = greedy(metric, X, len(X))
    unit = float(radii[0]) if radii[0] > 0 else 1.0       # "tie-free" is relative to the extent of the data
    unit = min(unit, 1.0)
    if gap < 1e-7 * unit:
        raise Skip()
    size = c["size"]
    ser_kc = kc.kcenters(X.copy(), metric, n_clusters=c["k"])
    cost_kc = float(np.mean(np.asarray(ser_kc.distances) ** 2))

    def fn(rank):
        loc = local_of(trajs, rank, size).copy()
        rs = np.random.RandomState(c["seed"])
        if c["form"] == "function":
            r = hy.hybrid(loc, metric, n_iters=c["n_iters"], n_clusters=c["k"], random_state=rs, mpi_mode=True)
        else:
            est = hy.KHybrid(metric=metric, n_clusters=c["k"], kmedoids_updates=c["n_iters"], random_state=rs,
                             mpi_mode=True)
            r = est.fit(loc).result_
        d = ops.assemble_striped_ragged_array(r.distances, lengths)
        a = ops.assemble_striped_ragged_array(r.assignments, lengths)
        ci = ops.convert_local_indices(r.center_indices, lengths)
        return [int(x) for x in ci], np.asarray(d), np.asarray(a), [np.asarray(x) for x in r.centers]

    res, w = run(c, fn)
    ci0, d0, a0, ctr0 = res[0]
    for rank, (ci, d, a, ctrs) in enumerate(res):
        require(ci == ci0 and np.array_equal(d, d0) and np.array_equal(a, a0) and
                all(np.array_equal(x, y) for x, y in zip(ctrs, ctr0)),
                "ranks disagree on the reassembled k-hybrid result", rank=rank, got=ci, want=ci0)
        require(len(ci) == len(ser_kc.center_indices), "k-medoids stage changed the number of clusters", rank=rank,
                got=len(ci), want=len(ser_kc.center_indices))
        cost = check_invariants(metric, X, ci, a, d, ctrs, "distributed k-hybrid", rank)
        require(cost <= cost_kc * (1 + 1e-9) + 1e-12, "distributed k-hybrid is worse than the k-centers solution it starts from",
                rank=rank, cost=cost, kcenters_cost=cost_kc)
    moved = sum(1 for x, y in zip(ci0, [int(v) for v in ser_kc.center_indices]) if x != y)
    nt = size >= 2 and len(set(c["lengths"])) > 1 and moved >= 1
    return Info(nt, classes(c, w, ["form=" + c["form"], "moved_centers=%d" % min(moved, 3), "n_iters=%d" % c["n_iters"]]))


@st.composite
def warm_case(draw, **kw):
    c = draw(world_case(**kw))
    n = sum(c["lengths"])
    c["k"] = draw(st.integers(1, min(n, 6)))
    c["n_iters"] = draw(st.integers(1, 3))
    c["seed"] = draw(st.integers(0, 2 ** 31 - 1))
    c["inds_form"] = draw(st.sampled_from(["flat", "pairs"]))
    return c


def run_warm(c):
    X, trajs = make_data(c)
    lengths = [int(x) for x in c["lengths"]]
    metric = c["metric"]
    idx, radii, gap = greedy(metric, X, len(X))
    unit = float(radii[0]) if radii[0] > 0 else 1.0       # "tie-free" is relative to the extent of the data
    unit = min(unit, 1.0)
    if gap < 1e-7 * unit:
        raise Skip()
    size = c["size"]
    ser = kc.kcenters(X.copy(), metric, n_clusters=c["k"])
    ci = [int(x) for x in ser.center_indices]
    cost0 = float(np.mean(np.asarray(ser.distances) ** 2))
    starts = np.concatenate([[0], np.cumsum(lengths)]).astype(int)
    if c["inds_form"] == "pairs":
        given = []
        for g in ci:
            t = int(np.searchsorted(starts, g, side="right") - 1)
            given.append([t, int(g - starts[t])])
    else:
        given = list(ci)
    A = [np.asarray(ser.assignments)[starts[i]:starts[i + 1]] for i in range(len(lengths))]
    Dd = [np.asarray(ser.distances)[starts[i]:starts[i + 1]] for i in range(len(lengths))]
    larr = np.array(lengths, dtype=int)

    def fn(rank):
        loc = local_of(trajs, rank, size).copy()
        la = np.concatenate(A[rank::size]).copy()
        ld = np.concatenate(Dd[rank::size]).copy()
        r = km.kmedoids(loc, metric, n_clusters=c["k"], n_iters=c["n_iters"], assignments=la, distances=ld,
                        cluster_center_inds=[list(x) if isinstance(x, list) else x for x in given],
                        X_lengths=list(lengths), random_state=np.random.RandomState(c["seed"]))
        d = ops.assemble_striped_ragged_array(r.distances, larr)
        a = ops.assemble_striped_ragged_array(r.assignments, larr)
        # a world of one rank takes the library's serial path: indices are already global
        out = r.center_indices if size == 1 else ops.convert_local_indices(r.center_indices, larr)
        return [int(x) for x in out], np.asarray(d), np.asarray(a), [np.asarray(x) for x in r.centers]

    if size == 1:
        # world of one rank: the library takes its serial path (same call, no striping)
        pass
    res, w = run(c, fn)
    ci0, d0, a0, ctr0 = res[0]
    for rank, (cix, d, a, ctrs) in enumerate(res):
        require(cix == ci0 and np.array_equal(d, d0) and np.array_equal(a, a0),
                "ranks disagree on the reassembled warm-started k-medoids result", rank=rank)
        require(len(cix) == len(ci), "warm-started k-medoids changed the number of clusters", rank=rank)
        cost = check_invariants(metric, X, cix, a, d, ctrs, "warm-started distributed k-medoids", rank)
        require(cost <= cost0 * (1 + 1e-9) + 1e-12, "warm-started distributed k-medoids made the cost worse", rank=rank,
                cost=cost, start_cost=cost0)
    moved = sum(1 for x, y in zip(ci0, ci) if x != y)
    nt = size >= 2 and len(set(lengths)) > 1 and moved >= 1
    return Info(nt, classes(c, w, ["inds_form=" + c["inds_form"], "moved_centers=%d" % min(moved, 3)]))


# ---------------------------------------------------------------------------
# D. striped ops == serial definitions

@st.composite
def ops_case(draw, **kw):
    c = draw(world_case(**kw))
    c["seed"] = draw(st.integers(0, 2 ** 31 - 1))
    c["frame"] = draw(st.integers(0, 10 ** 6))
    return c


def run_ops(c):
    X, trajs = make_data(c)
    lengths = np.array(c["lengths"], dtype=int)
    size = c["size"]
    n = len(X)
    # per-frame non-negative values striped like the data (the library's callers pass distances, squared distances
    # and labels: striped_array_mean asserts global_sum >= local_sum, which presumes non-negative data)
    vals = np.abs(np.random.RandomState(c["seed"]).normal(size=n))
    vals[::3] = np.floor(vals[::3])
    # the maximum is exercised with data of any sign (all-negative, mixed, shifted), the mean with non-negative data
    sgn = [1.0, -1.0, 1.0, -1.0][c["seed"] % 4]
    mvals = sgn * (vals + (c["seed"] % 3)) if c["seed"] % 4 < 2 else np.random.RandomState(c["seed"] + 1).normal(size=n) - (c["seed"] % 5)
    # ... and the mean of values held in a narrow / unsigned / boolean type (labels, masks, discretised distances): every
    # value fits the type, a rank's sum of them need not
    idt = ["uint8", "int16", "bool", "int8", "uint16"][c["seed"] % 5]
    top = {"uint8": 250, "int16": 32000, "bool": 1, "int8": 120, "uint16": 65000}[idt]
    ivals = np.random.RandomState(c["seed"] + 7).randint(top // 2, top + 1, size=n).astype(idt)
    starts = np.concatenate([[0], np.cumsum(lengths)]).astype(int)
    IV = [ivals[starts[i]:starts[i + 1]] for i in range(len(lengths))]
    V = [vals[starts[i]:starts[i + 1]] for i in range(len(lengths))]
    MV = [mvals[starts[i]:starts[i + 1]] for i in range(len(lengths))]
    g = c["frame"] % n
    t = int(np.searchsorted(starts, g, side="right") - 1)
    owner = t % size
    local_off = int(sum(lengths[owner::size][:t // size]) + (g - starts[t]))

    def fn(rank):
        lv = np.concatenate(V[rank::size])
        out = {}
        out["lengths"] = ops.assemble_striped_array(lengths[rank::size].copy())
        out["max"] = ops.striped_array_max(np.concatenate(MV[rank::size]))
        out["mean"] = ops.striped_array_mean(lv)
        out["imean"] = float(ops.striped_array_mean(np.concatenate(IV[rank::size])))
        out["ragged"] = ops.assemble_striped_ragged_array(lv.copy(), lengths)
        loc = local_of(trajs, rank, size)
        before = loc.copy()
        out["frame"] = np.array(ops.distribute_frame(loc, local_off, owner))
        out["loc_unchanged"] = bool(np.array_equal(loc, before))
        pairs = [(r, j) for r in range(size) for j in range(int(sum(lengths[r::size])))]
        out["conv"] = [int(x) for x in ops.convert_local_indices(pairs, lengths)]
        return out

    res, w = run(c, fn)
    want_conv = []
    for r in range(size):
        for tr in range(r, len(lengths), size):
            want_conv += list(range(starts[tr], starts[tr + 1]))
    for rank, o in enumerate(res):
        require(np.array_equal(np.asarray(o["lengths"]), lengths), "assemble_striped_array != serial lengths", rank=rank,
                got=np.asarray(o["lengths"]).tolist(), want=lengths.tolist())
        require(o["max"] == mvals.max(), "striped_array_max != serial max", rank=rank, got=o["max"], want=mvals.max())
        require(abs(o["mean"] - vals.mean()) <= 1e-12 * (1 + abs(vals.mean())), "striped_array_mean != serial mean",
                rank=rank, got=o["mean"], want=vals.mean())
        want_im = float(ivals.astype(np.float64).mean())
        require(abs(o["imean"] - want_im) <= 1e-12 * (1 + abs(want_im)), "striped_array_mean of %s values != serial mean" % idt,
                rank=rank, got=o["imean"], want=want_im, n=n)
        require(np.array_equal(np.asarray(o["ragged"]), vals), "assemble_striped_ragged_array != serial order", rank=rank,
                got=np.asarray(o["ragged"]).tolist(), want=vals.tolist())
        require(np.array_equal(o["frame"], X[g]), "distribute_frame did not deliver the owner's frame", rank=rank)
        require(o["loc_unchanged"], "distribute_frame modified the local data", rank=rank)
        require(o["conv"] == [int(x) for x in want_conv], "convert_local_indices != serial global index", rank=rank,
                got=o["conv"], want=[int(x) for x in want_conv])
    nt = size >= 2 and len(set(c["lengths"])) > 1
    return Info(nt, classes(c, w, ["max_data=%s" % ("all_negative" if mvals.max() < 0 else "has_positive")]))


class _Seq(np.random.RandomState):
    """RandomState whose randint(n) returns a prescribed value (exact-uniformity probe)."""

    def __init__(self, value):
        super().__init__(0)
        self.value = value
        self.asked = None

    def randint(self, n, *a, **k):
        self.asked = int(n)
        return int(self.value)


def run_randind(c):
    lengths = np.array(c["lengths"], dtype=int)
    size = c["size"]
    loc_n = [int(sum(lengths[r::size])) for r in range(size)]
    total = int(sum(loc_n))
    hits = {}
    gs = list(range(total)) if total <= 12 else sorted(set([0, total - 1, c["frame"] % total, (c["frame"] // 7) % total]))
    w = None
    for gval in gs:
        def fn(rank):
            la = np.arange(loc_n[rank]) + 100 * rank
            rs = _Seq(gval)
            o, i = ops.randind(la, rs)
            return int(o), int(i), rs.asked
        res, w = run(c, fn)
        require(len(set((o, i) for o, i, _ in res)) == 1, "ranks disagree on the random element", got=res)
        o, i, asked = res[0]
        require(0 <= o < size and 0 <= i < loc_n[o], "randind returned an element that does not exist", owner=o, index=i,
                local_sizes=loc_n)
        require(res[0][2] == total, "rank 0 drew from the wrong range", asked=res[0][2], total=total)
        hits[(o, i)] = hits.get((o, i), 0) + 1
    require(all(v == 1 for v in hits.values()), "randind maps two global draws to the same element (not uniform)",
            hits={str(k): v for k, v in hits.items()})
    if total <= 12:
        require(len(hits) == total, "randind cannot reach every element", reached=len(hits), total=total)
    # real RandomState: agreement + reproducibility
    def fn2(rank):
        la = np.arange(loc_n[rank])
        return tuple(int(x) for x in ops.randind(la, np.random.RandomState(c["seed"])))
    r1, w = run(c, fn2)
    r2, _ = run(c, fn2)
    require(len(set(r1)) == 1 and r1 == r2, "randind with a seeded RandomState is not reproducible / not agreed", a=r1, b=r2)
    # unseeded: every rank has its own generator state (here: successive draws of the process-wide generator, an
    # unseeded RandomState per rank); only one rank may draw, all ranks must still agree on one existing element
    for how in ("none", "fresh_randomstate"):
        def fn3(rank):
            la = np.arange(loc_n[rank])
            rs_ = None if how == "none" else np.random.RandomState()
            return tuple(int(x) for x in ops.randind(la, rs_))
        r3, w = run(c, fn3)
        require(len(set(r3)) == 1, "ranks disagree on the element chosen by randind with an unseeded generator (%s)" % how,
                got=r3)
        o, i = r3[0]
        require(0 <= o < size and 0 <= i < loc_n[o], "randind (unseeded) returned an element that does not exist",
                owner=o, index=i)
    nt = size >= 2 and len(set(loc_n)) > 1
    return Info(nt, classes(c, w, ["randind_exhaustive=%s" % (total <= 12)]))


# ---------------------------------------------------------------------------
# E. striped file loading

@st.composite
def io_case(draw, **kw):
    c = draw(world_case(**kw))
    c["stride"] = draw(st.integers(1, 3))
    c["kind"] = draw(st.sampled_from(["npy", "h5", "traj"]))
    c["dtype"] = draw(st.sampled_from(["float64", "float32", "int64"]))
    c["processes"] = draw(st.sampled_from([1, 2, 3]))      # worker processes of every rank's own loader (kind "traj")
    return c


def run_io(c):
    X, trajs = make_data(c)
    size = c["size"]
    stride = c["stride"]
    trajs = [(t * 100).astype(c["dtype"]) for t in trajs]
    d = tempfile.mkdtemp(prefix="c14io")
    try:
        if c["kind"] == "npy":
            files = []
            tags = np.random.RandomState(c["data_seed"]).permutation(len(trajs) + 3)   # list order != sorted order
            for i, t in enumerate(trajs):
                f = os.path.join(d, "run_%d.npy" % (int(tags[i]) * 7))
                np.save(f, t)
                files.append(f)

            def fn(rank):
                gl, loc = mio.load_npy_as_striped(files, stride=stride)
                return [int(x) for x in gl], np.asarray(loc)
        elif c["kind"] == "traj":
            # molecular trajectories, one file each: every rank loads its files with its own pool of worker processes
            import mdtraj
            top = mdtraj.Topology()
            ch_ = top.add_chain()
            r_ = top.add_residue("ALA", ch_)
            for i in range(c["dim"]):
                top.add_atom("C%d" % i, mdtraj.element.carbon, r_)
            files = []
            trajs = [np.repeat(np.asarray(t, dtype=np.float32)[:, :, None], 3, axis=2) + np.arange(3, dtype=np.float32)
                     for t in trajs]
            for i, t in enumerate(trajs):
                f = os.path.join(d, "trj_%02d.h5" % i)
                mdtraj.Trajectory(t, top).save_hdf5(f)
                files.append(f)
            trajs = [mdtraj.load(f).xyz for f in files]          # what a serial reader gets back from each file

            def fn(rank):
                gl, loc = mio.load_trajectory_as_striped(files, processes=c.get("processes", 1), stride=stride)
                return [int(x) for x in gl], np.asarray(loc)
        else:
            if len(trajs) < 2:
                raise Skip()
            f = os.path.join(d, "all.h5")
            ra.save(f, ra.RaggedArray([t for t in trajs]))

            def fn(rank):
                gl, loc = mio.load_h5_as_striped(f, stride=stride)
                return [int(x) for x in gl], np.asarray(loc)
        res, w = run(c, fn)
    finally:
        shutil.rmtree(d, ignore_errors=True)
    for rank, (gl, loc) in enumerate(res):
        # with stride > 1 the docs do not say whether global lengths are strided; only stride 1 is asserted
        want_gl = [len(t[::stride]) for t in trajs] if c["kind"] == "traj" else [len(t) for t in trajs]
        require((stride > 1 and c["kind"] != "traj") or gl == want_gl, "striped loader reports wrong global lengths", rank=rank,
                got=gl, want=want_gl)
        want = np.concatenate([t[::stride] for t in trajs[rank::size]])
        require(loc.dtype == want.dtype and loc.shape == want.shape and np.array_equal(loc, want),
                "striped loader's local block != slicing the serial load", rank=rank, kind=c["kind"],
                got_shape=loc.shape, want_shape=want.shape)
    nt = size >= 2 and len(set(c["lengths"])) > 1
    return Info(nt, classes(c, w, ["io=" + c["kind"], "stride=%d" % stride]))



@st.composite
def io_bad_case(draw, **kw):
    c = draw(world_case(**kw))
    c["stride"] = draw(st.integers(1, 2))
    c["dtype"] = draw(st.sampled_from(["float64", "float32"]))
    c["odd_file"] = draw(st.integers(0, len(c["lengths"]) - 1))
    c["odd_kind"] = draw(st.sampled_from(["dtype", "width"]))
    return c


def run_io_inconsistent(c):
    """A file list with one stray file (other element type or other number of features) cannot be loaded as one array:
    the serial definition refuses it, so every rank has to refuse it - whichever rank happens to own the stray file."""
    if len(c["lengths"]) < 2:
        raise Skip()
    X, trajs = make_data(c)
    size = c["size"]
    trajs = [(t * 100).astype(c["dtype"]) for t in trajs]
    k = c["odd_file"]
    if c["odd_kind"] == "dtype":
        trajs[k] = trajs[k].astype("float32" if c["dtype"] == "float64" else "float64")
    else:
        trajs[k] = np.concatenate([trajs[k], trajs[k][:, :1]], axis=1)
    d = tempfile.mkdtemp(prefix="c14iob")
    try:
        files = []
        for i, t in enumerate(trajs):
            f = os.path.join(d, "run_%03d.npy" % i)
            np.save(f, t)
            files.append(f)

        def fn(rank):
            try:
                gl, loc = mio.load_npy_as_striped(files, stride=c["stride"])
            except Exception as e:      # noqa - any refusal counts
                return ("refused", type(e).__name__)
            return ("returned", str(np.asarray(loc).dtype), tuple(np.asarray(loc).shape))
        res, w = run(c, fn)
    finally:
        shutil.rmtree(d, ignore_errors=True)
    outcomes = [r[0] for r in res]
    require(all(o == "refused" for o in outcomes), "an inconsistent file list (one stray %s) was not refused on every rank"
            % c["odd_kind"], outcomes=res, odd_file=k, owner_rank=k % size, world=size)
    return Info(size >= 2, classes(c, w, ["io_bad=" + c["odd_kind"], "odd_owner_has_one_file=%s" % (len(trajs[k % size::size]) == 1)]))

# ---------------------------------------------------------------------------
# F. cold-started distributed k-medoids (the cluster app's KMedoids path under MPI without restart files)

def run_cold_kmedoids(c):
    X, trajs = make_data(c)
    lengths = np.array(c["lengths"], dtype=int)
    metric = c["metric"]
    size = c["size"]
    if size == 1:
        raise Skip()

    def fn(rank):
        loc = local_of(trajs, rank, size).copy()
        r = km.kmedoids(loc, metric, n_clusters=c["k"], n_iters=c["n_iters"],
                        random_state=np.random.RandomState(c["seed"]))
        d = ops.assemble_striped_ragged_array(r.distances, lengths)
        a = ops.assemble_striped_ragged_array(r.assignments, lengths)
        ci = ops.convert_local_indices(r.center_indices, lengths)
        return [int(x) for x in ci], np.asarray(d), np.asarray(a), [np.asarray(x) for x in r.centers]

    res, w = run(c, fn)
    ci0, d0, a0, ctr0 = res[0]
    for rank, (ci, d, a, ctrs) in enumerate(res):
        require(ci == ci0 and np.array_equal(d, d0) and np.array_equal(a, a0), "ranks disagree on cold-start k-medoids",
                rank=rank)
        require(len(ci) == c["k"], "cold-start distributed k-medoids returned a different number of clusters", rank=rank)
        check_invariants(metric, X, ci, a, d, ctrs, "cold-start distributed k-medoids", rank)
    return Info(len(set(c["lengths"])) > 1, classes(c, w))


def m_cold_kmedoids_mpi(case, exc):
    """kmedoids() without a warm start in a world of more than one rank dies inside its input handling
    (_kmedoids_inputs_tree_mpi: np.arange(X) on the data array, then None.append) before any clustering."""
    import traceback
    if case.get("size", 1) <= 1 or not isinstance(exc, (TypeError, AttributeError, ValueError)):
        return False
    frames = [f.name for f in traceback.extract_tb(exc.__traceback__) if "/enspara/" in f.filename]
    return bool(frames) and frames[-1] == "_kmedoids_inputs_tree_mpi"


CLAUSES = [
    Clause("kcenters_equals_serial", kcenters_case(), run_kcenters, quick=220, thorough=4000),
    Clause("hybrid_invariants", hybrid_case(), run_hybrid, quick=120, thorough=2500),
    Clause("warm_kmedoids_invariants", warm_case(), run_warm, quick=120, thorough=2500),
    Clause("striped_ops", ops_case(), run_ops, quick=200, thorough=4000),
    Clause("randind", ops_case(), run_randind, quick=80, thorough=1500),
    Clause("striped_io", io_case(), run_io, quick=80, thorough=1500),
    Clause("striped_io_inconsistent", io_bad_case(), run_io_inconsistent, quick=60, thorough=1000),
    Clause("cold_kmedoids", hybrid_case(), run_cold_kmedoids, quick=40, thorough=400),
    Clause("kcenters_big_world", kcenters_case(max_size=9, max_traj=14), run_kcenters, quick=0, thorough=1500),
]
MATCHERS = {"cold_kmedoids_mpi": m_cold_kmedoids_mpi}
