"""C20 - rotamer assignment is a correct hysteresis state machine; transition bookkeeping."""
import itertools
import os

import numpy as np
from hypothesis import reject, strategies as st

from vf.harness import Clause, Info, require, Violation, Skip

from enspara import ra
from enspara.geometry import rotamer
from enspara.cards import disorder

PROPERTY = "C20"
LEVEL = "exploration"
RULE = ("Angle histories (1..60 frames quick, up to 500 thorough) are built step by step against a reference "
        "hysteresis machine: every step draws a region relative to the current reference state (deep in basin, "
        "lower/upper buffer zone, just outside the lower/upper gate, +-1e-3 around a gate, either side of the 0/360 "
        "seam, exact boundary value, anywhere) and an angle inside it, then moves it >= 1e-6 (1e-3 for float32 "
        "containers) away from every gate value b_k +- buffer (mod 360). Boundary sets: [0,180,360], [0,160,360], "
        "[0,120,240,360] (those the library uses) and, in one separate clause, random 2-4 basin sets; buffers: 0, 15, "
        "small, medium, wide up to just below 360/n_basins (for two basins this includes the regime where the widened "
        "basin covers the whole circle), passed as int / float / numpy scalar; angles passed as list, float64, float32 "
        "and strided column views. Oracle: plain-python state machine on circular intervals; local one-step oracles "
        "(stay / re-bin) evaluated on the library's own previous state; searchsorted binning for buffer 0. A history is "
        "non-trivial when it enters a buffer zone and later returns to its basin without a state change AND crosses the "
        "0/360 seam between consecutive frames at least once. Thorough also enumerates every sequence of length 1..4 "
        "over a 24-point grid (gate+-0.5, boundary+-0.2, exact boundaries, seam, fill) x 3 library boundary sets x "
        "buffers {0,15,85,105}. Transition bookkeeping: state tables (rows = trajectories) drawn from constant / "
        "alternating / first-only / last-only / run-length / random rows, presented as 1-D (contiguous or strided "
        "column, int16/32/64), 2-D (C/F order) and RaggedArray; oracle: literal python loop per row; non-trivial when a "
        "row without any transition coexists with a row with >= 2 transitions (1-D: >= 2 transitions, one at frame 0 "
        "[featurizer clause: RotamerFeaturizer.fit on 1..4 pieces of the test trajectory as list/tuple/generator, one "
        "reference machine per trajectory; non-trivial when a machine over the joined series would differ] "
        "or at the last frame pair). distinct = distinct canonical JSON of the case.")
ASSUMPTIONS = [
    "angle sequences are non-empty, every angle is in [0, 360) and at distance >= 1e-6 (1e-3 for float32 input) from "
    "every gate value b_k +- buffer (mod 360); exact basin boundaries are generated only when they are not gate values",
    "boundary sets used by the library ([0,180,360], [0,160,360], [0,120,240,360]) with every buffer the library's own "
    "range check admits (0 <= buffer < 360/n_basins); for other (random) boundary sets buffers are limited so that no "
    "inner basin's widened interval reaches the 0/360 seam (the library's gate pair cannot express that; not claimed)",
    "RaggedArray state sequences have >= 2 frames per trajectory (RaggedArray slicing that yields an empty row is not "
    "claimed to work, see DESIGN section 5); 2-D arrays have >= 1 row",
    "state ids are non-negative integers representable in the array dtype (int8/16/32/64, uint16), small or widely spaced",
]
SHARDS = {"quick": 4, "thorough": 16}

LIB_SETS = [[0, 180, 360], [0, 160, 360], [0, 120, 240, 360]]


# --------------------------------------------------------------------------
# reference model (plain python, circular intervals; no gate swapping)

def basin_of(a, bounds):
    """Index k of the half-open basin [b_k, b_k+1) containing a."""
    for k in range(len(bounds) - 1):
        if bounds[k] <= a < bounds[k + 1]:
            return k
    raise Skip("angle %r outside [0, 360)" % (a,))


def widened_width(k, bounds, buf):
    return (bounds[k + 1] - bounds[k]) + 2.0 * buf


def in_widened(a, k, bounds, buf):
    """Is a inside basin k widened by buf on both sides, modulo 360?"""
    width = widened_width(k, bounds, buf)
    if width >= 360.0:
        return True
    return (a - (bounds[k] - buf)) % 360.0 < width


def ref_machine(angles, bounds, buf):
    s = basin_of(angles[0], bounds)
    out = [s]
    for a in angles[1:]:
        if not in_widened(a, s, bounds, buf):
            s = basin_of(a, bounds)
        out.append(s)
    return out


def gate_values(bounds, buf):
    g = set()
    for k in range(len(bounds) - 1):
        g.add((bounds[k] - buf) % 360.0)
        g.add((bounds[k + 1] + buf) % 360.0)
    return sorted(g)


def circ_dist(a, b):
    d = abs(a - b) % 360.0
    return min(d, 360.0 - d)


def min_gate_dist(a, gates):
    return min(circ_dist(a, g) for g in gates)


def crossed_states(bounds, buf):
    return [k for k in range(len(bounds) - 1) if widened_width(k, bounds, buf) >= 360.0]


# --------------------------------------------------------------------------
# generators

def _snap(v, f32):
    v = v % 360.0
    if f32:
        v = float(np.float32(v))
        if v >= 360.0:
            v = float(np.nextafter(np.float32(360.0), np.float32(0.0)))
    if v >= 360.0 or v < 0.0:
        v = 0.0
    return v


def avoid_gates(v, gates, margin, f32):
    v = _snap(v, f32)
    for attempt in range(200):
        near = [g for g in gates if circ_dist(v, g) < margin]
        if not near:
            return v
        g = near[0]
        side = 1.0 if ((v - g) % 360.0) < 180.0 else -1.0
        v = _snap(g + side * margin * (1.5 + attempt), f32)
    reject()      # (never observed) no gate-free value nearby: let Hypothesis draw another example


def region_angle(region, k, bounds, buf, x):
    """Angle for a step: x is an integer in [0, 10**6) picking the position inside the region."""
    n = len(bounds) - 1
    frac = x / 1e6
    lo_b, hi_b = bounds[k], bounds[k + 1]
    width = hi_b - lo_b
    outside = 360.0 - width - 2.0 * buf
    w = min(outside, 25.0)
    if region == "buf_lo" and buf > 0:
        start, length = lo_b - buf, buf
    elif region == "buf_hi" and buf > 0:
        start, length = hi_b, buf
    elif region == "out_lo" and outside > 0:
        start, length = lo_b - buf - w, w
    elif region == "out_hi" and outside > 0:
        start, length = hi_b + buf, w
    elif region == "gate_lo":
        start, length = lo_b - buf - 1e-3, 2e-3
    elif region == "gate_hi":
        start, length = hi_b + buf - 1e-3, 2e-3
    elif region == "seam_lo":
        start, length = 0.0, 2.0
    elif region == "seam_hi":
        start, length = 358.0, 2.0
    elif region == "boundary":
        return float(bounds[x % n])
    elif region in ("far", "out_lo", "out_hi"):
        start, length = 0.0, 360.0
    else:   # deep (also the fallback of buf_* for a zero buffer)
        start, length = lo_b, width
    return (start + frac * length) % 360.0


REGIONS = ["deep", "deep", "buf_lo", "buf_lo", "buf_hi", "buf_hi", "out_lo", "out_hi", "gate_lo", "gate_hi",
           "seam_lo", "seam_hi", "far", "far", "boundary"]
# ("u16" / "i32": whole-degree angles held in an integer array - discretised or table-driven dihedrals)
CONTAINERS = ["f32_col", "f64", "f32", "f64_col", "list", "f64", "f32_col", "u16", "i32"]


@st.composite
def buffer_for(draw, bounds, zero=False, limit=None):
    n = len(bounds) - 1
    lim = 360.0 / n if limit is None else min(limit, 360.0 / n)
    if zero:
        return draw(st.sampled_from([0, 0.0]))
    # buffer from which the gates of basin k cross (its widened interval covers the whole circle)
    thr = sorted(min((360.0 - (bounds[k + 1] - bounds[k])) / 2.0, lim) for k in range(n))
    cross = thr[0]
    kinds = ["small", "default", "mid", "wide", "wide", "edge", "int", "zero"]
    if thr[0] < thr[-1]:
        kinds += ["partial", "partial"]
    kind = draw(st.sampled_from(kinds))
    x = draw(st.integers(0, 10 ** 6 - 1)) / 1e6
    if kind == "zero":
        b = 0
    elif kind == "default":
        b = 15
    elif kind == "int":
        b = int(x * lim)
    elif kind == "edge":
        b = lim * (1.0 - 1e-9) if x < 0.5 else lim - (1 + int(x * 1000)) * 1e-3
    elif kind == "partial":     # some, not all, basins have crossed gates
        b = thr[0] + (thr[-1] - thr[0]) * x
    else:
        lo, hi = {"small": (min(30.0, lim) * 0.02, min(30.0, lim)), "mid": (min(30.0, lim), cross),
                  "wide": (cross * 0.9, lim)}[kind]
        b = lo + (hi - lo) * x
    if not (0 <= b < lim):
        b = lim * x
    return b


@st.composite
def history_case(draw, max_len=60, sets="lib", zero=False, short=False):
    if sets == "lib":
        bounds = list(draw(st.sampled_from(LIB_SETS)))
        limit = None
    else:
        n = draw(st.sampled_from([3, 2, 4]))
        # basin widths in half degrees, each >= 20 degrees, summing to 360 degrees
        free = 720 - 40 * n
        cuts = [0] + sorted(draw(st.lists(st.integers(0, free), min_size=n - 1, max_size=n - 1))) + [free]
        edges = np.cumsum([40 + cuts[i + 1] - cuts[i] for i in range(n)]).tolist()
        bounds = [0] + [c / 2.0 if c % 2 else c // 2 for c in edges[:-1]] + [360]
        # inner basins must not reach the seam when widened (assumption 2)
        limit = min([360.0 / n] + [min(bounds[k], 360 - bounds[k + 1]) for k in range(1, n - 1)])
    buf = draw(buffer_for(bounds, zero=zero, limit=limit))
    container = draw(st.sampled_from(CONTAINERS))
    f32 = container.startswith("f32")
    margin = 1e-3 if f32 else 1e-6
    gates = gate_values(bounds, float(buf))
    if short:
        length = draw(st.integers(1, 4))
    else:
        length = draw(st.one_of(st.integers(2, 12), st.integers(1, max_len)))
    angles = []
    state = None
    for i in range(length):
        region = draw(st.sampled_from(REGIONS))
        x = draw(st.integers(0, 10 ** 6 - 1))
        k = state if state is not None else draw(st.integers(0, len(bounds) - 2))
        a = avoid_gates(region_angle(region, k, bounds, float(buf), x), gates, margin, f32)
        if state is None or not in_widened(a, state, bounds, float(buf)):
            state = basin_of(a, bounds)
        angles.append(a)
    return {"bounds": bounds, "buffer": buf, "angles": angles, "container": container,
            "bounds_as": draw(st.sampled_from(["list", "tuple", "array", "farray"])),
            "buffer_as": draw(st.sampled_from(["py", "py", "np"]))}


# --------------------------------------------------------------------------
# calling the library

def build_args(case):
    a = case["angles"]
    c = case["container"]
    if c == "list":
        angles = list(a)
    elif c in ("f64", "f32"):
        angles = np.array(a, dtype="float64" if c == "f64" else "float32")
    elif c in ("u16", "i32"):
        angles = np.array(np.floor(np.asarray(a, dtype=float)), dtype="uint16" if c == "u16" else "int32")
    elif c in ("f64_col", "f32_col"):       # what phi_rotamers & co. pass: a column of a 2-D array
        base = np.full((len(a), 3), 123.0, dtype="float64" if c == "f64_col" else "float32")
        base[:, 1] = a
        angles = base[:, 1]
    else:
        raise Skip("unknown container")
    b = case["bounds"]
    bounds = {"list": list(b), "tuple": tuple(b), "array": np.array(b),
              "farray": np.array(b, dtype=float)}[case.get("bounds_as", "list")]
    buf = case["buffer"]
    if case.get("buffer_as", "py") == "np":
        buf = np.float64(buf) if isinstance(buf, float) else np.int64(buf)
    vals = [float(x) for x in angles]
    return angles, bounds, buf, vals


def check_domain(case, vals):
    bounds, buf = case["bounds"], float(case["buffer"])
    n = len(bounds) - 1
    if not vals or bounds[0] != 0 or bounds[-1] != 360 or not (0 <= buf < 360.0 / n):
        raise Skip("outside the domain")
    margin = 1e-3 if case["container"].startswith("f32") else 1e-6
    gates = gate_values(bounds, buf)
    for v in vals:
        if not (0.0 <= v < 360.0) or min_gate_dist(v, gates) < 0.5 * margin:
            raise Skip("angle on a gate or outside [0, 360)")


def lib_states(case):
    angles, bounds, buf, vals = build_args(case)
    check_domain(case, vals)
    out = rotamer._rotamers(angles, bounds, buffer_width=buf)
    # the state sequence belongs to the caller: assigning another, equally long angle series (what all_rotamers does
    # dihedral after dihedral) may not change it
    kept = np.array(out, copy=True)
    other = rotamer._rotamers(np.asarray(angles)[::-1].copy(), bounds, buffer_width=buf)
    require(other is not out and np.array_equal(np.asarray(out), kept),
            "the state sequence returned by an earlier call changed when another angle series was assigned",
            before=kept.tolist()[:10], after=np.asarray(out).tolist()[:10])
    return out, vals


def history_info(case, vals, ref=None):
    bounds, buf = case["bounds"], float(case["buffer"])
    n = len(bounds) - 1
    ref = ref if ref is not None else ref_machine(vals, bounds, buf)
    cls = set()
    cls.add("bounds=%s" % ("-".join(str(b) for b in bounds) if bounds in LIB_SETS else "random%d" % n))
    cr = crossed_states(bounds, buf)
    cls.add("buffer=%s" % ("zero" if buf == 0 else "proper" if not cr else "crossed_all" if len(cr) == n
                           else "crossed_some"))
    cls.add("container=" + case["container"])
    cls.add("len=%s" % ("1" if len(vals) == 1 else "2-12" if len(vals) <= 12 else "13+"))
    seam = False
    in_buffer_since = None      # frame index at which the current state was first seen in a buffer zone
    returned = False
    for i in range(1, len(vals)):
        a, s_prev, s = vals[i], ref[i - 1], ref[i]
        if abs(a - vals[i - 1]) > 180.0:
            seam = True
        if a in bounds:
            cls.add("angle_on_boundary")
        inside = in_widened(a, s_prev, bounds, buf)
        where = "s0" if s_prev == 0 else "slast" if s_prev == n - 1 else "mid"
        if inside:
            own = basin_of(a, bounds) == s_prev
            if not own:
                cls.add("stay:in_buffer_" + where)
                if in_buffer_since is None:
                    in_buffer_since = i
                if s_prev == 0 and a >= 360.0 - buf:
                    cls.add("stay:s0_across_seam")
                if s_prev == n - 1 and a < buf:
                    cls.add("stay:slast_across_seam")
            elif in_buffer_since is not None:
                returned = True
        else:
            lo_g, hi_g = (bounds[s_prev] - buf) % 360.0, (bounds[s_prev + 1] + buf) % 360.0
            cls.add("exit:%s_%s" % (where, "lower" if circ_dist(a, lo_g) <= circ_dist(a, hi_g) else "upper"))
            in_buffer_since = None
        if s != s_prev:
            in_buffer_since = None
    if vals[0] in bounds:
        cls.add("first_on_boundary")
    if seam:
        cls.add("seam_crossed")
    if returned:
        cls.add("buffer_return")
    return Info(seam and returned, sorted(cls)), ref


def valid_states(out, n):
    return all(0 <= int(s) < n for s in out)


# --------------------------------------------------------------------------
# clause bodies: rotamer state machine

def run_first_frame(case):
    out, vals = lib_states(case)
    bounds = case["bounds"]
    want = basin_of(vals[0], bounds)
    require(len(out) == len(vals), "one state per frame expected", got=len(out), want=len(vals))
    require(int(out[0]) == want, "first frame is not assigned the basin containing its angle",
            angle=vals[0], got=int(out[0]), want=want, bounds=bounds, buffer=case["buffer"])
    info, _ = history_info(case, vals)
    d = min(circ_dist(vals[0], b) for b in bounds)
    cl = list(info.classes) + ["first_angle=%s" % ("on_boundary" if vals[0] in bounds else "near_boundary" if d < 2
                                                   else "in_buffer_zone" if d < float(case["buffer"]) else "deep")]
    return Info(d < max(2.0, float(case["buffer"])), cl)


def run_stay(case):
    """Local step oracle, evaluated on the library's own previous state: inside the widened basin -> no change."""
    out, vals = lib_states(case)
    bounds, buf = case["bounds"], float(case["buffer"])
    n = len(bounds) - 1
    require(len(out) == len(vals), "one state per frame expected", got=len(out), want=len(vals))
    for i in range(1, len(vals)):
        prev = int(out[i - 1])
        require(0 <= prev < n, "state is not a basin index", frame=i - 1, state=prev)
        if in_widened(vals[i], prev, bounds, buf):
            require(int(out[i]) == prev,
                    "state changed although the angle is inside the current basin widened by the buffer",
                    frame=i, angle=vals[i], prev_angle=vals[i - 1], prev_state=prev, got=int(out[i]),
                    widened=((bounds[prev] - buf) % 360.0, (bounds[prev + 1] + buf) % 360.0), bounds=bounds,
                    buffer=case["buffer"])
    return history_info(case, vals)[0]


def run_exit(case):
    """Local step oracle: outside the widened basin -> the state becomes the basin containing the new angle."""
    out, vals = lib_states(case)
    bounds, buf = case["bounds"], float(case["buffer"])
    n = len(bounds) - 1
    require(len(out) == len(vals), "one state per frame expected", got=len(out), want=len(vals))
    for i in range(1, len(vals)):
        prev = int(out[i - 1])
        require(0 <= prev < n, "state is not a basin index", frame=i - 1, state=prev)
        if not in_widened(vals[i], prev, bounds, buf):
            want = basin_of(vals[i], bounds)
            require(int(out[i]) == want,
                    "angle left the widened basin but the state is not the basin containing the new angle",
                    frame=i, angle=vals[i], prev_angle=vals[i - 1], prev_state=prev, got=int(out[i]), want=want,
                    bounds=bounds, buffer=case["buffer"])
    return history_info(case, vals)[0]


def run_reference(case):
    out, vals = lib_states(case)
    bounds, buf = case["bounds"], float(case["buffer"])
    ref = ref_machine(vals, bounds, buf)
    got = [int(s) for s in out]
    if got != ref:
        i = next(j for j in range(min(len(got), len(ref))) if got[j] != ref[j]) if len(got) == len(ref) else -1
        require(False, "state sequence differs from the reference hysteresis machine", first_diff=i,
                angle=vals[i] if i >= 0 else None, prev_state=ref[i - 1] if i > 0 else None,
                got=got[i] if i >= 0 else len(got), want=ref[i] if i >= 0 else len(ref), bounds=bounds,
                buffer=case["buffer"], angles=vals[:i + 1] if i >= 0 else None)
    return history_info(case, vals, ref)[0]


def run_zero_buffer(case):
    out, vals = lib_states(case)
    bounds = case["bounds"]
    n = len(bounds) - 1
    if float(case["buffer"]) != 0.0:
        raise Skip("buffer is not zero")
    want = (np.searchsorted(np.asarray(bounds, dtype=float), np.asarray(vals), side="right") - 1).tolist()
    got = [int(s) for s in out]
    require(valid_states(got, n), "state is not a valid basin index", got=got, n_basins=n)
    require(got == want, "zero buffer is not plain binning", got=got, want=want, angles=vals, bounds=bounds)
    info, ref = history_info(case, vals)
    return Info("seam_crossed" in info.classes and len(set(want)) >= 2, info.classes)


def run_valid(case):
    out, vals = lib_states(case)
    n = len(case["bounds"]) - 1
    require(isinstance(out, np.ndarray) and out.ndim == 1 and out.shape[0] == len(vals),
            "result is not a 1-D array with one state per frame", type=str(type(out)), shape=getattr(out, "shape", None))
    require(np.issubdtype(out.dtype, np.integer), "result dtype is not integer", dtype=str(out.dtype))
    require(valid_states(out, n), "state is not a valid basin index", got=[int(s) for s in out], n_basins=n)
    return history_info(case, vals)[0]


def run_causal(case):
    """Metamorphic consequences of being a state machine: a prefix of the input gives the prefix of the output;
    restarting at a frame whose angle lies in the basin currently assigned gives the same tail."""
    out, vals = lib_states(case)
    bounds = case["bounds"]
    got = [int(s) for s in out]
    L = len(vals)
    k = case.get("cut", L // 2) % L
    restarted = False
    if k >= 1:
        c2 = dict(case)
        c2["angles"] = case["angles"][:k]
        p = [int(s) for s in lib_states(c2)[0]]
        require(p == got[:k], "states of a prefix differ from the prefix of the states", cut=k, prefix=p, full=got[:k])
    for j in range(k, L):
        if 0 <= got[j] < len(bounds) - 1 and basin_of(vals[j], bounds) == got[j]:
            c3 = dict(case)
            c3["angles"] = case["angles"][j:]
            t = [int(s) for s in lib_states(c3)[0]]
            require(t == got[j:], "restarting at a frame that sits in its own basin changes the following states",
                    restart=j, tail=t, full=got[j:], angles=vals[j:])
            restarted = j > 0
            break
    info = history_info(case, vals)[0]
    return Info(info.nontrivial and restarted, list(info.classes) + ["restarted=%s" % restarted])


@st.composite
def causal_case(draw, max_len=60):
    c = draw(history_case(max_len=max_len))
    c["cut"] = draw(st.integers(0, max(0, len(c["angles"]) - 1)))
    return c


# exhaustive sub-domain ------------------------------------------------------

EXH_BUFFERS = [0, 15, 85, 105]


def grid_for(bounds, buf, size=24):
    gates = gate_values(bounds, float(buf))
    pts = []

    def add(v):
        v = v % 360.0
        if min_gate_dist(v, gates) < 0.05:
            return
        if all(circ_dist(v, p) > 1e-9 for p in pts):
            pts.append(v)

    for g in gates:
        add(g - 0.5)
        add(g + 0.5)
    for b in bounds[:-1]:
        add(float(b))
        add(b - 0.2)
        add(b + 0.2)
    add(0.1)
    add(359.9)
    while len(pts) < size:       # fill the largest gaps with their midpoints
        s = sorted(pts)
        gaps = [((s[(i + 1) % len(s)] - s[i]) % 360.0, s[i]) for i in range(len(s))]
        w, start = max(gaps)
        add(start + w / 2.0 + 0.013)
    return sorted(pts[:size]) if len(pts) > size else sorted(pts)


def exhaustive_grid(tier, shard, nshards):
    if tier != "thorough":
        return None

    def gen():
        idx = 0
        for bounds in LIB_SETS:
            n = len(bounds) - 1
            for buf in EXH_BUFFERS:
                if not buf < 360.0 / n:
                    continue
                grid = grid_for(bounds, buf)
                for L in range(1, 5):
                    for seq in itertools.product(grid, repeat=L):
                        idx += 1
                        if idx % nshards != shard:
                            continue
                        yield {"bounds": bounds, "buffer": buf, "angles": list(seq), "container": "list",
                               "bounds_as": "list", "buffer_as": "py"}
    return gen()


# --------------------------------------------------------------------------
# transition bookkeeping

def ref_transitions(row):
    return [i for i in range(len(row) - 1) if row[i] != row[i + 1]]


@st.composite
def one_row(draw, L, n_states):
    kind = draw(st.sampled_from(["const", "const", "random", "alternate", "first_only", "last_only", "runs"]))
    v = draw(st.integers(0, n_states - 1))
    w = (v + draw(st.integers(1, n_states - 1))) % n_states
    if kind == "const" or L == 1:
        return [v] * L
    if kind == "random":
        return draw(st.lists(st.integers(0, n_states - 1), min_size=L, max_size=L))
    if kind == "alternate":
        return [v if i % 2 == 0 else w for i in range(L)]
    if kind == "first_only":
        return [v] + [w] * (L - 1)
    if kind == "last_only":
        return [v] * (L - 1) + [w]
    row = []
    while len(row) < L:
        row += [draw(st.integers(0, n_states - 1))] * draw(st.integers(1, 5))
    return row[:L]


@st.composite
def table_case(draw, form, max_rows=6, max_len=14):
    n_states = draw(st.integers(2, 4))
    nrows = 1 if form == "1d" else draw(st.integers(1, max_rows))
    min_len = 1 if form == "ragged" else (0 if form == "1d" else 1)      # one-frame trajectories have no transitions
    L = draw(st.one_of(st.integers(min_len, 4), st.integers(min_len, max_len)))
    rows = []
    for _ in range(nrows):
        Lr = L
        if form == "ragged" and draw(st.booleans()):
            Lr = draw(st.integers(min_len, max_len))
        rows.append(draw(one_row(Lr, n_states)))
    if form == "ragged" and all(len(r) < 2 for r in rows):
        # a ragged table in which NO trajectory has two frames has an entirely empty difference table, which a
        # RaggedArray cannot represent (C05: may raise); at least one trajectory has a transition slot
        rows[draw(st.integers(0, nrows - 1))] = draw(one_row(draw(st.integers(2, max_len)), n_states))
    dtype = draw(st.sampled_from(["int16", "int32", "int64", "int8", "uint16"]))
    # one table in four relabels the small state ids with widely spaced ones (state ids need not be small: a difference
    # that is a multiple of 2^8 / 2^16 / 2^32 must still count as a transition)
    if draw(st.integers(0, 3)) == 0:
        top = int(np.iinfo(dtype).max)
        pool = [v for v in [0, 256, 512, 65536, 131072, 196608 + 3, 2 ** 32, 2 ** 33, 2 ** 40 + 1, top, top - 256] if 0 <= v <= top]
        labels = draw(st.lists(st.sampled_from(pool), min_size=min(n_states, len(set(pool))), max_size=min(n_states, len(set(pool))), unique=True))
        while len(labels) < n_states:
            labels.append(len(labels) + 1 if (len(labels) + 1) not in labels else len(labels) + 7)
        rows = [[labels[v] for v in r] for r in rows]
    return {"rows": rows, "form": form, "dtype": dtype,
            "layout": draw(st.sampled_from(["C", "view"]))}


def build_table(case):
    rows, dt, form = case["rows"], case["dtype"], case["form"]
    if form == "1d":
        if case["layout"] == "view":      # transition_stats passes rotamer_trajs[i][:, j]
            base = np.full((len(rows[0]), 3), 7, dtype=dt)
            base[:, 1] = rows[0]
            return base[:, 1]
        return np.array(rows[0], dtype=dt)
    if form == "2d":
        a = np.array(rows, dtype=dt).reshape(len(rows), len(rows[0]))
        return np.asfortranarray(a) if case["layout"] == "view" else a
    if form == "ragged":
        return ra.RaggedArray([np.array(r, dtype=dt) for r in rows])
    raise Skip("unknown form")


def as_int_list(x):
    vals = [v for v in x]
    out = [int(v) for v in vals]
    require(all(o == v for o, v in zip(out, vals)), "transition frames are not integers", got=repr(vals))
    return out


def table_info(case):
    rows = case["rows"]
    refs = [ref_transitions(r) for r in rows]
    cls = ["form=" + case["form"], "dtype=" + case["dtype"], "layout=" + case["layout"]]
    none = [i for i, r in enumerate(refs) if not r]
    if case["form"] != "1d":
        cls.append("rows=%s" % ("1" if len(rows) == 1 else "2+"))
        if len(none) == len(rows):
            cls.append("const_rows=all")
        elif not none:
            cls.append("const_rows=none")
        else:
            if 0 in none:
                cls.append("const_rows=first")
            if len(rows) - 1 in none:
                cls.append("const_rows=last")
            if any(0 < i < len(rows) - 1 for i in none):
                cls.append("const_rows=middle")
        if case["form"] == "ragged":
            cls.append("ragged=%s" % ("equal_lengths" if len(set(len(r) for r in rows)) == 1 else "unequal"))
        nt = bool(none) and any(len(r) >= 2 for r in refs)
    else:
        r, L = refs[0], len(rows[0])
        cls.append("n_transitions=%s" % ("0" if not r else "1" if len(r) == 1 else "2+"))
        cls.append("len=%s" % ("0" if L == 0 else "1" if L == 1 else "2+"))
        nt = len(r) >= 2 and (r[0] == 0 or r[-1] == L - 2)
    for r, row in zip(refs, rows):
        if r and r[0] == 0:
            cls.append("transition_at_first_frame")
        if r and r[-1] == len(row) - 2:
            cls.append("transition_at_last_pair")
    return Info(nt, sorted(set(cls))), refs


def run_transitions_1d(case):
    x = build_table(case)
    info, refs = table_info(case)
    tt = disorder.transitions(x)
    require(isinstance(tt, np.ndarray) and tt.ndim == 1, "1-D input must give a 1-D array", type=str(type(tt)))
    got = as_int_list(tt)
    require(got == refs[0], "reported transitions differ from {n : s[n] != s[n+1]}", states=case["rows"][0],
            got=got, want=refs[0])
    return info


def run_transitions_rows(case):
    x = build_table(case)
    info, refs = table_info(case)
    before = np.array(x.flatten() if isinstance(x, ra.RaggedArray) else x, copy=True)
    tt = disorder.transitions(x)
    # the bookkeeping reads the state sequences; they are the caller's (a second look at them gives the same answer)
    after = np.asarray(x.flatten() if isinstance(x, ra.RaggedArray) else x)
    require(after.shape == before.shape and np.array_equal(after, before), "transitions() changed the caller's state table",
            before=before.tolist(), after=after.tolist())
    tt2 = disorder.transitions(x)
    require(len(tt2) == len(tt) and all(as_int_list(p) == as_int_list(q) for p, q in zip(tt, tt2)),
            "a second transitions() call on the same table gives another answer")
    require(len(tt) == len(refs), "result does not have one row per trajectory", rows=len(refs), got=len(tt),
            states=case["rows"])
    for i, want in enumerate(refs):
        got = as_int_list(tt[i])
        require(got == want, "row %d: reported transitions differ from {n : s[n] != s[n+1]}" % i,
                states=case["rows"][i], got=got, want=want)
    return info


@st.composite
def stats_case(draw, max_trajs=3, max_feat=3, max_len=12):
    n_states = draw(st.integers(2, 3))
    n_feat = draw(st.integers(1, max_feat))
    trajs = []
    for _ in range(draw(st.integers(1, max_trajs))):
        L = draw(st.integers(1, max_len))
        trajs.append([draw(one_row(L, n_states)) for _ in range(n_feat)])     # [feature][frame]
    return {"trajs": trajs}


def run_transition_stats(case):
    trajs = [np.array(t, dtype="int16").T.reshape(len(t[0]), len(t)) for t in case["trajs"]]   # frames x features
    with np.errstate(all="ignore"):
        tt, mean_ord, mean_dis = disorder.transition_stats(trajs)
    require(len(tt) == len(trajs), "transition_times: one entry per trajectory expected", got=len(tt))
    n_none = n_multi = 0
    for i, t in enumerate(case["trajs"]):
        require(len(tt[i]) == len(t), "transition_times[%d]: one entry per feature expected" % i, got=len(tt[i]))
        for j, row in enumerate(t):
            want = ref_transitions(row)
            got = as_int_list(tt[i][j])
            require(got == want, "transition_stats: transitions of trajectory %d feature %d are wrong" % (i, j),
                    states=row, got=got, want=want)
            n_none += not want
            n_multi += len(want) >= 2
    return Info(n_none > 0 and n_multi > 0 and len(trajs) >= 2,
                ["trajs=%d" % len(trajs), "features=%d" % len(case["trajs"][0])])


def run_pipeline(case):
    """_rotamers -> transitions (what the CARDS pipeline does per dihedral)."""
    out, vals = lib_states(case)
    ref = ref_machine(vals, case["bounds"], float(case["buffer"]))
    tt = disorder.transitions(out)
    want = ref_transitions(ref)
    got = as_int_list(tt)
    require(got == want, "transitions of the assigned rotamer sequence differ from those of the reference machine",
            got=got, want=want, bounds=case["bounds"], buffer=case["buffer"], angles=vals)
    info = history_info(case, vals, ref)[0]
    return Info(info.nontrivial and len(want) >= 2, list(info.classes) + ["n_transitions=%s" % min(len(want), 3)])


# --------------------------------------------------------------------------
# matchers for known findings (used only if known_findings.json lists them)

def m_crossed_gates(case, exc):
    """Buffer so wide that the widened first/last (wrap-around) basin covers the whole circle (2*buffer >= 360 - width;
    reachable for the library's two-basin sets): its two gates cross, is_buffered_transition takes the non-wrap branch
    and the library re-bins although the reference machine can never leave. Narrow: the FIRST disagreement with the
    reference must be exactly that event (reference stays in a crossed wrap-around state, library moves to the basin
    containing the angle); a wrong re-binning target, a first-frame error, or any error in the proper regime or in an
    inner basin is not matched."""
    if not isinstance(exc, Violation) or "angles" not in case:
        return False
    bounds, buf = case["bounds"], float(case["buffer"])
    crossed = [k for k in crossed_states(bounds, buf) if k in (0, len(bounds) - 2)]
    if not crossed:
        return False
    out, vals = lib_states(case)
    got = [int(s) for s in out]
    ref = ref_machine(vals, bounds, buf)
    if len(got) != len(ref) or got == ref:
        return False
    i = next(j for j in range(len(ref)) if got[j] != ref[j])
    if i == 0:
        return False
    s = ref[i - 1]
    return s in crossed and ref[i] == s and got[i] == basin_of(vals[i], bounds)


def m_no_transition_anywhere(case, exc):
    """2-D / ragged state table without a single transition: RaggedArray cannot be built from zero entries."""
    if "rows" not in case or case.get("form") not in ("2d", "ragged"):
        return False
    if any(ref_transitions(r) for r in case["rows"]):
        return False
    return isinstance(exc, (IndexError, AttributeError, TypeError)) and not isinstance(exc, Violation)


# --------------------------------------------------------------------------
# the trajectory-level entry points (phi/psi/chi/all_rotamers) on the repository's own test trajectory: every
# dihedral column must be the hysteresis machine of its angles for the REQUESTED buffer and that family's basins

_TRAJ = {}


def _test_traj():
    if "t" not in _TRAJ:
        import mdtraj as md
        from vf import build
        d = os.path.join(build.REPO, "enspara", "test", "cards_data")
        _TRAJ["t"] = md.load(os.path.join(d, "trj0.xtc"), top=os.path.join(d, "PROT_only.pdb"))
    return _TRAJ["t"]


@st.composite
def traj_case(draw):
    which = draw(st.sampled_from(["phi", "psi", "chi", "chi", "all", "all"]))
    # (fractional widths too: the buffer is a number of degrees, not a count)
    return {"which": which, "buffer": draw(st.sampled_from([0, 0.5, 1, 5, 7.5, 7.5, 12.3, 15, 15, 30, 33.3, 44.9, 45, 59, 90, 95, 99, 100])),
            "start": draw(st.integers(0, 4000)), "stride": draw(st.sampled_from([1, 1, 3, 17, 50])),
            "n": draw(st.one_of(st.integers(2, 40), st.integers(100, 400))), "kw": draw(st.booleans())}


def run_traj(case):
    t = _test_traj()[case["start"]::case["stride"]][:case["n"]]
    buf = case["buffer"]
    if buf >= 120 and case["which"] in ("chi", "all"):
        raise Skip("buffer too wide for three basins")
    fn = getattr(rotamer, case["which"] + "_rotamers")
    got, atom_inds, n_states = fn(t, buffer_width=buf) if case["kw"] else fn(t, buf)
    got = np.asarray(got)
    cols = []           # (family, angles in degrees as the family's machine sees them, boundaries)
    fams = ["phi", "psi", "chi"] if case["which"] == "all" else [case["which"]]
    for fam in fams:
        if fam == "chi":
            parts = [rotamer.dihedral_angles(t, "chi%d" % i)[0] for i in range(1, 5)]
            ang = np.concatenate(parts, axis=1)
            bounds = [0, 120, 240, 360]
        else:
            ang = rotamer.dihedral_angles(t, fam)[0]
            bounds = [0, 180, 360]
            if fam == "psi":
                ang = ang - 100
                ang[ang < 0] += 360
                bounds = [0, 160, 360]
        for j in range(ang.shape[1]):
            cols.append((fam, ang[:, j], bounds))
    require(got.shape == (t.n_frames, len(cols)), "rotamer table has the wrong shape", got=got.shape,
            want=(t.n_frames, len(cols)))
    require(np.asarray(n_states).shape == (len(cols),) and
            [int(x) for x in n_states] == [len(b) - 1 for _, _, b in cols], "n_states does not give the basins per dihedral")
    changed = 0
    for j, (fam, ang, bounds) in enumerate(cols):
        vals = [float(a) for a in ang]
        if min_gate_dist_all(vals, gate_values(bounds, float(buf))) < 1e-4:
            # an angle sits on a gate (the library clamps angles above 359.5 to exactly 359.5, which IS the gate for a
            # buffer of 0.5): the statement does not say which side a gate value belongs to
            continue
        ref = ref_machine(vals, bounds, float(buf))
        plain = ref_machine(vals, bounds, 0.0)
        changed += ref != plain
        if [int(x) for x in got[:, j]] != ref:
            i = next(k for k in range(len(ref)) if int(got[k, j]) != ref[k])
            raise Violation("%s_rotamers(buffer_width=%s): column %d (%s) differs from the hysteresis machine of its angles "
                            "| first_diff=%d angle=%r prev_state=%s got=%d want=%d" % (
                                case["which"], buf, j, fam, i, vals[i], ref[i - 1] if i else None, int(got[i, j]), ref[i]))
    return Info(changed > 0 and buf != 15, ["traj_which=" + case["which"], "traj_buffer=%s" % buf,
                                              "buffer_matters=%s" % (changed > 0)])


# --------------------------------------------------------------------------
# long series (tens of thousands of frames, seeded): the machine has no memory but its current state

@st.composite
def long_series_case(draw):
    bounds = draw(st.sampled_from(LIB_SETS))
    n = len(bounds) - 1
    return {"bounds": bounds, "buffer": draw(st.sampled_from([0, 5, 15, 15, 30, 45.5, 59])) if n == 3 else
            draw(st.sampled_from([0, 15, 15, 45, 90, 95, 99, 120, 170])),
            "n": draw(st.sampled_from([16383, 16384, 16385, 20000, 32768, 40000, 70000])),
            "seed": draw(st.integers(0, 2 ** 31 - 1)), "stick": draw(st.sampled_from([0.0, 0.9, 0.99])),
            "f32": draw(st.booleans())}


def run_long_series(case):
    rng = np.random.RandomState(case["seed"])            # seed drawn by Hypothesis
    n, bounds, buf = case["n"], case["bounds"], float(case["buffer"])
    # a random walk on the circle that lingers near the basin boundaries (where the buffer matters)
    steps = rng.normal(0, 25, size=n) * (rng.rand(n) >= case["stick"])
    centre = rng.choice(bounds[:-1], size=n)
    ang = (np.cumsum(steps) * 0.2 + centre + rng.uniform(-40, 40, size=n)) % 360.0
    ang = np.minimum(ang, 359.5)
    if case["f32"]:
        ang = ang.astype(np.float32)
    vals = [float(a) for a in ang]
    gates = gate_values(bounds, buf)
    if min_gate_dist_all(vals, gates) < 1e-4:
        raise Skip("an angle sits on a gate")
    got = rotamer._rotamers(ang, bounds, buffer_width=case["buffer"])
    ref = ref_machine(vals, bounds, buf)
    got_l = [int(x) for x in got]
    if got_l != ref:
        i = next(k for k in range(n) if got_l[k] != ref[k])
        raise Violation("state sequence of a long series differs from the reference machine | first_diff=%d of %d, angle=%r, "
                        "prev_state=%s, got=%d, want=%d, bounds=%s, buffer=%s" % (i, n, vals[i], ref[i - 1] if i else None,
                                                                                    got_l[i], ref[i], bounds, buf))
    plain = ref_machine(vals, bounds, 0.0)
    return Info(ref != plain and n > 16384, ["long_n=%d" % n, "long_bounds=%s" % (bounds,), "long_buffer=%s" % case["buffer"]],
                key=[n, bounds, case["buffer"], case["seed"], case["stick"], case["f32"]])


# --------------------------------------------------------------------------
# the featurizer built on all_rotamers: one state machine PER TRAJECTORY (each trajectory's first frame is binned
# afresh; nothing is carried over from the end of the previous trajectory), lists and generators alike

def _all_columns(t):
    cols = []
    for fam in ("phi", "psi", "chi"):
        if fam == "chi":
            ang = np.concatenate([rotamer.dihedral_angles(t, "chi%d" % i)[0] for i in range(1, 5)], axis=1)
            bounds = [0, 120, 240, 360]
        else:
            ang = rotamer.dihedral_angles(t, fam)[0]
            bounds = [0, 180, 360]
            if fam == "psi":
                ang = ang - 100
                ang[ang < 0] += 360
                bounds = [0, 160, 360]
        for j in range(ang.shape[1]):
            cols.append((fam, ang[:, j], bounds))
    return cols


@st.composite
def featurizer_case(draw):
    k = draw(st.integers(1, 4))
    return {"buffer": draw(st.sampled_from([0, 5, 7.5, 15, 15, 15, 30, 45, 59, 90, 100])),
            "pieces": [{"start": draw(st.integers(0, 4500)), "stride": draw(st.sampled_from([1, 1, 7, 50])),
                        "n": draw(st.integers(1, 25))} for _ in range(k)],
            "as": draw(st.sampled_from(["list", "generator", "tuple"])),
            "default_buffer": draw(st.sampled_from([False, False, False, True]))}


def run_featurizer(case):
    from enspara.cards import featurizers
    full = _test_traj()
    trjs = [full[p["start"]::p["stride"]][:p["n"]] for p in case["pieces"]]
    buf = 15 if case["default_buffer"] else case["buffer"]
    f = featurizers.RotamerFeaturizer() if case["default_buffer"] else featurizers.RotamerFeaturizer(buffer_width=buf)
    arg = {"list": lambda: list(trjs), "tuple": lambda: tuple(trjs), "generator": lambda: (t for t in trjs)}[case["as"]]()
    f.fit(arg)
    got = f.feature_trajectories_
    require(len(got) == len(trjs), "featurizer: number of feature trajectories != number of trajectories",
            got=len(got), want=len(trjs))
    carried = 0         # a column where a machine run over the JOINED series would differ from the per-trajectory ones
    prev_end = None
    for k, t in enumerate(trjs):
        cols = _all_columns(t)
        g = np.asarray(got[k])
        require(g.shape == (t.n_frames, len(cols)), "featurizer: feature trajectory has the wrong shape",
                trajectory=k, got=g.shape, want=(t.n_frames, len(cols)))
        ends = []
        for j, (fam, ang, bounds) in enumerate(cols):
            vals = [float(a) for a in ang]
            if min_gate_dist_all(vals, gate_values(bounds, float(buf))) < 1e-4:
                ends.append(None)
                continue
            ref = ref_machine(vals, bounds, float(buf))
            ends.append(ref[-1])
            if prev_end is not None and prev_end[j] is not None and prev_end[j] != ref[0] and \
                    in_widened(vals[0], prev_end[j], bounds, float(buf)):
                carried += 1
            if [int(x) for x in g[:, j]] != ref:
                i = next(q for q in range(len(ref)) if int(g[q, j]) != ref[q])
                raise Violation("RotamerFeaturizer(buffer_width=%s).fit: trajectory %d of %d, column %d (%s) differs from "
                                "the hysteresis machine started afresh on that trajectory | frame=%d angle=%r got=%d "
                                "want=%d" % (buf, k, len(trjs), j, fam, i, vals[i], int(g[i, j]), ref[i]))
        prev_end = ends
    require([int(x) for x in f.n_feature_states_] == [len(b) - 1 for _, _, b in _all_columns(trjs[0][:1])],
            "featurizer: n_feature_states_ does not give the basins per dihedral")
    return Info(carried > 0, ["n_trajs=%d" % len(trjs), "as=" + case["as"], "feat_buffer=%s" % buf,
                              "joined_series_would_differ=%s" % (carried > 0)])


def min_gate_dist_all(vals, gates):
    if not gates:
        return 1.0
    v = np.asarray(vals, dtype=float)[:, None]
    g = np.asarray(sorted(gates), dtype=float)[None, :]
    d = np.abs(v - g) % 360.0
    return float(np.minimum(d, 360.0 - d).min())


MATCHERS = {"crossed_gates_wraparound_basin": m_crossed_gates, "no_transition_anywhere": m_no_transition_anywhere}


CLAUSES = [
    Clause("first_frame", history_case(short=True), run_first_frame, quick=500, thorough=8000),
    Clause("stay_inside_widened_basin", history_case(), run_stay, quick=500, thorough=8000),
    Clause("exit_rebins_to_containing_basin", history_case(), run_exit, quick=500, thorough=8000),
    Clause("reference_machine", history_case(), run_reference, quick=800, thorough=20000, exhaustive=exhaustive_grid),
    Clause("reference_machine_long", history_case(max_len=500), run_reference, quick=0, thorough=3000),
    Clause("zero_buffer_is_binning", history_case(zero=True), run_zero_buffer, quick=300, thorough=5000),
    Clause("valid_index_integer_dtype", history_case(), run_valid, quick=300, thorough=5000),
    Clause("causal_prefix_restart", causal_case(), run_causal, quick=300, thorough=5000),
    Clause("general_boundary_sets", history_case(sets="random"), run_reference, quick=400, thorough=8000),
    Clause("transitions_1d", table_case("1d", max_len=20), run_transitions_1d, quick=500, thorough=10000),
    Clause("transitions_2d", table_case("2d"), run_transitions_rows, quick=500, thorough=10000),
    Clause("transitions_ragged", table_case("ragged"), run_transitions_rows, quick=400, thorough=8000),
    Clause("transition_stats_times", stats_case(), run_transition_stats, quick=300, thorough=5000),
    Clause("reference_machine_very_long", long_series_case(), run_long_series, quick=24, thorough=400,
           doc="16383..70000 frames (seeded walk lingering at the basin boundaries) vs the reference machine"),
    Clause("trajectory_entry_points", traj_case(), run_traj, quick=200, thorough=3000,
           doc="phi/psi/chi/all_rotamers on slices of the repository's test trajectory vs the reference machine per dihedral"),
    Clause("featurizer_per_trajectory", featurizer_case(), run_featurizer, quick=120, thorough=2000,
           doc="RotamerFeaturizer.fit on 1..4 pieces of the test trajectory (list / tuple / generator): every feature "
               "trajectory is the reference machine started afresh on that trajectory"),
    Clause("rotamers_then_transitions", history_case(), run_pipeline, quick=300, thorough=5000),
]
