"""C12 - the reversible estimator is a true maximum-likelihood fixed point; compiled and pure-Python agree.

Oracles are independent of the library: the log-likelihood, the Prinz stationarity equations, detailed balance,
and reversible competitors (random symmetric re-weightings, the transpose estimate, an independently coded
self-consistent iteration) are all evaluated in plain numpy (vf/ref_msm.py).
"""
import warnings

import numpy as np
import scipy.sparse
from hypothesis import strategies as st

from vf.harness import Clause, Info, require, Skip
from vf import ref_msm as R

from enspara.msm import builders
from enspara.msm.libmsm import _mle_prinz_dense

PROPERTY = "C12"
LEVEL = "exploration"
RULE = ("Hypothesis draws a strongly connected count matrix (random pattern united with a Hamiltonian cycle over a "
        "drawn permutation; n in 2..6 quick / 2..9 thorough; flavours small-int, counts<=3000, real, symmetric, "
        "upper-triangle x{10,100,1000} (strongly asymmetric), diagonal-heavy, near-triangular; with/without "
        "self-counts; int64/int32/float64), a container (ndarray or one of the eight sparse *_matrix classes) for the "
        "public builder, and for the optimality clause a symmetric perturbation field G, a step eps in "
        "{1e-3,1e-2,0.3,2} and a base (the estimate itself, C+C^T, the support indicator, pi-outer-product). Oracles: "
        "plain-numpy log-likelihood, Prinz stationarity residual, detailed balance, row sums; compiled vs Python "
        "differential. Non-trivial = n>=3, C asymmetric and at least one off-diagonal pair with c_ij = c_ji = 0; "
        "distinct = distinct canonical JSON.")
ASSUMPTIONS = [
    "the private implementations (_prinz_mle_py, libmsm._mle_prinz_dense) are called with a dense float64 ndarray in one "
    "of four memory layouts (C, Fortran, transposed view, strided view; the compiled one has a typed float64 buffer "
    "signature); integer dtypes and sparse containers go through "
    "the public builders.mle only",
    "optimality / self-consistency / agreement are asserted only when the run did not emit a ConvergenceWarning "
    "(the statement allows 'a model or a convergence warning'); a warned model must still be finite, row-stochastic and reversible",
    "budget: the pure-Python implementation is called directly with max_iter=3000 (documented parameter; 1e5 Python "
    "sweeps take 10-30 s); matrices on which it does not stop within 3000 sweeps are skipped for builders.mle, whose cap "
    "cannot be changed by the caller (about 1 % of the cases, counted as skipped)",
    "max_iter >= 1 (max_iter=0 leaves the loop variable undefined; not a documented use)",
]
SHARDS = {"quick": 4, "thorough": 16}

TOL_R = 1e-5          # Prinz residual / total counts          (observed <= 1e-7 on all but ~1 in 10^5 matrices)
TOL_D = 1e-5          # compiled vs Python, T and pi           (observed <= 7e-9 ...)
# The estimators stop when their log-likelihood changes by less than tol (default 1e-10) between sweeps. Near the optimum
# the likelihood is flat to second order, so that rule bounds the distance to the fixed point only by ~sqrt(tol) = 1e-5
# relative, and the compiled version (log10) can stop a few sweeps before the Python one (natural log). A default run may
# therefore sit up to TOL_STOP from the fixed point ("up to the convergence tolerance"); the sharp tolerances TOL_R / TOL_D
# are then asserted on a re-run with the documented parameter tol=1e-14, where a wrong fixed point or a real disagreement
# between the implementations remains visible.
TOL_STOP = 1e-3
TOL_ROW = 1e-12
TOL_DB = 1e-10


def tol_L(L):
    return 1e-8 * (1.0 + abs(L))


# --------------------------------------------------------------------------------------------------
# strategies

@st.composite
def mle_case(draw, n_max=6, with_container=False, with_competitor=False, with_max_iter=False, n_min=2):
    mat = draw(R.count_matrices(n_min=n_min, n_max=n_max, connected=True))
    case = {"mat": mat}
    n = mat["n"]
    if with_container:
        case["container"] = draw(R.containers(R.MATRIX_CONTAINERS))
        case["eq"] = draw(st.sampled_from([True, True, False]))
        # integer counts may also arrive in a narrow or unsigned element type (applied when every value fits)
        case["cast"] = draw(st.sampled_from([None, None, "uint8", "uint16", "uint32", "uint64", "int8", "int16", "float32"]))
        # counts may also arrive as numpy.matrix (what sparse.todense() and spmatrix + ndarray return)
        case["as_npmatrix"] = draw(st.integers(0, 5)) == 0
    if with_competitor:
        case["G"] = draw(st.lists(st.floats(-1.0, 1.0, allow_nan=False, width=32), min_size=n * n, max_size=n * n))
        case["eps"] = draw(st.sampled_from([1e-3, 1e-2, 0.3, 2.0]))
        case["base"] = draw(st.sampled_from(["mle", "mle", "sym", "support", "pi_outer"]))
    if with_max_iter:
        case["max_iter"] = draw(st.sampled_from([1, 1, 2, 3, 5, 20]))
    return case


# --------------------------------------------------------------------------------------------------

PY_SWEEPS = 3000      # explicit max_iter for direct calls of the pure-Python implementation (documented parameter)


def run_impl(which, B, **kw):
    """-> (T, pi, warned).  Any exception propagates (= violation of 'terminates with a model or a warning')."""
    B = np.ascontiguousarray(B, dtype=np.float64)
    fn = builders._prinz_mle_py if which == "py" else builders._prinz_mle
    # the same matrix in another memory layout (chosen from its own content, so a case always uses the same one):
    # C-ordered, Fortran-ordered, a transposed view of the transposed data, or a strided view of a larger buffer
    lay = int(abs(B).sum() * 7) % 4
    if lay == 1:
        A = np.asfortranarray(B.copy())
    elif lay == 2:
        A = np.ascontiguousarray(B.T).T
    elif lay == 3:
        big = np.full((2 * B.shape[0], 2 * B.shape[1] + 1), 5.0)
        A = big[::2, 1::2]
        A[...] = B
    else:
        A = B.copy()
    require(np.array_equal(A, B), "harness: layout changed values")
    if int(abs(B).sum() * 13) % 3 == 0:
        # counts the caller cannot write to (np.load(..., mmap_mode='r'), a broadcast view, a frozen array): the
        # estimators only read them
        A.flags.writeable = False
    with warnings.catch_warnings(record=True) as w:
        warnings.simplefilter("always")
        out = fn(A, **kw)
    require(np.array_equal(A, B), "%s implementation modified the counts it was given" % which)
    require(isinstance(out, tuple) and len(out) == 2, "%s implementation must return (T, pi)" % which, got=type(out))
    # the returned model belongs to the caller: estimating another matrix of the same size may not change it
    snap = (np.array(out[0], copy=True), np.array(out[1], copy=True))
    with warnings.catch_warnings():
        warnings.simplefilter("ignore")
        try:
            fn(np.ascontiguousarray(B.T) + 1.0, max_iter=3)
        except Exception:
            pass
    require(np.array_equal(np.asarray(out[0]), snap[0], equal_nan=True) and
            np.array_equal(np.asarray(out[1]), snap[1], equal_nan=True),
            "%s implementation: the model returned by an earlier call changed when another matrix was estimated" % which)
    T, pi = np.asarray(out[0], dtype=float), np.asarray(out[1], dtype=float).ravel()
    warned = any(issubclass(x.category, Warning) and "converge" in str(x.message).lower() for x in w)
    cats = [x.category.__name__ for x in w if "converge" in str(x.message).lower()]
    require(all(c == "ConvergenceWarning" for c in cats), "non-convergence reported with the wrong category", got=cats)
    return T, pi, warned


def both_impls(B):
    """Run both implementations (Python one with max_iter=PY_SWEEPS, compiled one with its defaults).
    -> dict name -> (T, pi, warned), list of class labels."""
    res = {"pyx": run_impl("pyx", B)}
    res["py"] = run_impl("py", B, max_iter=PY_SWEEPS)
    return res, ["py_stopped_within_%d_sweeps=%s" % (PY_SWEEPS, not res["py"][2])]


def check_model(B, T, pi, who, warned=False):
    """What every returned model must satisfy, converged or not (the support is only asserted for runs that did
    not warn: far from convergence individual x_ij can underflow to zero)."""
    n = B.shape[0]
    require(T.shape == (n, n) and pi.shape == (n,), "%s: wrong output shapes" % who, T=T.shape, pi=pi.shape)
    require(np.all(np.isfinite(T)) and np.all(np.isfinite(pi)), "%s: model not finite" % who, T=T.tolist(),
            pi=pi.tolist())
    require(np.all(T >= 0) and np.all(pi >= 0), "%s: negative probability" % who, T=T.tolist(), pi=pi.tolist())
    require(np.max(np.abs(T.sum(axis=1) - 1)) <= TOL_ROW, "%s: rows of T do not sum to one" % who,
            rowsums=T.sum(axis=1).tolist())
    require(abs(pi.sum() - 1) <= 1e-9, "%s: populations do not sum to one" % who, total=float(pi.sum()))
    F = pi[:, None] * T
    require(R.detailed_balance_residual(T, pi) <= TOL_DB * float(F.max()) + 1e-15, "%s: detailed balance violated" % who,
            residual=R.detailed_balance_residual(T, pi), T=T.tolist(), pi=pi.tolist())
    S = (B + B.T) > 0
    require(warned or np.array_equal(T > 0, S), "%s: support of T differs from the support of C + C^T" % who,
            T=T.tolist(), C=B.tolist())


def info(case, extra=()):
    mat = case["mat"]
    A = R.case_matrix(mat).astype(float)
    n = mat["n"]
    sym = bool(np.array_equal(A, A.T))
    S = A + A.T
    zero_pair = bool(np.any((S == 0) & ~np.eye(n, dtype=bool)))
    nt = n >= 3 and not sym and zero_pair
    ratio = 0.0
    with np.errstate(divide="ignore", invalid="ignore"):
        m = (A > 0) & (A.T > 0) & ~np.eye(n, dtype=bool)
        if m.any():
            ratio = float(np.max(A[m] / A.T[m]))
    cl = ["flavour=%s" % mat["flavour"], "dtype=%s" % mat["dtype"], "n=%s" % (n if n < 8 else "8+"),
          "symmetric=%s" % sym, "zero_pair=%s" % zero_pair, "self_counts=%s" % bool(np.any(np.diag(A) > 0)),
          "asymmetry=%s" % ("none" if sym else "mild" if ratio < 10 else "strong" if ratio < 500 else "extreme")]
    if "container" in case:
        cl += ["container=%s" % case["container"]["name"],
               "layout=%s:%s" % (case["container"]["name"].split("_")[0], case["container"]["variant"])]
    return Info(nt, cl + list(extra))


# --------------------------------------------------------------------------------------------------
# clauses

def run_terminates_builder(case):
    """Sentence 1 via the public entry point: builders.mle returns a model (or warns) for dense and sparse,
    integer and real input - never an internal AssertionError / TypeError / ValueError."""
    A = R.case_matrix(case["mat"])
    cast = case.get("cast")
    if cast and A.dtype.kind in "iu" and (cast.startswith("float") and A.max() < 2 ** 20 or
                                          not cast.startswith("float") and A.max() <= np.iinfo(cast).max):
        A = A.astype(cast)
    else:
        cast = None
    B = A.astype(float)
    # reference run of the wrapped implementation; it doubles as the budget guard
    try:
        Tpy, _, py_warned = run_impl("py", B, max_iter=PY_SWEEPS)
    except TypeError:
        Tpy, py_warned = None, True       # unrepaired tree: non-convergence raises TypeError
    except Exception:
        Tpy, py_warned = None, False      # let the public call below report the failure
    if py_warned:
        raise Skip("builders.mle would need up to 1e5 pure-Python sweeps")
    x = R.to_container(A, case["container"])
    as_matrix = bool(case.get("as_npmatrix"))
    if as_matrix:
        x = np.matrix(A)
    with warnings.catch_warnings(record=True) as w:
        warnings.simplefilter("always")
        C_out, T_raw, pi_raw = builders.mle(x, calculate_eq_probs=case["eq"])
    T = np.asarray(R.to_dense(T_raw)).astype(float)
    require(as_matrix or type(T_raw) is type(x), "builders.mle: T not returned in the container passed in",
            got=type(T_raw).__name__, want=type(x).__name__)
    require(np.array_equal(np.asarray(R.to_dense(C_out)), A), "builders.mle: returned counts differ from the input")
    warned = any("converge" in str(wi.message).lower() for wi in w)
    if case["eq"]:
        require(pi_raw is not None, "populations requested but None returned")
    if pi_raw is not None:
        check_model(B, T, np.asarray(pi_raw, dtype=float).ravel(), "builders.mle", warned)
    else:
        require(np.all(np.isfinite(T)) and np.all(T >= 0) and np.max(np.abs(T.sum(axis=1) - 1)) <= TOL_ROW,
                "builders.mle: T is not row-stochastic", T=T.tolist())
    # the public builder must give the numbers of the implementation it wraps, whatever the container
    require(Tpy is not None, "_prinz_mle_py failed on the dense counts although builders.mle returned")
    require(np.max(np.abs(T - Tpy)) <= 1e-12, "builders.mle(container) differs from the estimator on the dense counts",
            got=T.tolist(), want=Tpy.tolist())
    return info(case, ["eq=%s" % case["eq"], "warned=%s" % warned, "element_type=%s" % (cast or str(A.dtype)),
                       "np_matrix=%s" % as_matrix])


def run_terminates_impls(case):
    """Sentence 1 for both implementations: each returns a finite, row-stochastic, reversible model (or warns)."""
    B = R.case_matrix(case["mat"]).astype(float)
    res, extra = both_impls(B)
    for who, (T, pi, warned) in res.items():
        check_model(B, T, pi, who, warned)
        extra.append("%s_warned=%s" % (who, warned))
    return info(case, extra)


def competitor(case, B, T, pi):
    """A reversible row-stochastic matrix with the support of C + C^T, built from the drawn field."""
    n = B.shape[0]
    G = np.array(case["G"], dtype=float).reshape(n, n)
    G = (G + G.T) / 2.0
    S = ((B + B.T) > 0).astype(float)
    base = case["base"]
    if base == "mle":
        X = pi[:, None] * T
        X = (X + X.T) / 2.0
    elif base == "sym":
        X = B + B.T
    elif base == "support":
        X = S
    else:
        c = B.sum(axis=1)
        X = S * np.outer(c, c)
    X = X * np.exp(case["eps"] * G) * S
    return R.reversible_from_symmetric(X)[0]


def run_likelihood(case):
    """Sentence 2: log-likelihood on the input counts >= that of any other reversible row-stochastic matrix with the
    same support (drawn competitors, the transpose estimate, an independent self-consistent iteration)."""
    B = R.case_matrix(case["mat"]).astype(float)
    res, extra = both_impls(B)
    Tt = R.ref_transpose(B)[1]
    Tf, _, fconv = R.ref_mle_fixed_point(B, max_iter=5000)
    Lt, Lf = R.loglik(B, Tt), R.loglik(B, Tf)
    for who, (T, pi, warned) in res.items():
        check_model(B, T, pi, who, warned)
        if warned:
            extra.append("%s_warned=True" % who)
            continue
        L = R.loglik(B, T)
        require(np.isfinite(L), "%s: an observed transition has zero probability" % who, T=T.tolist(), C=B.tolist())
        Tc = competitor(case, B, T, pi)
        Lc = R.loglik(B, Tc)
        require(L >= Lc - tol_L(L), "%s: a reversible competitor (%s, eps=%g) is more likely than the estimate" % (
            who, case["base"], case["eps"]), L_mle=L, L_comp=Lc, T=T.tolist(), T_comp=Tc.tolist())
        require(L >= Lt - tol_L(L), "%s: the transpose estimate is more likely than the ML estimate" % who,
                L_mle=L, L_transpose=Lt)
        require(L >= Lf - tol_L(L), "%s: the independent self-consistent iteration found a more likely reversible "
                "model" % who, L_mle=L, L_ref=Lf, T=T.tolist(), T_ref=Tf.tolist())
        if who == "py":
            extra.append("strictly_beats_transpose=%s" % bool(L > Lt + tol_L(L)))
            extra.append("competitor_gap=%s" % ("tiny" if L - Lc < 1e-6 * (1 + abs(L)) else "clear"))
    extra += ["base=%s" % case["base"], "eps=%g" % case["eps"], "ref_iteration_converged=%s" % fconv]
    return info(case, extra)


def run_prinz(case):
    """Sentence 2, second half: the model satisfies the Prinz self-consistency equations
    pi_i T_ij (c_i/pi_i + c_j/pi_j) = c_ij + c_ji (so T_ii = c_ii / c_i), detailed balance and row sums."""
    B = R.case_matrix(case["mat"]).astype(float)
    res, extra = both_impls(B)
    tot = float(B.sum())
    c = B.sum(axis=1)
    for who, (T, pi, warned) in res.items():
        check_model(B, T, pi, who, warned)
        if warned:
            extra.append("%s_warned=True" % who)
            continue
        resid = R.prinz_residual(B, T, pi)
        ddiag = float(np.max(np.abs(np.diag(T) - np.diag(B) / c)))
        if resid > TOL_R * tot or ddiag > TOL_R:
            # stopped by its own rule a little early? allowed within TOL_STOP - and then the sharp tolerance must hold
            # for a run with a tight stopping tolerance
            require(resid <= TOL_STOP * tot and ddiag <= TOL_STOP, "%s: Prinz self-consistency equations violated" % who,
                    residual=resid, total_counts=tot, T=T.tolist(), pi=pi.tolist(), C=B.tolist())
            T, pi, warned2 = run_impl(who, B, tol=1e-14, max_iter=10 ** 5 if who == "py" else 10 ** 6)
            extra.append("%s_needed_tight_tol=True" % who)
            if warned2:
                continue
            resid = R.prinz_residual(B, T, pi)
        require(resid <= TOL_R * tot, "%s: Prinz self-consistency equations violated" % who, residual=resid,
                total_counts=tot, T=T.tolist(), pi=pi.tolist(), C=B.tolist())
        require(np.max(np.abs(np.diag(T) - np.diag(B) / c)) <= TOL_R, "%s: T_ii != c_ii / c_i" % who,
                diag=np.diag(T).tolist(), want=(np.diag(B) / c).tolist())
        require(R.stationarity_residual(T, pi) <= 1e-9, "%s: populations are not stationary" % who)
    return info(case, extra)


def run_agree(case):
    """Sentence 3: the compiled and the pure-Python implementations agree."""
    B = R.case_matrix(case["mat"]).astype(float)
    res, extra = both_impls(B)
    (Tp, pp, wp), (Tc, pc, wc) = res["py"], res["pyx"]
    check_model(B, Tp, pp, "py", wp)
    check_model(B, Tc, pc, "pyx", wc)
    if wp or wc:
        # at least one did not converge: agreement "up to the convergence tolerance" is undefined
        return info(case, extra + ["agree=not_asserted(warned)"])
    dT, dpi = float(np.max(np.abs(Tp - Tc))), float(np.max(np.abs(pp - pc)))
    if dT > TOL_D or dpi > TOL_D:
        # one of them stopped a little early by its own rule (see TOL_STOP): compare runs with a tight stopping tolerance
        require(dT <= TOL_STOP and dpi <= TOL_STOP, "compiled and pure-Python estimators disagree", dT=dT, dpi=dpi,
                T_py=Tp.tolist(), T_pyx=Tc.tolist())
        Tp, pp, wp = run_impl("py", B, tol=1e-14, max_iter=10 ** 5)
        Tc, pc, wc = run_impl("pyx", B, tol=1e-14, max_iter=10 ** 6)
        extra = extra + ["agree_needed_tight_tol=True"]
        if wp or wc:
            return info(case, extra + ["agree=not_asserted(warned)"])
        dT, dpi = float(np.max(np.abs(Tp - Tc))), float(np.max(np.abs(pp - pc)))
    require(dT <= TOL_D and dpi <= TOL_D, "compiled and pure-Python estimators disagree", dT=dT, dpi=dpi,
            T_py=Tp.tolist(), T_pyx=Tc.tolist())
    return info(case, extra + ["agree=asserted"])


def run_agree_same_sweeps(case):
    """Sentence 3, sharper: with the same (small) number of sweeps both implementations execute the same update
    sequence and must return the same numbers."""
    B = R.case_matrix(case["mat"]).astype(float)
    k = case["max_iter"]
    Tp, pp, wp = run_impl("py", B, max_iter=k)
    Tc, pc, wc = run_impl("pyx", B, max_iter=k)
    if wp != wc:
        # the two stopping tests use different log bases, so one may stop a sweep earlier: only near-equality
        return info(case, ["max_iter=%d" % k, "same_sweeps=stopped_differently"])
    dT, dpi = float(np.max(np.abs(Tp - Tc))), float(np.max(np.abs(pp - pc)))
    if wp and wc:
        require(dT <= 1e-9 and dpi <= 1e-9, "after the same %d sweeps the two implementations differ" % k, dT=dT,
                dpi=dpi, T_py=Tp.tolist(), T_pyx=Tc.tolist())
        return info(case, ["max_iter=%d" % k, "same_sweeps=both_capped"])
    # both stopped by their own rule within k sweeps (possibly a few sweeps apart: see TOL_STOP)
    require(dT <= TOL_STOP and dpi <= TOL_STOP, "compiled and pure-Python estimators disagree", dT=dT, dpi=dpi)
    return info(case, ["max_iter=%d" % k, "same_sweeps=both_converged"])


def run_nonconvergence(case):
    """Sentence 1, the 'or a convergence warning' branch: with a small max_iter (documented parameter) both
    implementations emit a ConvergenceWarning - not an exception - and still return a valid reversible model."""
    B = R.case_matrix(case["mat"]).astype(float)
    k = case["max_iter"]
    extra = ["max_iter=%d" % k]
    tot = float(B.sum())
    for who in ("py", "pyx"):
        T, pi, warned = run_impl(who, B, max_iter=k)
        check_model(B, T, pi, who, warned)
        converged = R.prinz_residual(B, T, pi) <= TOL_STOP * tot       # (stopped by its own rule: see TOL_STOP)
        require(warned or converged, "%s: stopped at max_iter=%d unconverged without a ConvergenceWarning" % (who, k),
                residual=R.prinz_residual(B, T, pi), total=tot)
        if k == 1:
            require(warned, "%s: max_iter=1 reached but no ConvergenceWarning" % who)
        extra.append("%s:warned=%s,converged=%s" % (who, warned, converged))
    return info(case, extra)


def exhaustive_small(tier, shard, nshards):
    """Every strongly connected 3-state count matrix with entries in {0, 1, 4} (thorough only)."""
    if tier != "thorough":
        return None

    def gen():
        import itertools
        idx = 0
        for vals in itertools.product((0, 1, 4), repeat=9):
            C = [list(vals[0:3]), list(vals[3:6]), list(vals[6:9])]
            if not R.strongly_connected(np.array(C)):
                continue
            idx += 1
            if idx % nshards != shard:
                continue
            yield {"mat": {"n": 3, "C": C, "dtype": "int64", "flavour": "enumerated"}}
    return gen()


def run_all_small(case):
    run_prinz(case)
    run_agree(case)
    c2 = dict(case)
    c2.update({"G": [0.0] * 9, "eps": 0.0, "base": "sym"})
    run_likelihood(c2)
    return info(case)


# --------------------------------------------------------------------------------------------------
# scale invariance: the reversible MLE of s*C is the MLE of C (counts may be re-weighted to tiny or huge magnitudes)

@st.composite
def scale_case(draw):
    case = draw(mle_case(5))
    case["scale_exp"] = draw(st.sampled_from([-30, -20, -10, 10, 20, 30, 30]))     # power of two: the rescaling is exact
    case["impl"] = draw(st.sampled_from(["py", "pyx", "builder"]))
    return case


def run_scale_invariance(case):
    A = R.case_matrix(case["mat"]).astype(float)
    s = 2.0 ** case["scale_exp"]

    def est(M):
        if case["impl"] == "builder":
            with warnings.catch_warnings(record=True) as w:
                warnings.simplefilter("always")
                _, T, pi = builders.mle(M.copy())
            return np.asarray(T, dtype=float), np.asarray(pi, dtype=float).ravel(), any("converge" in str(x.message).lower() for x in w)
        return run_impl(case["impl"], M, max_iter=PY_SWEEPS)
    T1, pi1, w1 = est(A)
    if w1:
        raise Skip("reference run did not converge within the sweep budget")
    T2, pi2, w2 = est(A * s)
    require(np.all(np.isfinite(T2)) and np.max(np.abs(T2.sum(axis=1) - 1)) <= TOL_ROW,
            "MLE of rescaled counts is not a stochastic matrix", scale="2^%d" % case["scale_exp"], T=T2.tolist())
    F = pi2[:, None] * T2
    require(np.max(np.abs(F - F.T)) <= 1e-8, "MLE of rescaled counts is not reversible w.r.t. its populations",
            scale="2^%d" % case["scale_exp"], worst=float(np.max(np.abs(F - F.T))), impl=case["impl"])
    # the stopping rule is an ABSOLUTE tolerance on a pseudo-likelihood, so a rescaled run may stop at another sweep:
    # compare through the likelihood on the ORIGINAL counts (both must be at the optimum) and through T loosely
    L1, L2 = R.loglik(A, T1), R.loglik(A, T2)
    require(L2 >= L1 - 1e-6 * (1 + abs(L1)), "MLE of rescaled counts is less likely than the MLE of the original counts",
            L_original=L1, L_rescaled=L2, scale="2^%d" % case["scale_exp"], impl=case["impl"])
    if case["scale_exp"] > 0 and not w2:
        # counts of large magnitude (weights, pooled counts of many runs): the estimate itself is the one of the
        # unscaled counts, to within what the stopping rule allows
        dT = float(np.max(np.abs(T2 - T1)))
        require(dT <= TOL_STOP, "MLE of counts scaled up by a power of two differs from the MLE of the original counts",
                dT=dT, scale="2^%d" % case["scale_exp"], impl=case["impl"])
    return info(case, ["scale=2^%d" % case["scale_exp"], "impl=" + case["impl"], "rescaled_warned=%s" % w2])


# --------------------------------------------------------------------------
# more than a hundred states, compiled estimator, 1 and 16 OpenMP threads: the estimate does not depend on the number
# of threads the process happens to have, and is a model in the sense of check_model + the Prinz fixed point

@st.composite
def many_states_case(draw):
    return {"n": draw(st.sampled_from([129, 130, 160, 200, 257])), "seed": draw(st.integers(0, 2 ** 31 - 1)),
            "asym": draw(st.sampled_from([0, 1, 3]))}


def run_many_states(case):
    from threadpoolctl import threadpool_limits
    rng = np.random.RandomState(case["seed"])        # seed drawn by Hypothesis
    n = case["n"]
    S = rng.randint(1, 20, size=(n, n)).astype(float)
    B = S + S.T + np.diag(rng.randint(50, 200, size=n).astype(float))
    if case["asym"]:
        B += rng.randint(0, case["asym"] + 1, size=(n, n))
    outs = {}
    for th in (1, 16):
        with threadpool_limits(limits=th, user_api="openmp"):
            with warnings.catch_warnings(record=True) as w:
                warnings.simplefilter("always")
                T, pi = builders._prinz_mle(B.copy(), max_iter=400)
        T, pi = np.asarray(T, dtype=float), np.asarray(pi, dtype=float).ravel()
        warned = any("converge" in str(x.message).lower() for x in w)
        check_model(B, T, pi, "pyx/%d threads" % th, warned)
        require(float(np.max(np.abs(pi @ T - pi))) <= 1e-9, "pyx/%d threads: returned populations are not stationary "
                "for the returned T" % th, residual=float(np.max(np.abs(pi @ T - pi))), n=n)
        outs[th] = (T, pi, warned)
    dT = float(np.max(np.abs(outs[1][0] - outs[16][0])))
    dpi = float(np.max(np.abs(outs[1][1] - outs[16][1])))
    require(dT <= 1e-10 and dpi <= 1e-10 and outs[1][2] == outs[16][2], "the compiled estimate depends on the number of "
            "OpenMP threads", dT=dT, dpi=dpi, n=n, warned_1=outs[1][2], warned_16=outs[16][2])
    return Info(True, ["many_states_n=%d" % n, "many_states_asym=%d" % case["asym"], "many_states_warned=%s" % outs[1][2]],
                key=[n, case["seed"], case["asym"]])


CLAUSES = [
    Clause("scale_invariance", scale_case(), run_scale_invariance, quick=300, thorough=3000),
    Clause("terminates_builder", mle_case(6, with_container=True), run_terminates_builder, quick=500, thorough=5000),
    Clause("terminates_impls", mle_case(6), run_terminates_impls, quick=400, thorough=2500),
    Clause("terminates_impls_large", mle_case(9), run_terminates_impls, quick=0, thorough=2000),
    Clause("likelihood_optimal", mle_case(6, with_competitor=True), run_likelihood, quick=400, thorough=4000),
    Clause("likelihood_optimal_large", mle_case(9, with_competitor=True), run_likelihood, quick=0, thorough=3000),
    Clause("prinz_equations", mle_case(6), run_prinz, quick=500, thorough=3000),
    Clause("prinz_equations_large", mle_case(9), run_prinz, quick=0, thorough=2000),
    Clause("implementations_agree", mle_case(6), run_agree, quick=500, thorough=3000),
    Clause("implementations_agree_large", mle_case(9), run_agree, quick=0, thorough=2000),
    Clause("implementations_agree_same_sweeps", mle_case(7, with_max_iter=True), run_agree_same_sweeps,
           quick=400, thorough=3000),
    Clause("nonconvergence_warns", mle_case(7, with_max_iter=True), run_nonconvergence, quick=400, thorough=3000),
    Clause("compiled_many_states_threads", many_states_case(), run_many_states, quick=12, thorough=120,
           doc="129..257 states, compiled estimator with 1 and with 16 OpenMP threads: same model, stationary, balanced"),
    Clause("all_3state", mle_case(3), run_all_small, quick=0, thorough=0, exhaustive=exhaustive_small),
]


ILL_COND_RANGE = 1e13


def flow_dynamic_range(case, iters=3000):
    """max / min of the flows pi_i T_ij over the support of C + C^T, for the reversible ML estimate computed by the
    independent reference iteration (vf.ref_msm.ref_mle_fixed_point, <= `iters` sweeps).  Pure function of the case."""
    B = R.case_matrix(case["mat"]).astype(float)
    T, pi, _ = R.ref_mle_fixed_point(B, max_iter=iters)
    F = (pi[:, None] * T)[(B + B.T) > 0]
    return float(F.max() / max(F.min(), 1e-320))


def match_mle_roundoff_breakdown(case, exc):
    """Known finding: when the ML flows pi_i T_ij span more than 13 decades (large one-directional counts: c_ij >> 0,
    c_ji = 0 along a cycle; ~0.4 % of the generated matrices) the estimator's running row sums keep the absolute
    rounding error of their much larger starting values.  Symptoms: the iteration dies in its own `assert c <= 0` or
    ends with NaN rows; or it returns, without a warning, an observed transition at probability exactly 0, a spurious
    1e-16 entry, or populations that are inconsistent with T.  Matched: an AssertionError raised inside the estimator
    loop / final normalisation, or an oracle Violation, on such an ill-conditioned case only.  TypeError, ValueError
    and every failure on a well-conditioned case are still reported."""
    import traceback
    if type(exc).__name__ == "Violation":
        pass
    elif type(exc) is AssertionError:
        frames = [fr for fr in traceback.extract_tb(exc.__traceback__) if "/enspara/" in fr.filename or
                  fr.filename.endswith("libmsm.pyx")]
        if not frames or frames[-1].name.split(".")[-1] not in ("_mle_prinz_dense", "_prinz_mle_py"):
            return False
        last, msg = frames[-1], str(exc)
        if last.name.endswith("_prinz_mle_py") and (last.line or "").strip() != "assert c <= 0" and "nan" not in msg:
            return False
        if msg and "nan" not in msg:
            return False
    else:
        return False
    return flow_dynamic_range(case) > ILL_COND_RANGE


MATCHERS = {"mle_roundoff_breakdown": match_mle_roundoff_breakdown}
