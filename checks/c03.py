"""C03 - transition counts equal the exact number of lagged state pairs."""
import numpy as np
import scipy.sparse
from hypothesis import strategies as st

from vf.harness import Clause, Info, require, Violation

from enspara import ra
from enspara.msm import assigns_to_counts

PROPERTY = "C03"
LEVEL = "exploration"
RULE = ("Hypothesis draws 1..6 (quick) / 1..30 (thorough) integer state trajectories of length 0..25 / 0..200 over "
        "1..8 states, lag 1..12, sliding window on/off, max_n_states in {None, observed, observed+extra}, and a "
        "presentation (RaggedArray, -1-padded rectangular ndarray in C / Fortran / transposed / row- and column-strided view "
        "layouts, permuted order; a separate clause counts 1023..4097 short trajectories; int8/int16/int32/int64/uint8/uint16 "
        "elements; one case in five uses a few large state ids up to min(dtype max, 400); a separate clause builds the "
        "RaggedArray from flat data + an int8..uint32 lengths table whose running total passes the table's type). Oracle: literal "
        "double loop over (t, t+lag) pairs per trajectory. A case is non-trivial when it has >=2 trajectories, one "
        "of length <= lag, one of length > 2*lag and at least one transition observed twice; distinct = distinct "
        "canonical JSON of the case. Thorough additionally enumerates every pair of trajectories of length 0..5 "
        "over 2 states pattern families x lag 1..6 x sliding on/off.")
ASSUMPTIONS = ["state ids are non-negative integers; -1 is used only as trailing padding",
               "at least one assigned frame overall when the number of states is inferred"]
SHARDS = {"quick": 4, "thorough": 16}


def ref_counts(trajs, lag, sliding, n):
    C = np.zeros((n, n), dtype=np.int64)
    for t in trajs:
        step = 1 if sliding else lag
        i = 0
        while i + lag < len(t):
            C[t[i], t[i + lag]] += 1
            i += step
    return C


def build_input(trajs, how, dtype="int64"):
    """Return an object accepted by assigns_to_counts or None if not representable."""
    if how == "ragged":
        if any(len(t) == 0 for t in trajs):
            return None
        return ra.RaggedArray([np.array(t, dtype=dtype) for t in trajs])
    if how == "padded":
        m = max(len(t) for t in trajs)
        a = -np.ones((len(trajs), m + 0), dtype=dtype)
        for i, t in enumerate(trajs):
            a[i, :len(t)] = t
        return a
    if how == "padded_extra":
        m = max(len(t) for t in trajs) + 2
        a = -np.ones((len(trajs), m), dtype=dtype)
        for i, t in enumerate(trajs):
            a[i, :len(t)] = t
        return a
    if how in ("padded_F", "padded_colview", "padded_rowview", "padded_T"):
        # same values as "padded", other memory layouts (rows are then NOT contiguous in memory)
        base = build_input(trajs, "padded", dtype)
        n, m = base.shape
        if how == "padded_F":
            return np.asfortranarray(base)
        if how == "padded_T":
            return np.ascontiguousarray(base.T).T            # a frames x trajectories table, transposed
        if how == "padded_colview":
            big = np.full((n, 2 * m + 1), 7, dtype=dtype)
            big[:, 1::2] = base
            return big[:, 1::2]
        big = np.full((2 * n + 1, m), 7, dtype=dtype)
        big[1::2] = base
        return big[1::2]
    raise ValueError(how)


DTYPES = ["int64", "int32", "int16", "int8", "uint8", "uint16", ">i4", ">i2"]   # the last two: non-native byte order
# the function, called with keywords or positionally as documented (assigns, lag_time, max_n_states, sliding_window),
# and the estimator that counts through it (MSM(...).fit(a).tcounts_, nothing trimmed)
ENTRY_POINTS = ["function", "function", "positional", "MSM.fit", "MSM.reconfigured"]


@st.composite
def count_case(draw, max_traj=6, max_len=25):
    dtype = draw(st.sampled_from(DTYPES))
    top = int(np.iinfo(dtype).max)
    wide = draw(st.integers(0, 4)) == 0
    if wide:
        # a few distinct, possibly large state ids (up to the dtype's maximum / 400): i*n+j style arithmetic in the
        # assignments' own dtype would overflow
        pool = draw(st.lists(st.integers(0, min(top, 400)), min_size=1, max_size=6, unique=True))
        if draw(st.booleans()):
            pool.append(min(top, 400))
        state = st.sampled_from(sorted(set(pool)))
    else:
        n_states = draw(st.integers(1, 8))
        state = st.integers(0, n_states - 1)
    lag = draw(st.integers(1, 12))
    ntraj = draw(st.integers(1, max_traj))
    trajs = []
    for _ in range(ntraj):
        kind = draw(st.sampled_from(["short", "boundary", "long", "any"]))
        if kind == "short":
            L = draw(st.integers(0, lag))
        elif kind == "boundary":
            L = draw(st.sampled_from([lag, lag + 1, 2 * lag, 2 * lag + 1]))
        elif kind == "long":
            L = draw(st.integers(2 * lag + 1, max(2 * lag + 1, max_len)))
        else:
            L = draw(st.integers(0, max_len))
        L = min(L, max(max_len, 2 * lag + 2))
        trajs.append(draw(st.lists(state, min_size=L, max_size=L)))
    if all(len(t) == 0 for t in trajs):
        trajs[0] = [draw(state)]
    obs = max(max(t) for t in trajs if t) + 1
    mns = draw(st.sampled_from([None, "obs", "extra"]))
    max_n_states = None if mns is None else obs if mns == "obs" else obs + draw(st.integers(1, 3))
    hows = (["ragged", "padded", "padded_extra", "padded_F", "padded_colview", "padded_rowview", "padded_T"]
            if not dtype.startswith("u") else ["ragged"])
    return {"trajs": trajs, "lag": lag, "sliding": draw(st.booleans()),
            "max_n_states": max_n_states,
            "how": draw(st.sampled_from(hows)),
            "dtype": dtype, "wide": wide, "entry": draw(st.sampled_from(ENTRY_POINTS)),
            "perm_seed": draw(st.integers(0, 10 ** 6)),
            "split": draw(st.integers(0, ntraj))}


def call(trajs, case, how=None):
    how = how or case["how"]
    dtype = case["dtype"]
    if dtype.startswith("u"):
        how = "ragged"          # unsigned arrays cannot carry the -1 padding
    x = build_input(trajs, how, dtype)
    if x is None:
        if dtype.startswith("u"):
            x = build_input([t for t in trajs if len(t)], "ragged", dtype)   # empty rows simply do not exist
        else:
            x = build_input(trajs, "padded", dtype)
    entry = case.get("entry", "function")
    if case["max_n_states"] is not None:
        # the requested size as a python int or as a numpy integer (`assigns.max() + 1` is one); same number either way
        as_ = [int, np.int64, np.int32, np.intp][case.get("perm_seed", 0) % 4]
        case = dict(case, max_n_states=as_(case["max_n_states"]))
    if entry == "positional":
        C = assigns_to_counts(x, case["lag"], case["max_n_states"], case["sliding"])
    elif entry in ("MSM.fit", "MSM.reconfigured"):
        from enspara.msm import MSM, builders
        if entry == "MSM.reconfigured":
            # an estimator built for OTHER counting parameters and then set to the wanted ones (a lag scan re-using one
            # object): what it counts follows its current parameters
            m = MSM(lag_time=case["lag"] + 1 + case.get("perm_seed", 0) % 3, method=lambda C, **kw: (C, C, None), trim=False,
                    sliding_window=not case["sliding"], max_n_states=None)
            if case.get("perm_seed", 0) % 2:
                m.set_params(lag_time=case["lag"], sliding_window=case["sliding"], max_n_states=case["max_n_states"])
            else:
                m.lag_time, m.sliding_window, m.max_n_states = case["lag"], case["sliding"], case["max_n_states"]
        else:
            m = MSM(lag_time=case["lag"], method=lambda C, **kw: (C, C, None), trim=False, sliding_window=case["sliding"],
                    max_n_states=case["max_n_states"])
        if case["max_n_states"] is not None and not dtype.startswith("u"):
            # the same estimator object was first asked to count assignments that do NOT fit the requested number of
            # states (whatever it does with them - the function refuses them); the request itself is unchanged by that
            too_big = np.array([[0, int(case["max_n_states"]), 0]], dtype=dtype) if int(case["max_n_states"]) <= np.iinfo(dtype).max \
                else None
            if too_big is not None:
                try:
                    m.fit(too_big)
                except Exception:
                    pass
        m.fit(x)
        C = m.tcounts_
    else:
        C = assigns_to_counts(x, case["lag"], max_n_states=case["max_n_states"],
                              sliding_window=case["sliding"])
    require(scipy.sparse.issparse(C) or isinstance(C, np.ndarray), "unexpected return type %s" % type(C))
    dense = np.array(C.toarray() if scipy.sparse.issparse(C) else C, copy=True)
    if not case.get("entry", "function").startswith("MSM.") and len(trajs) >= 1:
        # the returned matrix belongs to the caller: counting OTHER (fewer) assignments afterwards may not rewrite it
        sub = [t[: max(1, len(t) // 2)] for t in trajs[: max(1, len(trajs) // 2)] if len(t)]
        if sub:
            y = build_input(sub, "ragged" if dtype.startswith("u") else "padded", dtype)
            if y is not None:
                try:
                    assigns_to_counts(y, case["lag"], max_n_states=dense.shape[0], sliding_window=case["sliding"])
                except Exception:
                    pass
                again = np.asarray(C.toarray() if scipy.sparse.issparse(C) else C)
                require(again.shape == dense.shape and np.array_equal(again, dense),
                        "a count matrix returned earlier changed when other assignments were counted",
                        before=dense.tolist(), after=again.tolist())
    return dense


def info(case):
    trajs, lag = case["trajs"], case["lag"]
    n = (max(max(t) for t in trajs if t) + 1)
    R = ref_counts(trajs, lag, case["sliding"], n)
    nt = (len(trajs) >= 2 and any(len(t) <= lag for t in trajs)
          and any(len(t) > 2 * lag for t in trajs) and R.max() >= 2)
    cl = ["how=" + case["how"], "sliding=%s" % case["sliding"],
          "mns=%s" % ("None" if case["max_n_states"] is None else "given"),
          "has_empty_traj=%s" % any(len(t) == 0 for t in trajs), "dtype=" + case["dtype"],
          "wide_states=%s" % case.get("wide", False), "entry=" + case.get("entry", "function"),
          "total_zero=%s" % (R.sum() == 0)]
    return Info(nt, cl)


def run_exact(case):
    trajs, lag = case["trajs"], case["lag"]
    obs = max(max(t) for t in trajs if t) + 1
    n = case["max_n_states"] or obs
    R = ref_counts(trajs, lag, case["sliding"], n)
    C = call(trajs, case)
    require(C.shape == (n, n), "shape is not (n_states, n_states)", got=C.shape, want=(n, n))
    require(np.array_equal(C, R), "count matrix differs from literal pair count", got=C.tolist(), want=R.tolist())
    if case["sliding"]:
        tot = sum(max(0, len(t) - lag) for t in trajs)
        require(int(C.sum()) == tot, "total != sum max(0, len-lag)", got=int(C.sum()), want=tot)
    return info(case)


def run_additive(case):
    trajs = case["trajs"]
    k = case["split"]
    A, B = trajs[:k], trajs[k:]
    if not A or not B or all(len(t) == 0 for t in A) or all(len(t) == 0 for t in B):
        return Info(False, ["degenerate_split"])
    obs = max(max(t) for t in trajs if t) + 1
    c2 = dict(case)
    c2["max_n_states"] = case["max_n_states"] or obs
    CA, CB, CAB = call(A, c2), call(B, c2), call(trajs, c2)
    require(np.array_equal(CA + CB, CAB), "counts not additive over trajectory sets",
            A=CA.tolist(), B=CB.tolist(), AB=CAB.tolist())
    return info(case)


def run_presentations(case):
    trajs = case["trajs"]
    rng = np.random.RandomState(case["perm_seed"])   # seed drawn by Hypothesis; deterministic given the case
    perm = rng.permutation(len(trajs))
    base = call(trajs, case, "padded")
    for how in ["ragged", "padded_extra", "padded_F", "padded_colview", "padded_rowview", "padded_T"]:
        if how == "ragged" and any(len(t) == 0 for t in trajs):
            continue
        other = call(trajs, case, how)
        require(np.array_equal(base, other), "presentation %s differs from padded" % how,
                padded=base.tolist(), other=other.tolist())
    other = call([trajs[i] for i in perm], case, "padded")
    require(np.array_equal(base, other), "permuting trajectories changes the counts", perm=perm.tolist())
    return info(case)


def exhaustive_small(tier, shard, nshards):
    if tier != "thorough":
        return None

    def gen():
        import itertools
        idx = 0
        pats = [lambda i: 0, lambda i: i % 2, lambda i: (i // 2) % 2, lambda i: 1 - (i % 2) if i % 3 else 1]
        for L1, L2 in itertools.product(range(0, 6), repeat=2):
            if L1 == 0 and L2 == 0:
                continue
            for p1, p2 in itertools.product(range(len(pats)), repeat=2):
                for lag in range(1, 7):
                    for sliding in (True, False):
                        for how in ("padded", "ragged"):
                            idx += 1
                            if idx % nshards != shard:
                                continue
                            yield {"trajs": [[pats[p1](i) for i in range(L1)], [pats[p2](i) for i in range(L2)]],
                                   "lag": lag, "sliding": sliding, "max_n_states": 2, "how": how,
                                   "dtype": "int64", "wide": False, "perm_seed": 0, "split": 1}
    return gen()


@st.composite
def many_case(draw):
    """Thousands of short trajectories: the count must not depend on how many trajectories there are."""
    ntraj = draw(st.sampled_from([1023, 1024, 1025, 1500, 2047, 2049, 2500, 4097]))
    n_states = draw(st.integers(2, 5))
    lag = draw(st.integers(1, 3))
    seed = draw(st.integers(0, 2 ** 31 - 1))
    return {"ntraj": ntraj, "n_states": n_states, "lag": lag, "seed": seed, "sliding": draw(st.booleans()),
            "how": draw(st.sampled_from(["ragged", "padded"])), "dtype": draw(st.sampled_from(["int64", "int32", "int16"])),
            "max_len": draw(st.integers(2, 7))}


def run_many(case):
    rng = np.random.RandomState(case["seed"])        # seed drawn by Hypothesis
    lens = rng.randint(1, case["max_len"] + 1, size=case["ntraj"])
    trajs = [rng.randint(0, case["n_states"], size=int(L)).tolist() for L in lens]
    c = {"lag": case["lag"], "sliding": case["sliding"], "max_n_states": case["n_states"], "how": case["how"],
         "dtype": case["dtype"]}
    R = ref_counts(trajs, case["lag"], case["sliding"], case["n_states"])
    C = call(trajs, c)
    require(np.array_equal(C, R), "count matrix differs from literal pair count for many trajectories",
            ntraj=case["ntraj"], got_total=int(C.sum()), want_total=int(R.sum()))
    half = case["ntraj"] // 2
    CA, CB = call(trajs[:half], c), call(trajs[half:], c)
    require(np.array_equal(CA + CB, C), "counts not additive over two halves of many trajectories", ntraj=case["ntraj"])
    return Info(True, ["ntraj=%d" % case["ntraj"], "how=" + case["how"]],
                key=[case["ntraj"], case["seed"], case["lag"], case["sliding"], case["how"]])


# --------------------------------------------------------------------------
# few states, long sticky trajectories in narrow dtypes: a single ENTRY of the matrix exceeds what the assignments'
# own dtype can hold (counts are numbers of pairs, not state ids)

@st.composite
def sticky_case(draw):
    dtype = draw(st.sampled_from(["int8", "uint8", "int16", "uint16", "int32"]))
    top = int(np.iinfo(dtype).max)
    L = draw(st.sampled_from([200, 300, 600] if top < 1000 else [33000, 40000, 70000] if top < 10 ** 5 else [50000]))
    return {"dtype": dtype, "L": L, "ntraj": draw(st.integers(1, 3)), "n_states": draw(st.integers(1, 3)),
            "stay": draw(st.sampled_from([0.5, 0.9, 0.99, 1.0])), "seed": draw(st.integers(0, 2 ** 31 - 1)),
            "lag": draw(st.integers(1, 3)), "sliding": draw(st.booleans()),
            "how": draw(st.sampled_from(["ragged", "padded"])), "entry": draw(st.sampled_from(ENTRY_POINTS))}


def run_sticky(case):
    rng = np.random.RandomState(case["seed"])        # seed drawn by Hypothesis
    trajs = []
    for _ in range(case["ntraj"]):
        L = int(case["L"] * (0.5 + 0.5 * rng.rand()))
        jump = rng.rand(L) >= case["stay"]
        prop = rng.randint(0, case["n_states"], size=L)
        t = np.zeros(L, dtype=np.int64)
        for i in range(1, L):
            t[i] = prop[i] if jump[i] else t[i - 1]
        trajs.append(t.tolist())
    n = case["n_states"]
    c = {"lag": case["lag"], "sliding": case["sliding"], "max_n_states": n, "how": case["how"], "dtype": case["dtype"],
         "entry": case["entry"]}
    R = ref_counts(trajs, case["lag"], case["sliding"], n)
    C = call(trajs, c)
    require(np.array_equal(C, R), "count matrix differs from literal pair count on long sticky trajectories",
            got=C.tolist(), want=R.tolist(), dtype=case["dtype"])
    over = int(R.max()) > int(np.iinfo(case["dtype"]).max)
    return Info(over, ["sticky_dtype=" + case["dtype"], "entry_exceeds_dtype=%s" % over, "entry=" + case["entry"]],
                key=[case["seed"], case["dtype"], case["L"], case["lag"], case["sliding"], case["how"], case["entry"]])


# --------------------------------------------------------------------------
# one trajectory of 2**16 .. 2**18 frames: the pairs of a long trajectory are those of the whole trajectory (no
# dependence on any internal block size), in both window modes and for lags that do not divide powers of two

@st.composite
def very_long_case(draw):
    return {"L": draw(st.sampled_from([65535, 65536, 65537, 65543, 70001, 131072, 131075, 200003, 262147])),
            "lag": draw(st.sampled_from([1, 2, 3, 5, 7, 10, 12, 100, 1000])), "sliding": draw(st.booleans()),
            "n_states": draw(st.integers(2, 6)), "seed": draw(st.integers(0, 2 ** 31 - 1)),
            "how": draw(st.sampled_from(["ragged", "padded"])), "dtype": draw(st.sampled_from(["int64", "int32", "int16"])),
            "extra_short": draw(st.booleans()), "entry": draw(st.sampled_from(ENTRY_POINTS))}


def run_very_long(case):
    rng = np.random.RandomState(case["seed"])        # seed drawn by Hypothesis
    n, lag, L = case["n_states"], case["lag"], case["L"]
    t = rng.randint(0, n, size=L)
    trajs = [t]
    if case["extra_short"]:
        trajs.append(rng.randint(0, n, size=int(rng.randint(1, 2 * lag + 3))))
    R = np.zeros((n, n), dtype=np.int64)
    for tr in trajs:
        a = tr[:-lag] if case["sliding"] else tr[:-lag:lag]
        b = tr[lag:] if case["sliding"] else tr[lag::lag]
        b = b[:len(a)]
        np.add.at(R, (a[:len(b)], b), 1)
    c = {"lag": lag, "sliding": case["sliding"], "max_n_states": n, "how": case["how"], "dtype": case["dtype"],
         "entry": case["entry"], "perm_seed": case["seed"]}
    C = call([tr.tolist() for tr in trajs], c)
    require(np.array_equal(C, R), "count matrix of one very long trajectory differs from the literal pair count",
            L=L, lag=lag, sliding=case["sliding"], got_total=int(C.sum()), want_total=int(R.sum()),
            first_diff=np.argwhere(C != R)[:3].tolist() if C.shape == R.shape else None)
    return Info(L > 65536, ["very_long_L=%d" % L, "very_long_sliding=%s" % case["sliding"], "entry=" + case["entry"]],
                key=[L, lag, case["sliding"], case["seed"], case["how"], case["entry"]])


# --------------------------------------------------------------------------
# one assignments object counted repeatedly: other lag time, then refilled in place with other assignments

@st.composite
def recount_case(draw):
    c = draw(count_case(max_traj=5, max_len=20))
    c["lag2"] = draw(st.integers(1, 6))
    c["refill_seed"] = draw(st.integers(0, 2 ** 31 - 1))
    c["how"] = draw(st.sampled_from(["padded", "padded_extra", "padded_F", "ragged"]))
    if c["dtype"].startswith("u"):
        c["how"] = "ragged"
    return c


def run_recount(case):
    trajs, lag = case["trajs"], case["lag"]
    if any(len(t) == 0 for t in trajs):
        trajs = [t for t in trajs if len(t)]
    obs = max(max(t) for t in trajs) + 1
    n = case["max_n_states"] or obs
    x = build_input(trajs, case["how"], case["dtype"])

    def count(l):
        C = assigns_to_counts(x, l, max_n_states=n, sliding_window=case["sliding"])
        return np.asarray(C.toarray() if scipy.sparse.issparse(C) else C)
    C1 = count(lag)
    require(np.array_equal(C1, ref_counts(trajs, lag, case["sliding"], n)), "first count differs from literal pair count")
    C2 = count(case["lag2"])
    require(np.array_equal(C2, ref_counts(trajs, case["lag2"], case["sliding"], n)),
            "second count of the same object with another lag time differs from literal pair count",
            lag=lag, lag2=case["lag2"], got=C2.tolist())
    # refill in place: same shape, a permutation of the state ids (and reversed time order) -> other pairs
    rng = np.random.RandomState(case["refill_seed"])
    ids = sorted(set(v for t in trajs for v in t))
    perm = dict(zip(ids, rng.permutation(ids).tolist()))
    new = [[perm[v] for v in t[::-1]] for t in trajs]
    if case["how"] == "ragged" and case["refill_seed"] % 2:
        # in-place relabelling through masks (lumping states: a[a == s] = t), one source state at a time via a
        # temporary offset so that the permutation is applied exactly once; time order kept
        new = [[perm[v] for v in t] for t in trajs]
        top = int(np.iinfo(case["dtype"]).max)
        off = max(ids) + 1
        if off + max(ids) <= top:
            for s_ in ids:
                x[x == s_] = off + s_
            for s_ in ids:
                x[x == off + s_] = perm[s_]
        else:
            for i, t in enumerate(new):
                x[i] = np.array(t, dtype=case["dtype"])
    elif case["how"] == "ragged":
        for i, t in enumerate(new):
            x[i] = np.array(t, dtype=case["dtype"])
    else:
        for i, t in enumerate(new):
            x[i, :len(t)] = t
    C3 = count(lag)
    R3 = ref_counts(new, lag, case["sliding"], n)
    require(np.array_equal(C3, R3), "count of an assignments object that was refilled in place differs from the literal "
            "pair count of its new contents", got=C3.tolist(), want=R3.tolist(), old=C1.tolist())
    i = info(case)
    return Info(i.nontrivial and not np.array_equal(R3, C1), list(i.classes) + ["recount_how=" + case["how"]])


# --------------------------------------------------------------------------
# assignments held as ONE flat array plus a table of trajectory lengths in a narrow integer type (what a compact file
# holds): every single length fits the table's type, their running total does not have to

LEN_TOP = {"int8": 127, "uint8": 255, "int16": 32767, "uint16": 65535, "int32": 2 ** 31 - 1, "uint32": 2 ** 32 - 1,
           "int64": 2 ** 63 - 1}


@st.composite
def lengths_table_case(draw):
    ltype = draw(st.sampled_from(["int8", "int8", "uint8", "uint8", "int16", "uint16", "int32", "uint32", "int64"]))
    n_states = draw(st.integers(1, 5))
    lag = draw(st.integers(1, 6))
    if ltype in ("int16", "uint16") and draw(st.integers(0, 2)) == 0:
        # few very long rows: the total passes 2^15 / 2^16
        lens = [draw(st.integers(9000, 30000)) for _ in range(draw(st.integers(3, 8)))]
    else:
        top = min(LEN_TOP[ltype], 250)
        lens = [draw(st.one_of(st.integers(1, min(top, 2 * lag + 1)), st.integers(top // 2, top)))
                for _ in range(draw(st.integers(2, 9)))]
    if len(set(lens)) == 1:
        lens[0] = max(1, lens[0] - 1)         # equally long rows are stored as a plain table (another code path, C05's)
    return {"ltype": ltype, "lens": lens, "n_states": n_states, "lag": lag, "sliding": draw(st.booleans()),
            "dtype": draw(st.sampled_from(["int64", "int32", "int16", "int8", "uint8"])),
            "fill_seed": draw(st.integers(0, 10 ** 6)), "sticky": draw(st.sampled_from([0.0, 0.5, 0.9])),
            "entry": draw(st.sampled_from(["function", "function", "MSM.fit"])),
            "mns": draw(st.sampled_from([None, "obs", "extra"]))}


def run_lengths_table(case):
    rng = np.random.RandomState(case["fill_seed"])       # seed drawn by Hypothesis; deterministic given the case
    lens, n = case["lens"], case["n_states"]
    total = sum(lens)
    flat = rng.randint(0, n, size=total)
    keep = rng.random_sample(total) < case["sticky"]
    for i in range(1, total):
        if keep[i]:
            flat[i] = flat[i - 1]
    flat = flat.astype(case["dtype"])
    table = np.array(lens, dtype=case["ltype"])
    x = ra.RaggedArray(flat, lengths=table)
    cuts = np.cumsum([0] + lens)
    trajs = [[int(v) for v in flat[cuts[i]:cuts[i + 1]]] for i in range(len(lens))]
    obs = int(flat.max()) + 1
    mns = None if case["mns"] is None else obs if case["mns"] == "obs" else obs + 2
    if case["entry"] == "MSM.fit":
        from enspara.msm import MSM
        m = MSM(lag_time=case["lag"], method=lambda C, **kw: (C, C, None), trim=False, sliding_window=case["sliding"],
                max_n_states=mns)
        m.fit(x)
        C = m.tcounts_
    else:
        C = assigns_to_counts(x, lag_time=case["lag"], max_n_states=mns, sliding_window=case["sliding"])
    dense = np.asarray(C.toarray() if scipy.sparse.issparse(C) else C)
    want = ref_counts(trajs, case["lag"], case["sliding"], mns if mns is not None else obs)
    require(dense.shape == want.shape, "count matrix has the wrong shape", got=dense.shape, want=want.shape)
    if not np.array_equal(dense, want):
        raise Violation("counts of a RaggedArray built from flat data and a %s lengths table differ from the per-trajectory "
                        "lagged pairs | lengths=%r total_frames=%d lag=%d sliding=%s got_total=%d want_total=%d" % (
                            case["ltype"], lens if len(lens) < 12 else lens[:12], total, case["lag"], case["sliding"],
                            int(dense.sum()), int(want.sum())))
    require(np.array_equal(table, np.array(lens, dtype=case["ltype"])) and table.dtype == np.dtype(case["ltype"]),
            "the caller's lengths table was modified")
    passes = total > LEN_TOP[case["ltype"]]
    return Info(passes and len(lens) >= 3, ["lengths_type=" + case["ltype"], "total_exceeds_lengths_type=%s" % passes,
                                             "entry=" + case["entry"], "frames=%s" % ("<1e3" if total < 1000 else ">=1e3")])


CLAUSES = [
    Clause("exact", count_case(), run_exact, quick=1200, thorough=30000, exhaustive=exhaustive_small),
    Clause("additive", count_case(), run_additive, quick=600, thorough=15000),
    Clause("presentations", count_case(), run_presentations, quick=600, thorough=15000),
    Clause("exact_large", count_case(max_traj=30, max_len=200), run_exact, quick=0, thorough=4000),
    Clause("many_trajectories", many_case(), run_many, quick=16, thorough=160),
    Clause("one_very_long_trajectory", very_long_case(), run_very_long, quick=24, thorough=240,
           doc="one trajectory of 2^16..2^18 frames (optionally plus a short one), lags 1..1000, both window modes"),
    Clause("sticky_narrow_dtypes", sticky_case(), run_sticky, quick=24, thorough=400,
           doc="1..3 states, long sticky trajectories in int8..int32: single matrix entries exceed the assignments' dtype"),
    Clause("ragged_from_lengths_table", lengths_table_case(), run_lengths_table, quick=300, thorough=6000,
           doc="RaggedArray(flat, lengths=<int8..uint32 table>): every length fits the table's type, the running total "
               "need not; counts = per-trajectory lagged pairs"),
    Clause("recount_same_object", recount_case(), run_recount, quick=600, thorough=12000,
           doc="one assignments object counted with two lag times, refilled in place, counted again"),
]
MATCHERS = {}
