"""C11 - ergodic trimming keeps exactly the heaviest strongly connected component.

Library under test: enspara.msm.transition_matrices.trim_disconnected / TrimMapping and
enspara.msm.MSM(trim=True).fit(...).mapping_ / tcounts_.

Oracle (independent of scipy.sparse.csgraph): boolean Warshall closure of `counts >= threshold`,
SCC(i) = {j : i reaches j and j reaches i}; weight of an SCC = sum of the ORIGINAL row sums of its states
(python ints); the kept set has to be one of the SCCs of maximal weight (ties accepted).
"""
import logging
import numbers

import warnings
import numpy as np
import scipy.sparse
from hypothesis import strategies as st

from vf.harness import Clause, Info, require

from enspara import ra
from enspara.msm import MSM, builders
from enspara.msm.transition_matrices import trim_disconnected, assigns_to_counts, TrimMapping

# the library logs one INFO line per MSM.fit and one WARNING per tiny eigen-decomposition; keep shard logs small
for _n in ("enspara.msm.msm", "enspara.msm.transition_matrices", "enspara.msm.builders"):
    logging.getLogger(_n).setLevel(logging.ERROR)

PROPERTY = "C11"
LEVEL = "exploration"
RULE = ("Hypothesis draws a non-negative integer count matrix with n in 1..8 (quick) / 1..14 (thorough) states. "
        "75 %: assembled from 1..4 interleaved blocks (state->block labels drawn, so components are not contiguous "
        "in id order); each block is a directed cycle (drawn member order), a cycle plus extra internal edges, "
        "self-loops only, or isolated states; every edge that is meant to count has value threshold+0..3 plus a "
        "per-block weight boost (0/5/40, or 'small_heavy': all boost on a block strictly smaller than the largest, or "
        "'noise_heavy': one block is heaviest only through sub-threshold counts) so that weight, size and "
        "thresholded weight are decoupled; one-way links (>= threshold) go only "
        "from lower to higher block index; sub-threshold 'noise' entries 1..threshold-1 (which carry weight but no "
        "connectivity, including back-links that would merge components) are sprinkled per block. 25 %: unstructured "
        "matrices with drawn density and value range straddling the threshold. Threshold in 1..4, renumber_states "
        "on/off (and the all-defaults call), containers ndarray (C / F / strided view / read-only) and every scipy "
        "sparse format as *_matrix and *_array (coo/csr/csc additionally with duplicate or explicitly stored zero "
        "entries), dtypes int64/int32/int16/uint8/uint32/float64(integral values). For the MSM clause 1..6 "
        "trajectories (confined to 1..3 states, single one-way hops, or unconstrained) over 1..7 states, lag 1..3, "
        "max_n_states None/observed/observed+extra, padded ndarray or RaggedArray. Non-trivial = the thresholded "
        "graph has >= 2 SCCs AND (an at-or-above-threshold one-way link joins two different SCCs, or the heaviest SCC "
        "is not a largest one, or it does not contain state 0); distinct = distinct canonical JSON of the case. "
        "Exhaustive: quick - all 3x3 0/1 matrices and all 2x2 matrices over {0,1,2} x thresholds {1,2}; thorough - "
        "all 3x3 matrices over {0,1,2} x thresholds {1,2} (39 366) and all 4x4 0/1 matrices (65 536), on the six "
        "per-sentence clauses of trim_disconnected.")
ASSUMPTIONS = ["counts is a square 2-D matrix with n >= 1 states and non-negative integer values (any integer dtype, "
               "or float64 holding integers), small enough that row sums do not overflow",
               "threshold is an integer >= 1 (with threshold <= 0 'counts at or above the threshold' would make "
               "unobserved transitions edges, which no caller intends)",
               "a single state is a strongly connected component by itself (with or without a self-transition)",
               "when several components share the maximal total count any of them may be kept",
               "MSM clause: state ids are non-negative, -1 only as trailing padding, every trajectory has >= 1 frame, "
               "default sliding_window, builder = builders.normalize (callable or by name) or a pass-through"]
SHARDS = {"quick": 4, "thorough": 16}

FORMATS = ["csr", "csc", "coo", "lil", "dok", "dia", "bsr"]
SPM = [f + "_matrix" for f in FORMATS]
SPA = [f + "_array" for f in FORMATS]
CONTAINERS = ["ndarray"] + SPM + SPA
DTYPES = ["int64", "int64", "int32", "int16", "uint8", "uint32", "float64"]


# ---------------------------------------------------------------------------------------------------------
# reference model

def closure(A):
    """Reflexive-transitive closure of a boolean adjacency matrix (Warshall)."""
    n = len(A)
    R = np.array(A, dtype=bool) | np.eye(n, dtype=bool)
    for k in range(n):
        R |= np.outer(R[:, k], R[k, :])
    return R


def ref_model(counts, thr):
    """counts: list of lists of python ints. Returns dict with SCCs, weights, heaviest ones."""
    C = np.array(counts, dtype=object).reshape(len(counts), len(counts))
    n = len(counts)
    A = np.array([[counts[i][j] >= thr and counts[i][j] > 0 for j in range(n)] for i in range(n)], dtype=bool)
    R = closure(A)
    M = R & R.T
    comps, seen = [], set()
    for i in range(n):
        if i not in seen:
            c = tuple(int(j) for j in np.flatnonzero(M[i]))
            comps.append(c)
            seen.update(c)
    rows = [sum(int(v) for v in counts[i]) for i in range(n)]
    w = [sum(rows[i] for i in c) for c in comps]
    wmax = max(w)
    heaviest = [c for c, x in zip(comps, w) if x == wmax]
    comp_of = {}
    for ci, c in enumerate(comps):
        for i in c:
            comp_of[i] = ci
    oneway = any(A[i, j] and comp_of[i] != comp_of[j] for i in range(n) for j in range(n))
    # what a few plausible wrong implementations would keep (only for class labels / targeting)
    rows_thr = [sum(int(v) for v in counts[i] if v >= thr) for i in range(n)]
    w_thr = [sum(rows_thr[i] for i in c) for c in comps]
    heaviest_thr = [c for c, x in zip(comps, w_thr) if x == max(w_thr)]
    Rw = closure(A | A.T)
    return {"n": n, "A": A, "comps": comps, "w": w, "wmax": wmax, "heaviest": heaviest, "oneway": oneway,
            "heaviest_thr": heaviest_thr, "weak": Rw, "C": C}


def classes_of(case, rm, kept=None):
    n, thr = rm["n"], case["threshold"]
    comps, heaviest = rm["comps"], rm["heaviest"]
    maxsize = max(len(c) for c in comps)
    not_largest = all(len(c) < maxsize for c in heaviest)
    not_first = all(0 not in c for c in heaviest)
    flat = [v for r in case["counts"] for v in r]
    cl = ["thr=%d" % thr,
          "n=%s" % (n if n <= 4 else "5-8" if n <= 8 else "9+"),
          "n_scc=%s" % (len(comps) if len(comps) <= 3 else "4+"),
          "gen=%s" % case.get("gen", "?")]
    if rm["oneway"]:
        cl.append("oneway_link_between_sccs")
    if not_largest:
        cl.append("heaviest_not_largest")
    if not_first:
        cl.append("heaviest_without_state0")
    if len(heaviest) > 1:
        cl.append("tie_for_heaviest")
    if set(map(tuple, heaviest)).isdisjoint(set(map(tuple, rm["heaviest_thr"]))):
        cl.append("heaviest_differs_if_weights_thresholded")
    h = heaviest[0]
    if any(rm["weak"][h[0], j] for j in range(n) if j not in h):
        cl.append("weak_component_larger_than_scc")
    weak_pieces = {}
    for i in range(n):
        weak_pieces.setdefault(tuple(int(j) for j in np.flatnonzero(rm["weak"][i] | (np.arange(n) == i))), 0)
    rows_tot = [sum(int(v) for v in case["counts"][i]) for i in range(n)]
    piece_w = {p_: sum(rows_tot[i] for i in p_) for p_ in weak_pieces}
    if len(piece_w) >= 2:
        heavy_piece = max(piece_w, key=lambda p_: piece_w[p_])
        if not set(h) <= set(heavy_piece):
            cl.append("heaviest_scc_outside_heaviest_weak_piece")
    if len(h) == n:
        cl.append("keeps_all")
    if len(h) == 1:
        cl.append("keeps_single_state")
    if 1 < len(h) < n:
        cl.append("keeps_proper_multi_state_subset")
    if list(h) != list(range(len(h))):
        cl.append("kept_ids_not_a_prefix")
    if any(0 < v < thr for v in flat):
        cl.append("has_subthreshold_counts")
    if any(all(case["counts"][i][j] == 0 and case["counts"][j][i] == 0 for j in range(n)) for i in range(n)):
        cl.append("has_unvisited_state")
    if all(v == 0 for v in flat):
        cl.append("all_zero")
    nt = len(comps) >= 2 and (rm["oneway"] or not_largest or not_first)
    return nt, cl


# ---------------------------------------------------------------------------------------------------------
# building the real arguments

def build(case, container=None, variant=None):
    counts = case["counts"]
    n = len(counts)
    arr = np.array(counts, dtype=case.get("dtype", "int64")).reshape(n, n)
    c = container or case.get("container", "ndarray")
    v = variant if container is not None else case.get("variant", "plain")
    v = v or "plain"
    if c == "ndarray":
        if v == "F":
            return np.asfortranarray(arr)
        if v == "strided":
            big = np.full((2 * n, 2 * n + 1), 7, dtype=arr.dtype)
            big[::2, 1::2] = arr
            return big[::2, 1::2]
        if v == "readonly":
            x = arr.copy()
            x.setflags(write=False)
            return x
        if v == "npmatrix":
            # what `sparse.todense()` hands back: an ndarray sub-class whose `*` is the matrix product
            with warnings.catch_warnings():
                warnings.simplefilter("ignore")
                return np.matrix(arr)
        return arr
    cls = getattr(scipy.sparse, c)
    fmt, kind = c.split("_")
    if v in ("dup", "explicit_zero") and fmt in ("coo", "csr", "csc"):
        coo_cls = getattr(scipy.sparse, "coo_" + kind)
        r, cc = np.nonzero(arr)
        d = arr[r, cc]
        if v == "dup":
            big = d >= 2
            rows = np.concatenate([r, r[big]])
            cols = np.concatenate([cc, cc[big]])
            data = np.concatenate([np.where(big, d - 1, d), np.ones(int(big.sum()), dtype=arr.dtype)]).astype(arr.dtype)
        else:
            zr, zc = np.nonzero(arr == 0)
            zr, zc = zr[:3], zc[:3]
            rows = np.concatenate([zr, r])
            cols = np.concatenate([zc, cc])
            data = np.concatenate([np.zeros(len(zr), dtype=arr.dtype), d]).astype(arr.dtype)
        x = coo_cls((data, (rows, cols)), shape=(n, n))
        return x if fmt == "coo" else cls(x)
    return cls(arr)


def snapshot(x):
    """Everything observable about the input container, for the 'input unchanged' clause."""
    if isinstance(x, np.ndarray):
        return {"arr": x.copy(), "dtype": str(x.dtype), "shape": x.shape, "strides": x.strides,
                "writeable": bool(x.flags.writeable)}
    s = {"type": type(x).__name__, "dtype": str(x.dtype), "shape": tuple(x.shape), "arr": np.asarray(x.toarray()).copy()}
    for name in ("data", "indices", "indptr", "row", "col", "offsets"):
        if hasattr(x, name) and isinstance(getattr(x, name), np.ndarray) and getattr(x, name).dtype != object:
            s[name] = np.array(getattr(x, name), copy=True)
    if x.format == "lil":
        s["lil_rows"] = [list(r) for r in x.rows]
        s["lil_data"] = [list(r) for r in x.data]
    if x.format == "dok":
        s["dok_items"] = sorted(((int(i), int(j)), v.item() if hasattr(v, "item") else v) for (i, j), v in x.items())
    return s


def same_snapshot(a, b):
    if set(a) != set(b):
        return False, "attribute set"
    for k in a:
        if isinstance(a[k], np.ndarray):
            if a[k].shape != b[k].shape or a[k].dtype != b[k].dtype or not np.array_equal(a[k], b[k]):
                return False, k
        elif a[k] != b[k]:
            return False, k
    return True, ""


def dense(T):
    if scipy.sparse.issparse(T):
        return np.asarray(T.toarray())
    return np.asarray(T)


def norm_mapping(mapping, what="to_original"):
    d = getattr(mapping, what)
    require(isinstance(d, dict), "mapping.%s is not a dict" % what, got=type(d).__name__)
    out = {}
    for k, v in d.items():
        require(isinstance(k, numbers.Integral) and isinstance(v, numbers.Integral),
                "mapping.%s holds non-integer ids" % what, key=repr(k), value=repr(v))
        out[int(k)] = int(v)
    require(len(out) == len(d), "mapping.%s has colliding keys" % what)
    return out


def call(case, renumber=None, container=None, variant=None, x=None):
    """One library call. renumber None -> case['renumber']. Returns (to_original dict, dense trimmed, raw trimmed,
    input object, mapping)."""
    if x is None:
        x = build(case, container, variant)
    thr = case["threshold"]
    ren = case.get("renumber", True) if renumber is None else renumber
    if case.get("defaults") and thr == 1 and ren:
        mapping, T = trim_disconnected(x)
    elif case.get("positional"):
        mapping, T = trim_disconnected(x, thr, ren)
    else:
        mapping, T = trim_disconnected(x, threshold=thr, renumber_states=ren)
    require(isinstance(mapping, TrimMapping), "first return value is not a TrimMapping", got=type(mapping).__name__)
    require(isinstance(T, np.ndarray) or scipy.sparse.issparse(T), "trimmed counts are neither ndarray nor sparse",
            got=type(T).__name__)
    D = dense(T)
    require(D.ndim == 2 and D.shape[0] == D.shape[1], "trimmed counts are not a square matrix", shape=D.shape)
    return norm_mapping(mapping), D, T, x, mapping


def as_py(D):
    """Dense result -> nested python numbers (exact for the integer data generated here)."""
    # (python ints stay python ints: 2**53 + 1 is not a float)
    return [[(v if isinstance(v, int) and not isinstance(v, bool) else int(v) if float(v).is_integer() else float(v)) for v in row]
            for row in D.tolist()]


def kept_of(to_orig):
    return tuple(sorted(set(to_orig.values())))


def common_classes(case):
    cl = ["container=%s" % case.get("container", "ndarray"), "dtype=%s" % case.get("dtype", "int64"),
          "renumber=%s" % case.get("renumber", True)]
    if case.get("variant", "plain") != "plain":
        cl.append("variant=%s/%s" % (case.get("container", "ndarray").split("_")[0], case["variant"]))
    if case.get("defaults") and case["threshold"] == 1 and case.get("renumber", True):
        cl.append("call=all_defaults")
    return cl


def finish(case, rm):
    nt, cl = classes_of(case, rm)
    return Info(nt, cl + common_classes(case))


# ---------------------------------------------------------------------------------------------------------
# strategies

NS_SMALL = [1, 2, 2, 3, 3, 4, 4, 5, 5, 6, 6, 7, 8]
NS_LARGE = [1, 2, 3, 4, 5, 6, 7, 8, 9, 9, 10, 10, 11, 11, 12, 12, 13, 13, 14, 14]
NS_BIG = [15, 16, 17, 18, 20, 24, 31, 32, 33, 40]      # beyond small-array special cases of sorting / indexing routines


@st.composite
def count_matrix(draw, max_n=8):
    n = draw(st.sampled_from(NS_SMALL if max_n <= 8 else NS_LARGE if max_n <= 14 else NS_BIG))
    thr = draw(st.sampled_from([1, 1, 2, 2, 3, 4]))
    mode = draw(st.sampled_from(["blocks", "blocks", "blocks", "random", "trap", "huge_near_tie"]))
    if mode == "trap" and n >= 5:
        # three cycles A, B, C: A feeds B through a one-way link (one weakly connected piece, two components), C stands
        # alone and is heavier than A and than B, yet lighter than A and B together: the heaviest component is NOT in
        # the heaviest weakly connected piece
        perm = draw(st.permutations(list(range(n))))
        sa = draw(st.integers(2, max(2, (n - 1) // 2)))
        sb = draw(st.integers(1, max(1, n - sa - 2)))
        A_, B_, C_ = list(perm[:sa]), list(perm[sa:sa + sb]), list(perm[sa + sb:])
        Cm = [[0] * n for _ in range(n)]

        def cyc(mem, w):
            if len(mem) == 1:
                Cm[mem[0]][mem[0]] = w
            for a_ in range(len(mem)):
                if len(mem) > 1:
                    Cm[mem[a_]][mem[(a_ + 1) % len(mem)]] = w
        wa = thr + draw(st.integers(0, 5))
        cyc(A_, wa)
        cyc(B_, wa)
        Cm[A_[0]][B_[0]] = thr                                   # one-way link inside the heavy piece
        ta, tb = sum(sum(Cm[i]) for i in A_), sum(sum(Cm[i]) for i in B_)
        target = (max(ta, tb) + ta + tb) // 2 + 1
        cyc(C_, max(thr, -(-target // max(1, len(C_)))))
        return Cm, thr, "trap"
    if mode == "huge_near_tie" and n >= 4:
        # two components whose totals exceed 2**53 and differ by one or two counts (exact in integers, equal as doubles)
        perm = draw(st.permutations(list(range(n))))
        big = draw(st.sampled_from([2 ** 52, 2 ** 53, 2 ** 60]))
        Cm = [[0] * n for _ in range(n)]
        a0, a1, b0, b1 = perm[0], perm[1], perm[2], perm[3]
        Cm[a0][a1], Cm[a1][a0] = big, big
        Cm[b0][b1], Cm[b1][b0] = big, big + draw(st.sampled_from([1, 2, -1]))
        for k in perm[4:]:
            Cm[k][k] = draw(st.integers(0, 9))
        return Cm, thr, "huge_near_tie"
    if mode in ("trap", "huge_near_tie"):
        mode = "blocks"
    u = draw(st.lists(st.integers(0, 99), min_size=n * n, max_size=n * n))
    v = draw(st.lists(st.integers(0, 3), min_size=n * n, max_size=n * n))
    C = [[0] * n for _ in range(n)]
    if mode == "random":
        dens = draw(st.sampled_from([15, 30, 50, 70, 90]))
        hi = draw(st.sampled_from([1, thr, thr + 1, thr + 1, thr + 3]))
        for i in range(n):
            for j in range(n):
                if u[i * n + j] < dens:
                    C[i][j] = 1 + (v[i * n + j] + u[i * n + j]) % hi if hi == 1 or v[i * n + j] == 0 \
                        else max(1, thr - 1 + (v[i * n + j] + u[i * n + j]) % 3)
        return C, thr, mode
    nb = draw(st.integers(1, min(n, 4)))
    # every block non-empty: the first nb states of a drawn permutation seed the blocks, the rest get drawn labels
    seeds = draw(st.permutations(list(range(n))))[:nb] if n > 1 else [0]
    labels = draw(st.lists(st.integers(0, nb - 1), min_size=n, max_size=n))
    for b, s in enumerate(seeds):
        labels[s] = b
    members = [[i for i in range(n) if labels[i] == b] for b in range(nb)]
    kinds = [draw(st.sampled_from(["cycle", "cycle", "cycle", "dense", "dense", "selfloop", "isolated"]))
             for _ in range(nb)]
    # how weight is distributed over the blocks:
    #   free         independent boost per block
    #   small_heavy  the smallest connected block gets all the boost (heaviest != largest)
    #   noise_heavy  one block gets its weight from sub-threshold counts only (needs threshold > 1), so ranking by
    #                thresholded counts would pick another block
    weighting = draw(st.sampled_from(["free", "free", "small_heavy", "noise_heavy"]))
    if weighting == "noise_heavy" and thr == 1:
        weighting = "small_heavy"
    boost = [draw(st.sampled_from([0, 0, 5, 40])) for _ in range(nb)]
    noise = [draw(st.sampled_from([0, 0, 30, 100])) for _ in range(nb)]
    if weighting == "small_heavy":
        conn = [b for b in range(nb) if kinds[b] != "isolated"] or [0]
        big = max(len(m) for m in members)
        conn = [b for b in conn if len(members[b]) < big] or conn                   # strictly smaller than the largest
        tgt = min(conn, key=lambda b: (len(members[b]) < 2, len(members[b]), b))   # prefer >= 2 states
        boost = [40 if b == tgt else 0 for b in range(nb)]
    elif weighting == "noise_heavy":
        tgt = max(range(nb), key=lambda b: (len(members[b]), -b))                   # most rows -> most noise
        boost = [0 if b == tgt else 3 for b in range(nb)]
        noise = [100 if b == tgt else 0 for b in range(nb)]
        kinds[tgt] = "cycle"
    for b in range(nb):
        kind, mem = kinds[b], members[b]
        if kind in ("cycle", "dense"):
            order = draw(st.permutations(mem)) if len(mem) > 1 else mem
            k = len(order)
            if k == 1:
                i = order[0]
                if v[i * n + i] % 2:
                    C[i][i] = thr + v[i * n + i] + boost[b]
            else:
                for a in range(k):
                    i, j = order[a], order[(a + 1) % k]
                    C[i][j] = thr + v[i * n + j] + boost[b]
            if kind == "dense":
                for i in mem:
                    for j in mem:
                        if C[i][j] == 0 and u[i * n + j] < 60:
                            C[i][j] = thr + v[i * n + j] + boost[b]
        elif kind == "selfloop":
            for i in mem:
                C[i][i] = thr + v[i * n + i] + boost[b]
        # isolated: nothing at or above the threshold inside the block
    link = draw(st.sampled_from([0, 20, 50]))
    for i in range(n):
        for j in range(n):
            if C[i][j]:
                continue
            if labels[i] < labels[j] and u[i * n + j] < link:
                C[i][j] = thr + v[i * n + j]                     # one-way link, lower -> higher block
            elif thr > 1 and u[i * n + j] >= 100 - noise[labels[i]]:
                C[i][j] = 1 + v[i * n + j] % (thr - 1)           # carries weight, never connectivity
    return C, thr, mode + "/" + weighting


def _variant_for(draw, container):
    if container == "ndarray":
        return draw(st.sampled_from(["plain", "plain", "F", "strided", "readonly", "npmatrix"]))
    if container.split("_")[0] in ("coo", "csr", "csc"):
        return draw(st.sampled_from(["plain", "plain", "dup", "explicit_zero"]))
    return "plain"


@st.composite
def trim_case(draw, max_n=8, containers=None, renumber=None):
    C, thr, mode = draw(count_matrix(max_n=max_n))
    if containers is None:
        container = draw(st.sampled_from(["ndarray", "ndarray", "sparse_matrix", "sparse_matrix", "sparse_matrix",
                                          "sparse_array", "sparse_array"]))
        if container == "sparse_matrix":
            container = draw(st.sampled_from(SPM))
        elif container == "sparse_array":
            container = draw(st.sampled_from(SPA))
    else:
        container = draw(st.sampled_from(containers))
    dtype = draw(st.sampled_from(DTYPES))
    if mode == "huge_near_tie":
        dtype = "int64"
    if np.issubdtype(np.dtype(dtype), np.integer) and np.dtype(dtype).itemsize < 8 and draw(st.integers(0, 2)) == 0:
        # every entry representable in the (narrow) dtype, row totals far beyond its range
        top = max(max(r) for r in C)
        if top > 0:
            f = int(np.iinfo(dtype).max) // top
            C = [[c * f for c in r] for r in C]
            if draw(st.booleans()):
                thr = thr * f
            mode += "/near_dtype_max"
    case = {"counts": C, "threshold": thr, "gen": mode, "container": container,
            "variant": _variant_for(draw, container),
            "dtype": dtype,
            "renumber": draw(st.booleans()) if renumber is None else renumber,
            "defaults": draw(st.booleans()), "positional": draw(st.booleans())}
    return case


# ---------------------------------------------------------------------------------------------------------
# clauses about trim_disconnected

def run_heaviest(case):
    """'keeps exactly the states of the SCC (w.r.t. counts >= threshold) whose states carry the largest total count'"""
    rm = ref_model(case["counts"], case["threshold"])
    to_orig, D, T, x, _ = call(case)
    kept = kept_of(to_orig)
    require(all(0 <= i < rm["n"] for i in kept), "kept state ids out of range", kept=kept, n=rm["n"])
    require(kept in set(rm["comps"]),
            "kept states are not exactly one strongly connected component of counts >= threshold",
            kept=kept, sccs=rm["comps"], counts=case["counts"], threshold=case["threshold"])
    w = rm["w"][rm["comps"].index(kept)]
    require(w == rm["wmax"], "kept component is not one with the largest total count",
            kept=kept, kept_weight=w, sccs=rm["comps"], weights=rm["w"], counts=case["counts"],
            threshold=case["threshold"])
    if case.get("renumber", True):
        require(D.shape == (len(kept), len(kept)), "renumbered matrix has a different number of states than kept",
                shape=D.shape, kept=kept)
    return finish(case, rm)


def run_connected(case):
    """'the trimmed matrix is strongly connected'"""
    rm = ref_model(case["counts"], case["threshold"])
    thr = case["threshold"]
    to_orig, D, T, x, _ = call(case)
    if case.get("renumber", True):
        sub = D
    else:
        kept = list(kept_of(to_orig))
        require(D.shape == (rm["n"], rm["n"]), "in-place result changed shape", shape=D.shape)
        sub = D[np.ix_(kept, kept)]
        # every state that still has any count must be a kept one
        live = sorted(set(np.flatnonzero(D.sum(axis=0)).tolist()) | set(np.flatnonzero(D.sum(axis=1)).tolist()))
        require(set(live) <= set(kept), "in-place result has counts on states outside the mapping", live=live, kept=kept)
    require(sub.shape[0] >= 1, "trimmed model has no states")
    R = closure((sub >= thr) & (sub > 0))
    require(bool(R.all()), "trimmed matrix is not strongly connected at the threshold",
            trimmed=as_py(sub), threshold=thr, counts=case["counts"])
    return finish(case, rm)


def run_submatrix(case):
    """'keeps the original counts between kept states' (renumbered variant)"""
    case = dict(case, renumber=True)
    rm = ref_model(case["counts"], case["threshold"])
    to_orig, D, T, x, _ = call(case)
    kept = kept_of(to_orig)
    want = [[case["counts"][i][j] for j in kept] for i in kept]
    require(as_py(D) == want, "renumbered matrix != counts[kept][:, kept]", got=as_py(D), want=want, kept=kept,
            counts=case["counts"], threshold=case["threshold"])
    require(np.issubdtype(D.dtype, np.number) and D.dtype != object, "trimmed counts have a non-numeric dtype",
            dtype=str(D.dtype))
    return finish(case, rm)


def run_inplace(case):
    """'keeps the original counts between kept states and has no counts on removed states' (in-place variant)"""
    case = dict(case, renumber=False)
    rm = ref_model(case["counts"], case["threshold"])
    n = rm["n"]
    to_orig, D, T, x, _ = call(case)
    kept = set(kept_of(to_orig))
    want = [[case["counts"][i][j] if (i in kept and j in kept) else 0 for j in range(n)] for i in range(n)]
    require(D.shape == (n, n), "in-place variant changed the shape", got=D.shape, n=n)
    require(as_py(D) == want, "in-place matrix != original with removed rows/columns zeroed", got=as_py(D), want=want,
            kept=sorted(kept), counts=case["counts"], threshold=case["threshold"])
    return finish(case, rm)


def run_mapping(case):
    """'the returned mapping is an order-preserving one-to-one correspondence between new and original state ids'"""
    rm = ref_model(case["counts"], case["threshold"])
    n = rm["n"]
    to_orig, D, T, x, mapping = call(case)
    to_mapped = norm_mapping(mapping, "to_mapped")
    new_ids = sorted(to_orig)
    old_ids = [to_orig[k] for k in new_ids]
    require(len(set(old_ids)) == len(old_ids), "two new ids map to the same original id", to_original=to_orig)
    require(all(0 <= o < n for o in old_ids), "original ids out of range", to_original=to_orig, n=n)
    require(all(a < b for a, b in zip(old_ids, old_ids[1:])),
            "mapping is not order preserving (original id must increase with new id)", to_original=to_orig)
    if case.get("renumber", True):
        require(new_ids == list(range(D.shape[0])),
                "new ids are not exactly 0..k-1 of the renumbered matrix", to_original=to_orig, k=D.shape[0])
    else:
        require(new_ids == old_ids, "in-place variant must map every kept id to itself", to_original=to_orig)
    # it has to be the correspondence of the sub-matrix: new state i IS original state to_original[i]
    require(tuple(old_ids) in set(rm["comps"]), "mapped original ids are not a component", to_original=to_orig,
            sccs=rm["comps"])
    if case.get("renumber", True):
        want = [[case["counts"][i][j] for j in old_ids] for i in old_ids]
        require(as_py(D) == want, "trimmed[a][b] != counts[to_original[a]][to_original[b]]", got=as_py(D), want=want,
                to_original=to_orig)
    # inverse direction
    require(to_mapped == {o: k for k, o in to_orig.items()}, "to_mapped is not the inverse of to_original",
            to_original=to_orig, to_mapped=to_mapped)
    require(all(to_orig[to_mapped[o]] == o for o in old_ids), "to_original(to_mapped(o)) != o")
    # a mapping rebuilt from (original, new) pairs, the documented constructor form, is the same mapping
    rebuilt = TrimMapping([(o, k) for k, o in to_orig.items()])
    require(mapping == rebuilt and rebuilt == mapping, "mapping != TrimMapping([(original, new), ...]) of its own pairs",
            to_original=to_orig)
    return finish(case, rm)


def run_variants(case):
    """'the renumbered and in-place variants describe the same model'"""
    rm = ref_model(case["counts"], case["threshold"])
    n = rm["n"]
    mo_r, D_r, _, _, _ = call(case, renumber=True)
    mo_i, D_i, _, _, _ = call(case, renumber=False)
    kept_r, kept_i = kept_of(mo_r), kept_of(mo_i)
    require(kept_r == kept_i, "renumbered and in-place variants keep different states", renumbered=kept_r,
            inplace=kept_i, counts=case["counts"], threshold=case["threshold"])
    require(sorted(mo_i) == list(kept_i), "in-place mapping keys are not the kept ids", to_original=mo_i)
    require([mo_r[k] for k in sorted(mo_r)] == sorted(mo_i),
            "renumbered to_original is not the sorted list of in-place ids", renumbered=mo_r, inplace=mo_i)
    k = list(kept_r)
    require(D_i.shape == (n, n) and D_r.shape == (len(k), len(k)), "unexpected shapes", inplace=D_i.shape,
            renumbered=D_r.shape)
    require(as_py(D_i[np.ix_(k, k)]) == as_py(D_r), "in-place[kept][:, kept] != renumbered matrix",
            inplace=as_py(D_i), renumbered=as_py(D_r), kept=k)
    # embedding the renumbered model back at the original ids reproduces the in-place one
    emb = np.zeros((n, n), dtype=D_r.dtype)
    emb[np.ix_(k, k)] = D_r
    require(as_py(emb) == as_py(D_i), "in-place variant has counts outside the kept block", inplace=as_py(D_i),
            kept=k)
    require(int(D_i.sum()) == int(D_r.sum()), "total counts differ between variants")
    return finish(case, rm)


def run_container(case):
    """'... and keep their container type'"""
    rm = ref_model(case["counts"], case["threshold"])
    to_orig, D, T, x, _ = call(case)
    require(type(T) is type(x), "container type not preserved", given=type(x).__name__, got=type(T).__name__,
            renumber=case.get("renumber", True))
    if scipy.sparse.issparse(x):
        require(T.format == x.format, "sparse format changed", given=x.format, got=T.format)
    k = len(kept_of(to_orig))
    want_shape = (k, k) if case.get("renumber", True) else (rm["n"], rm["n"])
    require(tuple(T.shape) == want_shape, "wrong shape of returned container", got=tuple(T.shape), want=want_shape)
    return finish(case, rm)


def run_dense_sparse(case):
    """'dense and sparse inputs agree' - differential over every container, both variants"""
    rm = ref_model(case["counts"], case["threshold"])
    for ren in (True, False):
        base_map, base_D, base_T, _, _ = call(case, renumber=ren, container="ndarray", variant="plain")
        for c in SPM + SPA + ["ndarray"]:
            variants = ["plain"]
            if c.split("_")[0] in ("coo", "csr", "csc") and case.get("variant") in ("dup", "explicit_zero"):
                variants.append(case["variant"])
            if c == "ndarray":
                variants = ["F", "strided"]
            for v in variants:
                m, D, T, x, _ = call(case, renumber=ren, container=c, variant=v)
                require(m == base_map, "mapping differs between ndarray and %s" % c, dense=base_map, other=m,
                        renumber=ren, variant=v, counts=case["counts"], threshold=case["threshold"])
                require(D.shape == base_D.shape and as_py(D) == as_py(base_D),
                        "trimmed counts differ between ndarray and %s" % c, dense=as_py(base_D), other=as_py(D),
                        renumber=ren, variant=v)
                require(type(T) is type(x), "container type not preserved for %s" % c, got=type(T).__name__)
    nt, cl = classes_of(case, rm)
    return Info(nt, cl + ["dtype=%s" % case.get("dtype", "int64"), "variant=%s" % case.get("variant", "plain")])


def run_unchanged(case):
    """'input unchanged' - the caller's matrix is not modified by either variant"""
    rm = ref_model(case["counts"], case["threshold"])
    x = build(case)
    before = snapshot(x)
    to_orig, D, T, _, _ = call(case, x=x)
    after = snapshot(x)
    ok, where = same_snapshot(before, after)
    require(ok, "input container was modified by trim_disconnected (%s)" % where, container=case.get("container"),
            renumber=case.get("renumber", True), before=before["arr"].tolist(), after=after["arr"].tolist())
    require(as_py(after["arr"]) == case["counts"], "input values changed", after=after["arr"].tolist())
    require(T is not x, "the input object itself was returned")
    if isinstance(x, np.ndarray) and isinstance(T, np.ndarray):
        require(not np.shares_memory(T, x), "result shares memory with the input")
        if x.flags.writeable and T.size and T.flags.writeable:
            T[...] = 0                     # writing to the result must not reach the input
            require(as_py(x) == case["counts"], "writing to the result changed the input")
    return finish(case, rm)


# ---------------------------------------------------------------------------------------------------------
# MSM clause

@st.composite
def assigns_case(draw, max_states=7, max_traj=6, max_len=14):
    n = draw(st.sampled_from([1, 2, 3, 3, 4, 4, 5, 5, 6, 7][:max(1, min(10, max_states + 3))]
                             + list(range(8, max_states + 1))))
    lag = draw(st.sampled_from([1, 1, 2, 3]))
    ntraj = draw(st.integers(1, max_traj))
    trajs = []
    for _ in range(ntraj):
        kind = draw(st.sampled_from(["confined", "confined", "confined", "hop", "any"]))
        if kind == "confined":
            subset = draw(st.lists(st.integers(0, n - 1), min_size=1, max_size=4, unique=True))
            L = draw(st.sampled_from([1, 3, 5, 8, max_len, 2 * max_len]))
            trajs.append(draw(st.lists(st.sampled_from(subset), min_size=L, max_size=L)))
        elif kind == "hop":
            a, b = draw(st.integers(0, n - 1)), draw(st.integers(0, n - 1))
            reps = draw(st.integers(1, 3))
            trajs.append([a] * lag + [b] * reps)
        else:
            L = draw(st.integers(1, max_len))
            trajs.append(draw(st.lists(st.integers(0, n - 1), min_size=L, max_size=L)))
    obs = max(max(t) for t in trajs) + 1
    mns = draw(st.sampled_from([None, None, "obs", "extra"]))
    max_n_states = None if mns is None else obs if mns == "obs" else obs + draw(st.integers(1, 3))
    return {"trajs": trajs, "lag": lag, "max_n_states": max_n_states,
            "how": draw(st.sampled_from(["padded", "padded_extra", "ragged"])),
            "dtype": draw(st.sampled_from(["int64", "int32"])),
            "method": draw(st.sampled_from(["normalize", "normalize_by_name", "passthrough"])),
            "ctor": draw(st.sampled_from(["init", "from_assignments"])),
            "edit": draw(st.sampled_from([None, None, {"to": 0}, {"to": 1}, {"to": 2}]))}


def build_assigns(case):
    trajs, dt = case["trajs"], case["dtype"]
    if case["how"] == "ragged":
        return ra.RaggedArray([np.array(t, dtype=dt) for t in trajs])
    m = max(len(t) for t in trajs) + (2 if case["how"] == "padded_extra" else 0)
    a = -np.ones((len(trajs), m), dtype=dt)
    for i, t in enumerate(trajs):
        a[i, :len(t)] = t
    return a


def _passthrough(C, **kw):
    return C, C, None


def _edited(case):
    """(trajs after the in-place edit, function applying the edit to the built assignments) - states of the highest id
    are lumped into another state with a mask assignment on the assignments object before it is fitted"""
    trajs = case["trajs"]
    ed = case.get("edit")
    if not ed:
        return trajs, (lambda a: a)
    top = max(max(t) for t in trajs)
    tgt = ed["to"] % (top + 1)
    if tgt == top:
        return trajs, (lambda a: a)
    new = [[tgt if v == top else v for v in t] for t in trajs]

    def apply(a):
        a[a == top] = tgt
        return a
    return new, apply


def run_msm(case):
    """'a model fitted with trimming reports the same mapping'"""
    trajs, apply_edit = _edited(case)
    orig_build = build_assigns
    case_b = dict(case)
    lag = case["lag"]

    def build_assigns_edited(c):
        return apply_edit(orig_build(c))
    return _run_msm(dict(case, trajs=trajs), build_assigns_edited, case_b)


def _run_msm(case, build_assigns, case_for_build):
    trajs, lag = case["trajs"], case["lag"]
    obs = max(max(t) for t in trajs) + 1
    n = case["max_n_states"] or obs
    R = [[0] * n for _ in range(n)]
    for t in trajs:
        for i in range(len(t) - lag):
            R[t[i]][t[i + lag]] += 1
    rm = ref_model(R, 1)
    method = {"normalize": builders.normalize, "normalize_by_name": "normalize", "passthrough": _passthrough}[case["method"]]
    kw = dict(lag_time=lag, method=method, trim=True, max_n_states=case["max_n_states"])
    if case["max_n_states"] is None:
        kw.pop("max_n_states")
    if case["ctor"] == "init":
        m = MSM(**kw)
        m.fit(build_assigns(case_for_build))
    else:
        m = MSM.from_assignments(build_assigns(case_for_build), **kw)
    got = norm_mapping(m.mapping_)
    # differential part of the sentence: same mapping as the function on the function's counts
    fC = assigns_to_counts(build_assigns(case_for_build), lag, max_n_states=case["max_n_states"])
    require(as_py(dense(fC)) == R, "assigns_to_counts differs from the literal pair count (see C03)",
            got=as_py(dense(fC)), want=R)
    fmap, fT = trim_disconnected(fC)
    fm = norm_mapping(fmap)
    require(got == fm, "MSM(trim=True).mapping_ != trim_disconnected(assigns_to_counts(...)) mapping",
            msm=got, function=fm, counts=R)
    require(m.mapping_ == fmap and fmap == m.mapping_, "TrimMapping.__eq__ says the mappings differ", msm=got, function=fm)
    require(norm_mapping(m.mapping_, "to_mapped") == {o: k for k, o in got.items()}, "to_mapped not inverse", msm=got)
    # independent part: the model's mapping/tcounts_ are the heaviest SCC of the literal counts
    kept = kept_of(got)
    require(kept in set(rm["comps"]), "MSM kept states are not one SCC of the observed transitions", kept=kept,
            sccs=rm["comps"], counts=R)
    require(rm["w"][rm["comps"].index(kept)] == rm["wmax"], "MSM kept component is not the heaviest", kept=kept,
            sccs=rm["comps"], weights=rm["w"])
    require(sorted(got) == list(range(len(kept))) and [got[k] for k in sorted(got)] == list(kept),
            "MSM mapping is not the order-preserving renumbering of the kept states", msm=got)
    tc = dense(m.tcounts_)
    want = [[R[i][j] for j in kept] for i in kept]
    require(as_py(tc) == want, "MSM.tcounts_ != counts[kept][:, kept]", got=as_py(tc), want=want, kept=kept)
    require(as_py(tc) == as_py(dense(fT)), "MSM.tcounts_ != function's trimmed counts")
    require(m.n_states_ == len(kept) if case["method"] != "passthrough" else True, "n_states_ != number of kept states")
    fake = {"counts": R, "threshold": 1, "gen": "assigns"}
    nt, cl = classes_of(fake, rm)
    return Info(nt, cl + ["how=%s" % case["how"], "method=%s" % case["method"], "ctor=%s" % case["ctor"],
                          "mns=%s" % ("None" if case["max_n_states"] is None else "given"), "lag=%d" % lag])


# ---------------------------------------------------------------------------------------------------------
# exhaustive sub-domains

EXH_CONT = ["ndarray", "csr_matrix", "ndarray", "coo_matrix", "ndarray", "csc_matrix", "lil_matrix", "dok_matrix",
            "dia_matrix", "bsr_matrix", "csr_array", "coo_array"]


def _enum(specs, shard, nshards, renumber_from_idx=True):
    import itertools
    idx = 0
    for n, values, thresholds in specs:
        for flat in itertools.product(values, repeat=n * n):
            for thr in thresholds:
                idx += 1
                if idx % nshards != shard:
                    continue
                k = idx // nshards
                yield {"counts": [list(flat[i * n:(i + 1) * n]) for i in range(n)], "threshold": thr,
                       "gen": "exhaustive", "container": EXH_CONT[k % len(EXH_CONT)], "variant": "plain",
                       "dtype": "int64", "renumber": bool((k // len(EXH_CONT)) % 2), "defaults": False,
                       "positional": False}


def exhaustive_small(tier, shard, nshards):
    if tier == "thorough":
        specs = [(3, (0, 1, 2), (1, 2)), (4, (0, 1), (1,))]
    else:
        specs = [(1, (0, 1, 2), (1, 2)), (2, (0, 1, 2), (1, 2)), (3, (0, 1), (1,))]
    return _enum(specs, shard, nshards)


# ---------------------------------------------------------------------------------------------------------
# more than a thousand states (seeded, planted components: the answer is known by construction)

@st.composite
def planted_case(draw):
    return {"n": draw(st.sampled_from([1023, 1024, 1025, 1030, 1500, 2047, 2049, 2100])), "seed": draw(st.integers(0, 2 ** 31 - 1)),
            "threshold": draw(st.sampled_from([1, 2, 2, 3, 5])), "nblocks": draw(st.integers(2, 6)),
            "container": draw(st.sampled_from(["ndarray", "csr_matrix", "coo_matrix", "lil_matrix"])),
            "renumber": draw(st.booleans()), "heavy": draw(st.sampled_from(["last", "last", "first", "any"]))}


def run_planted(case):
    rng = np.random.RandomState(case["seed"])            # seed drawn by Hypothesis
    n, thr, nb = case["n"], case["threshold"], case["nblocks"]
    cuts = np.sort(rng.choice(np.arange(1, n), size=nb - 1, replace=False))
    if case["heavy"] in ("last", "any"):
        # a short last block sitting entirely in the rows beyond the last multiple of 1024
        cuts[-1] = max(cuts[-2] + 1 if nb > 2 else 1, n - 1 - rng.randint(2, 5))
    edges = np.concatenate([[0], cuts, [n]]).astype(int)
    blocks = [np.arange(edges[b], edges[b + 1]) for b in range(nb)]
    rows, cols, vals = [], [], []
    for b, mem in enumerate(blocks):
        k = len(mem)
        if k == 1:
            rows.append(mem); cols.append(mem); vals.append(np.array([thr + 1]))
        else:
            rows.append(mem); cols.append(np.roll(mem, -1)); vals.append(rng.randint(thr, thr + 4, size=k))
    heavy = {"last": nb - 1, "first": 0, "any": int(rng.randint(nb))}[case["heavy"]]
    r = np.concatenate(rows); c = np.concatenate(cols); v = np.concatenate(vals).astype(np.int64)
    C = scipy.sparse.coo_matrix((v, (r, c)), shape=(n, n)).tolil()
    # the heavy block gets one big count on an edge it already has
    hb = blocks[heavy]
    C[hb[0], hb[1 % len(hb)] if len(hb) > 1 else hb[0]] += 10 * n * (thr + 4)
    # bridges between consecutive blocks in both directions: below the threshold (carry weight, never connectivity) when
    # thr >= 2, one-way only when thr == 1
    for b in range(nb - 1):
        i, j = int(blocks[b][-1]), int(blocks[b + 1][0])
        if thr >= 2:
            C[i, j] = thr - 1
            C[j, i] = thr - 1
        else:
            C[i, j] = 1
    dense_C = np.asarray(C.toarray())
    x = dense_C.copy() if case["container"] == "ndarray" else getattr(scipy.sparse, case["container"])(C)
    mapping, T = trim_disconnected(x, threshold=thr, renumber_states=case["renumber"])
    to_orig = norm_mapping(mapping)
    kept = sorted(to_orig.values())
    want = [int(s_) for s_ in hb]
    require(kept == want, "trimming a planted %d-state matrix did not keep exactly the heaviest component" % n,
            n_kept=len(kept), n_want=len(want), first_kept=kept[:5], first_want=want[:5], last_kept=kept[-5:], last_want=want[-5:],
            threshold=thr, blocks=[int(e) for e in edges])
    D = dense(T)
    if case["renumber"]:
        require(D.shape == (len(want), len(want)) and np.array_equal(D, dense_C[np.ix_(want, want)]),
                "renumbered matrix != counts[kept][:, kept] (planted)")
    else:
        emb = np.zeros_like(dense_C)
        emb[np.ix_(want, want)] = dense_C[np.ix_(want, want)]
        require(D.shape == dense_C.shape and np.array_equal(D, emb), "in-place variant: counts outside the kept block survive")
    require(np.array_equal(np.asarray(x.toarray() if scipy.sparse.issparse(x) else x), dense_C), "the caller's matrix was changed")
    tail = n % 1024 != 0 and n > 1024 and edges[heavy] >= (n // 1024) * 1024
    return Info(n > 1024 and thr >= 2, ["planted_n=%d" % n, "planted_thr=%d" % thr, "planted_container=" + case["container"],
                                         "heavy_in_last_partial_1024_block=%s" % tail],
                key=[n, case["seed"], thr, nb, case["container"], case["renumber"], case["heavy"]])


CLAUSES = [
    Clause("heaviest_scc", trim_case(), run_heaviest, quick=1600, thorough=30000, exhaustive=exhaustive_small),
    Clause("strongly_connected", trim_case(), run_connected, quick=800, thorough=16000, exhaustive=exhaustive_small),
    Clause("submatrix", trim_case(renumber=True), run_submatrix, quick=800, thorough=16000,
           exhaustive=exhaustive_small),
    Clause("inplace", trim_case(renumber=False), run_inplace, quick=800, thorough=16000, exhaustive=exhaustive_small),
    Clause("mapping", trim_case(), run_mapping, quick=1000, thorough=16000, exhaustive=exhaustive_small),
    Clause("variants_agree", trim_case(), run_variants, quick=800, thorough=16000, exhaustive=exhaustive_small),
    Clause("container_type", trim_case(), run_container, quick=1200, thorough=16000),
    Clause("dense_sparse_agree", trim_case(containers=["coo_matrix", "csr_matrix", "csc_array"]), run_dense_sparse,
           quick=250, thorough=4000),
    Clause("input_unchanged", trim_case(), run_unchanged, quick=1000, thorough=16000),
    Clause("msm_mapping", assigns_case(), run_msm, quick=500, thorough=10000),
    Clause("planted_thousands", planted_case(), run_planted, quick=24, thorough=300,
           doc="1023..2100 states with planted components (answer known by construction), thresholds 1..5"),
    Clause("mapping_big", trim_case(max_n=40), run_mapping, quick=60, thorough=1500),
    Clause("submatrix_big", trim_case(max_n=40), run_submatrix, quick=60, thorough=1500),
    Clause("heaviest_scc_big", trim_case(max_n=40), run_heaviest, quick=60, thorough=1500),
    Clause("heaviest_scc_large", trim_case(max_n=14), run_heaviest, quick=0, thorough=10000),
    Clause("mapping_large", trim_case(max_n=14), run_mapping, quick=0, thorough=6000),
    Clause("variants_agree_large", trim_case(max_n=14), run_variants, quick=0, thorough=6000),
    Clause("msm_mapping_large", assigns_case(max_states=12, max_traj=12, max_len=40), run_msm, quick=0, thorough=3000),
]
MATCHERS = {}
