"""C04 - every transition-matrix builder returns a valid, stationary and (where promised) reversible model.

One clause per sentence of the statement; every clause draws (count matrix, builder, container, prior,
calculate_eq_probs) and compares the library with plain dense numpy arithmetic (vf/ref_msm.py).
"""
import os
import warnings

import numpy as np
import scipy.sparse
from hypothesis import strategies as st

from vf.harness import Clause, Info, require, Skip
from vf import ref_msm as R

from enspara.msm import builders

PROPERTY = "C04"
LEVEL = "exploration"
RULE = ("Hypothesis draws a non-negative count matrix (n in 1..7 quick / 1..12 thorough; flavours small-int, "
        "counts<=3000, real, upper-triangle x{10,100,1000}, symmetric, diagonal-heavy, near-triangular; int64/int32/"
        "float64; every row has outgoing counts; strongly connected = random pattern united with a Hamiltonian cycle "
        "over a drawn permutation), a builder in {normalize, transpose, mle (n<=6, strongly connected)}, a container "
        "in {ndarray (C/F/strided), csr/csc (canonical/unsorted/explicit zeros), coo (canonical/duplicates/shuffled), "
        "lil, dok, dia, bsr (scipy-estimated / 2x2 / 1x1 blocks)} *_matrix, prior_counts in {None, int scalar, float scalar, dense "
        "matrix} and calculate_eq_probs in {True, False}. Oracle: dense reference arithmetic on (C + prior). A case "
        "is non-trivial when n >= 3 and the count matrix is neither symmetric nor diagonal; distinct = distinct "
        "canonical JSON of the case. Classes count builder x container x prior. scipy *_array containers have a clause "
        "of their own (sparse_arrays: same numbers as dense input, array flavour preserved).")
ASSUMPTIONS = [
    "domain = ndarray, the eight scipy.sparse *_matrix classes and their *_array counterparts (clause sparse_arrays)",
    "count dtypes int64, int32, int16, uint16 (well-sampled: largest entry 40000..65535), float64 (float32 counts carry float32 precision through both the dense and the sparse "
    "path and are not generated)",
    "stationarity of normalize() and everything about mle() is asserted only on strongly connected (C + prior)",
    "when a prior is added to a sparse input any dense numpy result (ndarray, including the np.matrix scipy returns for "
    "spmatrix + ndarray) is accepted as 'legitimately densified'",
    "mle() cases whose Prinz iteration does not stop within 3000 sweeps (probed with _prinz_mle_py(max_iter=3000)) are "
    "skipped: builders.mle runs a pure-Python loop with a fixed cap of 1e5 sweeps (10-30 s); non-convergence is covered in C12",
    "returned counts: input + prior for normalize/mle, ((C+P) + (C+P)^T)/2 for transpose (docstring + upstream test)",
]
SHARDS = {"quick": 4, "thorough": 16}

# scipy's newer sparse *arrays* (csr_array, ...): "every supported sparse format" - the library supports them since fix
# 8406bb2 and returns them in the flavour that was passed in, so both sentences are asserted (set to 0 to only observe)
ASSERT_SPARSE_ARRAYS = os.environ.get("VERIF_C04_ASSERT_SPARRAY", "1") == "1"

BUILDERS = ["normalize", "transpose", "mle"]
MLE_NMAX = 6

TOL_ROW = 1e-12        # row sums / population sum
TOL_EXACT = 1e-13      # relative: T = C / rowsum (observed <= 2 ulp = 4.4e-16)
TOL_STAT = 1e-9        # |pi T - pi|
TOL_DB = 1e-10         # |pi_i T_ij - pi_j T_ji|
TOL_SAME = 1e-12       # dense vs sparse containers


# --------------------------------------------------------------------------------------------------
# strategies

ALIASING_LAYOUTS = [{"name": n, "variant": v} for n, v in [
    ("csr_matrix", "unsorted"), ("csr_matrix", "unsorted"), ("csr_matrix", "unsorted"),
    ("csr_matrix", "explicit_zero"), ("csr_matrix", "canonical"), ("csc_matrix", "unsorted"), ("csc_matrix", "unsorted"), ("csc_matrix", "explicit_zero"), ("coo_matrix", "duplicates"),
    ("coo_matrix", "shuffled"), ("ndarray", "F"), ("ndarray", "strided"), ("ndarray", "C"),
    ("lil_matrix", "canonical"), ("dok_matrix", "canonical"), ("dia_matrix", "canonical"), ("bsr_matrix", "unit")]]

@st.composite
def builder_case(draw, n_max=7, builder_names=BUILDERS, container_names=None, eq=None, prior_kinds=None,
                 connected=None, mle_nmax=MLE_NMAX, all_containers=False, outside=False, aliasing=False):
    b = draw(st.sampled_from(list(builder_names)))
    dtypes = ["float64"] if aliasing else None      # float input: no dtype conversion copy shields the caller
    if b == "mle":
        mat = draw(R.count_matrices(n_min=1, n_max=min(n_max, mle_nmax), connected=True, max_ratio=100, dtypes=dtypes))
    else:
        mat = draw(R.count_matrices(n_min=1, n_max=n_max, connected=connected, dtypes=dtypes))
    if mat["dtype"] in ("int32", "int64") and draw(st.integers(0, 4)) == 0 and \
            max(max(r) for r in mat["C"]) * (2 * mat["n"] + 2) <= 32000:
        # the same counts held in 16 bits (count matrices written to disk compactly): same numbers, same model
        mat["dtype"] = "int16"
    elif mat["dtype"] in ("int32", "int64") and draw(st.integers(0, 7)) == 0 and 0 < max(max(r) for r in mat["C"]) <= 3000:
        # ... and well-sampled 16-bit counts: every entry fits (the largest lies between 20000 and 32767), the sum of two
        # of them does not. Builders are invariant under scaling the counts, the reference works in float64.
        unsigned = draw(st.booleans())          # ... or unsigned 16 bits: the largest entry lies between 40000 and 65535
        top, low = (65535, 40000) if unsigned else (32767, 20000)
        k = top // max(max(r) for r in mat["C"])
        k = draw(st.integers(max(1, (low + max(max(r) for r in mat["C"]) - 1) // max(max(r) for r in mat["C"])), k))
        mat["C"] = [[v * k for v in row] for row in mat["C"]]
        mat["dtype"] = "uint16" if unsigned else "int16"
        mat["flavour"] = mat["flavour"] + "_x16bit"
        prior_kinds = ("none",)
    if mat["flavour"] == "real" and draw(st.integers(0, 3)) == 0:
        # weighted / rescaled counts of tiny magnitude (every entry below 1e-8): the same model as for the unscaled counts
        mat["C"] = [[v * 1e-10 for v in row] for row in mat["C"]]
        mat["flavour"] = "real_tiny"
        prior_kinds = ("none",)
    case = {"builder": b, "mat": mat,
            "prior": draw(R.priors(mat["n"], kinds=prior_kinds or ("none", "none", "int", "float", "matrix"))),
            "eq": draw(st.booleans()) if eq is None else eq}
    if outside:
        # containers outside the asserted domain: scipy sparse arrays
        case["container"] = draw(R.containers(R.SPARRAY_CONTAINERS, extra_variants=True))
    elif aliasing:
        # layouts whose internal arrays are most easily shared with / normalised in place by the callee
        case["container"] = draw(st.sampled_from(ALIASING_LAYOUTS))
    elif all_containers:
        # one (drawn) layout variant for every container type
        case["containers"] = [draw(R.containers([name])) for name in R.MATRIX_CONTAINERS]
    else:
        case["container"] = draw(R.containers(container_names or R.MATRIX_CONTAINERS))
    return case


# --------------------------------------------------------------------------------------------------
# calling the library

def mle_affordable(B, sweeps=3000):
    """Budget guard only (never a verdict): builders.mle runs up to 1e5 pure-Python sweeps (10-30 s) and the cap
    cannot be set by the caller.  Probe the same iteration with max_iter=sweeps; any failure other than
    non-convergence counts as 'affordable', so that the real call reports it."""
    key = (B.shape, B.tobytes())
    if key in _AFFORD:
        return _AFFORD[key]
    try:
        with warnings.catch_warnings(record=True) as w:
            warnings.simplefilter("always")
            builders._prinz_mle_py(np.array(B, dtype=np.float64), max_iter=sweeps)
        ok = not any("converge" in str(x.message).lower() for x in w)
    except TypeError:
        ok = False         # unrepaired tree: the non-convergence warning itself raises TypeError
    except Exception:
        ok = True
    if len(_AFFORD) > 64:
        _AFFORD.clear()
    _AFFORD[key] = ok       # pure function of B: memoised because one case calls the builder up to nine times
    return ok


_AFFORD = {}


class Result:
    pass


def dense_inputs(case):
    A = R.case_matrix(case["mat"])
    n = case["mat"]["n"]
    P = R.prior_dense(case["prior"], n)
    B = A.astype(float) + P if case["prior"] is not None else A.astype(float)
    return A, P, B


def call(case, spec=None, eq=None, prior="case"):
    """Run the builder of the case on container `spec`; returns a Result with dense views of the outputs."""
    A, P, B = dense_inputs(case)
    if case["builder"] == "mle" and not mle_affordable(B):
        raise Skip("mle needs > 3000 sweeps")
    spec = spec or case["container"]
    x = R.to_container(A, spec)
    pv = R.prior_value(case["prior"]) if prior == "case" else prior
    before = R.snapshot(x)
    p_before = pv.copy() if isinstance(pv, np.ndarray) else pv
    fn = getattr(builders, case["builder"])
    with warnings.catch_warnings(record=True) as w:
        warnings.simplefilter("always")
        out = fn(x, prior_counts=pv, calculate_eq_probs=case["eq"] if eq is None else eq)
    r = Result()
    require(isinstance(out, tuple) and len(out) == 3, "builder must return (C, T, eq_probs)", got=type(out))
    r.C_raw, r.T_raw, r.pi_raw = out
    r.x, r.before, r.after = x, before, R.snapshot(x)
    r.prior_obj, r.prior_before = pv, p_before
    r.warnings = [(wi.category.__name__, str(wi.message)[:80]) for wi in w]
    r.n = case["mat"]["n"]
    for nm, o in (("C", r.C_raw), ("T", r.T_raw)):
        require(scipy.sparse.issparse(o) or isinstance(o, np.ndarray), "output %s is not an array container" % nm,
                got=type(o))
        require(tuple(o.shape) == (r.n, r.n), "output %s has the wrong shape" % nm, got=tuple(o.shape))
    r.C, r.T = R.to_dense(r.C_raw), R.to_dense(r.T_raw)
    r.pi = None if r.pi_raw is None else np.asarray(r.pi_raw, dtype=float).ravel()
    r.A, r.P, r.B = A, P, B
    if int(np.asarray(A).sum()) % 3 == 0:
        # the returned model belongs to the caller: building ANOTHER model of the same size (a second replica, the next
        # bootstrap sample) may not change it (subset of the cases, chosen from the counts themselves)
        keep = (r.C.copy(), r.T.copy(), None if r.pi is None else r.pi.copy())
        other = R.to_container(np.asarray(A).T + 1, spec)
        with warnings.catch_warnings():
            warnings.simplefilter("ignore")
            try:
                fn(other, prior_counts=pv, calculate_eq_probs=case["eq"] if eq is None else eq)
            except Exception:
                pass
        now_pi = None if r.pi_raw is None else np.asarray(r.pi_raw, dtype=float).ravel()
        require(np.array_equal(R.to_dense(r.C_raw), keep[0]) and np.array_equal(R.to_dense(r.T_raw), keep[1], equal_nan=True)
                and (now_pi is None or np.array_equal(now_pi, keep[2], equal_nan=True)),
                "a model returned earlier changed when another matrix of the same size was given to the builder",
                builder=case["builder"], container=spec if isinstance(spec, str) else spec.get("name"))
    return r


def info(case, extra=()):
    mat = case["mat"]
    A = R.case_matrix(mat)
    n = mat["n"]
    sym = bool(np.array_equal(A, A.T))
    diag = bool(np.count_nonzero(A - np.diag(np.diag(A))) == 0)
    nt = n >= 3 and not sym and not diag
    cname = case["container"]["name"] if "container" in case else "all"
    cl = ["b=%s|c=%s|p=%s" % (case["builder"], cname, R.prior_kind(case["prior"])),
          "builder=%s" % case["builder"], "container=%s" % cname, "prior=%s" % R.prior_kind(case["prior"]),
          "eq=%s" % case["eq"], "flavour=%s" % mat["flavour"], "dtype=%s" % mat["dtype"],
          "n=%s" % (n if n < 8 else "8+"), "connected=%s" % R.strongly_connected(A), "symmetric=%s" % sym]
    if "container" in case:
        cl.append("layout=%s:%s" % (cname.split("_")[0], case["container"]["variant"]))
    return Info(nt, cl + list(extra))


def check_prob_vector(pi, n, what="populations"):
    require(pi is not None, "%s requested but None returned" % what)
    require(pi.shape == (n,), "%s must have one entry per state" % what, got=pi.shape, n=n)
    require(np.all(np.isfinite(pi)), "%s not finite" % what, pi=pi.tolist())
    require(np.all(pi >= -1e-9), "%s has a negative entry" % what, pi=pi.tolist())
    require(abs(pi.sum() - 1.0) <= 1e-9, "%s do not sum to one" % what, total=float(pi.sum()))


# --------------------------------------------------------------------------------------------------
# clauses

def run_stochastic(case):
    """Sentence 1a: rows of T are probability distributions for every state with outgoing counts."""
    r = call(case)
    T = r.T
    require(np.all(np.isfinite(T)), "T not finite", T=T.tolist())
    require(np.all(T >= 0), "T has a negative entry", T=T.tolist())
    require(np.all(T <= 1 + TOL_ROW), "T has an entry above one", T=T.tolist())
    if case["builder"] == "normalize":
        has_out = r.B.sum(axis=1) > 0
    else:
        has_out = (r.B + r.B.T).sum(axis=1) > 0
    rs = T.sum(axis=1)
    bad = np.abs(rs[has_out] - 1.0)
    require(bad.size == 0 or bad.max() <= TOL_ROW, "a row of T with outgoing counts does not sum to one",
            rowsums=rs.tolist(), counts=r.B.tolist())
    return info(case)


def run_stationary(case):
    """Sentence 1b: when asked, a probability vector that is stationary under the returned T."""
    r = call(case, eq=True)
    check_prob_vector(r.pi, r.n)
    res = R.stationarity_residual(r.T, r.pi)
    require(res <= TOL_STAT, "returned populations are not stationary under the returned T", residual=res,
            pi=r.pi.tolist(), T=r.T.tolist())
    extra = []
    if case["builder"] in ("normalize",) and R.strongly_connected(r.B):
        # independent value: direct linear solve (only compared when the chain is well conditioned)
        Tref = R.ref_normalize(r.B)
        M = Tref.T - np.eye(r.n)
        M[-1, :] = 1.0
        if np.linalg.cond(M) < 1e6:
            piref = R.ref_stationary(Tref)
            require(np.max(np.abs(piref - r.pi)) <= 1e-8, "populations differ from the linear-solve stationary vector",
                    got=r.pi.tolist(), want=piref.tolist())
            extra.append("pi_vs_linear_solve=checked")
        else:
            extra.append("pi_vs_linear_solve=illcond")
    return info(case, extra)


def run_not_asked(case):
    """Quantifier 'with and without population calculation': calculate_eq_probs=False needs no populations
    (None for normalize/transpose; mle may return None or a valid vector and may warn) and must not change T or C."""
    r0 = call(case, eq=False)
    r1 = call(case, eq=True)
    if case["builder"] in ("normalize", "transpose"):
        require(r0.pi_raw is None, "calculate_eq_probs=False still returned populations", got=type(r0.pi_raw))
    elif r0.pi is not None:
        check_prob_vector(r0.pi, r0.n)
        require(R.stationarity_residual(r0.T, r0.pi) <= TOL_STAT, "unrequested populations are not stationary")
    require(np.max(np.abs(r0.T - r1.T), initial=0.0) <= TOL_SAME, "T depends on calculate_eq_probs",
            T_false=r0.T.tolist(), T_true=r1.T.tolist())
    require(np.allclose(r0.C, r1.C, rtol=TOL_SAME, atol=0), "returned counts depend on calculate_eq_probs")
    require(type(r0.T_raw) is type(r1.T_raw), "container of T depends on calculate_eq_probs",
            false=type(r0.T_raw).__name__, true=type(r1.T_raw).__name__)
    return info(case, ["mle_pi_when_not_asked=%s" % (r0.pi is not None)] if case["builder"] == "mle" else [])


def run_normalize_exact(case):
    """Sentence 2a: the row-normalised matrix equals counts divided by row totals."""
    r = call(case)
    want = R.ref_normalize(r.B)
    err = np.abs(r.T - want)
    require(np.all(err <= TOL_EXACT * np.abs(want) + 1e-300), "normalize: T != counts / row totals",
            got=r.T.tolist(), want=want.tolist())
    require(np.array_equal(r.T == 0, want == 0), "normalize: support of T differs from the support of the counts")
    return info(case)


def run_detailed_balance(case):
    """Sentence 2b: symmetrised and maximum-likelihood models satisfy detailed balance with the returned populations."""
    r = call(case, eq=True)
    check_prob_vector(r.pi, r.n)
    F = r.pi[:, None] * r.T
    res = R.detailed_balance_residual(r.T, r.pi)
    require(res <= TOL_DB * max(float(F.max()), 1e-300) + 1e-15, "detailed balance violated", residual=res,
            pi=r.pi.tolist(), T=r.T.tolist())
    extra = []
    if case["builder"] == "transpose":
        _, Tw, piw = R.ref_transpose(r.B)
        require(np.max(np.abs(r.T - Tw)) <= TOL_SAME, "transpose: T != rownorm(C + C^T)", got=r.T.tolist(),
                want=Tw.tolist())
        require(np.max(np.abs(r.pi - piw)) <= TOL_SAME, "transpose: populations != row sums of C + C^T / total",
                got=r.pi.tolist(), want=piw.tolist())
    else:
        # the ML model must be at least as likely as the transpose model (same support, reversible)
        _, Tw, _ = R.ref_transpose(r.B)
        L, Lt = R.loglik(r.B, r.T), R.loglik(r.B, Tw)
        if not any(w[0] == "ConvergenceWarning" for w in r.warnings):
            require(L >= Lt - 1e-8 * (1 + abs(L)), "mle model less likely than the transpose model", L=L, Lt=Lt)
        extra.append("mle_beats_transpose=%s" % (L > Lt + 1e-9 * (1 + abs(L))))
    return info(case, extra)


def run_same_numbers(case):
    """Sentence 3a: the numbers are the same for dense input and every supported sparse format."""
    specs = case["containers"]
    base = call(case, spec={"name": "ndarray", "variant": "C"})
    seen = []
    for spec in specs:
        r = call(case, spec=spec)
        tag = "%s:%s" % (spec["name"], spec["variant"])
        require(np.allclose(r.C, base.C, rtol=TOL_SAME, atol=0), "returned counts differ between ndarray and %s" % tag,
                dense=base.C.tolist(), other=r.C.tolist())
        require(np.max(np.abs(r.T - base.T), initial=0.0) <= TOL_SAME, "T differs between ndarray and %s" % tag,
                dense=base.T.tolist(), other=r.T.tolist())
        require((r.pi is None) == (base.pi is None), "populations returned for one container but not the other (%s)" % tag)
        if r.pi is not None:
            require(r.pi.shape == base.pi.shape and np.max(np.abs(r.pi - base.pi), initial=0.0) <= 1e-9,
                    "populations differ between ndarray and %s" % tag, dense=base.pi.tolist(), other=r.pi.tolist())
        seen.append("layout=%s" % tag)
    return info(case, seen)


def run_container_type(case):
    """Sentence 3b: outputs come back in the container type that was passed in (a prior on a sparse input may densify)."""
    r = call(case)
    tin = type(r.x)
    sparse_in = scipy.sparse.issparse(r.x)
    extra = []
    for nm, o in (("C", r.C_raw), ("T", r.T_raw)):
        if type(o) is tin:
            extra.append("%s_out=same" % nm)
            continue
        if sparse_in and case["prior"] is not None and isinstance(o, np.ndarray):
            extra.append("%s_out=densified:%s" % (nm, type(o).__name__))
            continue
        require(False, "output %s came back as %s for input %s (prior=%s)" % (
            nm, type(o).__name__, tin.__name__, R.prior_kind(case["prior"])))
    if sparse_in and scipy.sparse.issparse(r.T_raw):
        require(r.T_raw.format == r.x.format, "sparse format of T changed", got=r.T_raw.format, want=r.x.format)
    if r.pi_raw is not None:
        require(np.asarray(r.pi_raw).size == r.n, "populations must have n entries", got=np.asarray(r.pi_raw).shape)
    return info(case, extra)


def run_returned_counts(case):
    """Sentence 3c (documented return value): the returned counts are input + prior (transpose: symmetrised / 2)."""
    r = call(case)
    b = case["builder"]
    wantC = r.B if b != "transpose" else (r.B + r.B.T) / 2.0
    require(np.allclose(r.C, wantC, rtol=1e-13, atol=0), "returned counts are not (input + prior)%s" % (
        "" if b != "transpose" else " symmetrised / 2"), got=r.C.tolist(), want=wantC.tolist())
    if scipy.sparse.issparse(r.C_raw) and r.C_raw.format in ("lil", "dok"):
        # these two formats keep python objects: the stored values must agree with the declared dtype
        vals = [v for row in r.C_raw.data for v in row] if r.C_raw.format == "lil" else list(r.C_raw.values())
        require(all(float(np.asarray(v, dtype=r.C_raw.dtype)) == float(v) for v in vals),
                "stored values of the returned counts do not fit their declared dtype", dtype=str(r.C_raw.dtype),
                values=[float(v) for v in vals][:12])
    return info(case, ["C_out_dtype=%s" % r.C.dtype])


def run_prior_first(case):
    """Sentence 3c: prior counts are added before estimation (T is the estimate from C + prior)."""
    r = call(case)
    b = case["builder"]
    if b == "normalize":
        want = R.ref_normalize(r.B)
    elif b == "transpose":
        want = R.ref_transpose(r.B)[1]
    else:
        # metamorphic: estimating from the pre-added dense counts must give the same model
        with warnings.catch_warnings(record=True):
            warnings.simplefilter("always")
            _, T2, _ = builders.mle(np.array(r.B), prior_counts=None, calculate_eq_probs=True)
        want = R.to_dense(T2)
    require(np.max(np.abs(r.T - want), initial=0.0) <= TOL_SAME, "T is not the estimate from (counts + prior)",
            got=r.T.tolist(), want=want.tolist())
    if case["prior"] is not None and b != "mle":
        # the estimate must really depend on the prior (otherwise the comparison above is vacuous)
        base = R.ref_normalize(r.A.astype(float)) if b == "normalize" else R.ref_transpose(r.A.astype(float))[1]
        moved = bool(np.max(np.abs(base - want)) > 1e-9)
    else:
        moved = case["prior"] is not None
    return info(case, ["prior_changes_T=%s" % moved])


def run_input_unchanged(case):
    """Sentence 3d: the caller's matrix (and the prior matrix) is left unchanged."""
    r = call(case)
    d = R.snapshot_diff(r.before, r.after)
    require(d is None, "the caller's count matrix was modified: %s" % d)
    if isinstance(r.prior_obj, np.ndarray):
        require(r.prior_obj.dtype == r.prior_before.dtype and np.array_equal(r.prior_obj, r.prior_before),
                "the caller's prior matrix was modified")
    return info(case)


def run_sparse_array(case):
    """scipy.sparse *_array containers: same numbers as ndarray input, returned in the array flavour passed in."""
    spec = case["container"]
    try:
        r = call(case)
    except Skip:
        raise
    except Exception as e:      # noqa - recorded as a class, asserted only on request
        if ASSERT_SPARSE_ARRAYS:
            raise
        return Info(False, ["sparray:%s:%s:p=%s:raises=%s" % (case["builder"], spec["name"],
                                                             R.prior_kind(case["prior"]), type(e).__name__),
                            "sparray_outcome=raises:%s" % type(e).__name__])
    dense_case = dict(case)
    base = call(dense_case, spec={"name": "ndarray", "variant": "C"})
    same = bool(np.max(np.abs(r.T - base.T), initial=0.0) <= TOL_SAME)
    if ASSERT_SPARSE_ARRAYS:
        require(same, "T differs between ndarray and %s" % spec["name"])
        require(type(r.T_raw) is type(r.x) or (case["prior"] is not None and isinstance(r.T_raw, np.ndarray)),
                "container type not preserved", got=type(r.T_raw).__name__)
    return Info(ASSERT_SPARSE_ARRAYS and case["prior"] is None,
                ["sparray:%s:%s:p=%s:returns" % (case["builder"], spec["name"], R.prior_kind(case["prior"])),
                        "sparray_outcome=returns,numbers_%s" % ("same" if same else "DIFFER"),
                        "sparray_T_type=%s" % ("same" if type(r.T_raw) is type(r.x) else type(r.T_raw).__name__)])


def exhaustive_product(tier, shard, nshards):
    """Complete builder x container-layout x prior-kind x eq product on one fixed asymmetric 4-state matrix
    (both tiers: it is the class table the property talks about)."""
    mat = {"n": 4, "C": [[2, 3, 0, 1], [1, 0, 4, 0], [0, 2, 1, 5], [3, 0, 1, 0]], "dtype": "int64", "flavour": "fixed"}
    pri = [None, {"scalar": 1}, {"scalar": 0.25},
           {"matrix": [[0, 1, 0, 0], [0.5, 0, 0, 2], [0, 0, 0, 0], [1, 0, 0.5, 0]], "dtype": "float64"}]

    def gen():
        idx = 0
        for b in BUILDERS:
            for name in R.MATRIX_CONTAINERS:
                for variant in R.VARIANTS[name.split("_")[0]]:
                    for p in pri:
                        for eq in (True, False):
                            idx += 1
                            if idx % nshards != shard:
                                continue
                            yield {"builder": b, "mat": mat, "prior": p, "eq": eq,
                                   "container": {"name": name, "variant": variant}}
    return gen()


def run_product(case):
    """All single-container clauses on one case (used by the exhaustive product)."""
    run_stochastic(case)
    if case["builder"] == "normalize":
        run_normalize_exact(case)
    else:
        run_detailed_balance(case)
    run_stationary(case)
    run_container_type(case)
    run_prior_first(case)
    run_returned_counts(case)
    run_input_unchanged(case)
    return info(case)



@st.composite
def int32_large_case(draw, n_max=6):
    """Row normalisation of int32 counts whose entries fit the dtype while the row TOTALS do not (> 2**31): the totals
    are numbers, not int32 values.  (transpose adds C + C.T in the input dtype and mle is not meant for such counts;
    prior counts would be added in int32 as well - both stay outside this clause.)"""
    case = draw(builder_case(n_max, builder_names=["normalize"], prior_kinds=("none",), connected=True))
    C = case["mat"]["C"]
    top = max(max(r) for r in C)
    if case["mat"]["dtype"] == "float64" or top <= 0 or any(isinstance(v, float) for r in C for v in r):
        case["mat"]["C"] = [[0 if v == 0 else max(1, int(v)) for v in r] for r in C]
        top = max(max(r) for r in case["mat"]["C"])
        C = case["mat"]["C"]
    f = (2 ** 31 - 1) // max(top, 1)
    case["mat"]["C"] = [[int(v) * f for v in r] for r in C]
    case["mat"]["dtype"] = "int32"
    case["mat"]["flavour"] = case["mat"]["flavour"] + "/int32_large_totals"
    return case


def run_int32_large(case):
    run_stochastic(case)
    run_normalize_exact(case)
    r = call(case, eq=True)
    check_prob_vector(r.pi, r.n)
    require(R.stationarity_residual(r.T, r.pi) <= TOL_STAT, "returned populations are not stationary under the returned T")
    B = np.array(case["mat"]["C"], dtype=object)
    over = bool(max(sum(row) for row in B.tolist()) > 2 ** 31 - 1)
    i = info(case)
    return Info(over, list(i.classes) + ["row_total_exceeds_int32=%s" % over])



@st.composite
def big_sparse_case(draw):
    """1000+ states in a sparse container: above that size the stationary vector comes from another eigen-solver."""
    return {"n": draw(st.sampled_from([999, 1000, 1001, 1200])), "seed": draw(st.integers(0, 2 ** 31 - 1)),
            "fmt": draw(st.sampled_from(["csr_matrix", "coo_matrix", "csc_matrix", "lil_matrix"])),
            "builder": draw(st.sampled_from(["normalize", "normalize", "transpose"])),
            "drift": draw(st.sampled_from([1, 2, 4])), "topology": draw(st.sampled_from(["expander", "expander", "basins"]))}


def run_big_sparse(case):
    n = case["n"]
    rng = np.random.RandomState(case["seed"])        # seed drawn by Hypothesis
    idx = np.arange(n)
    if case.get("topology", "expander") == "basins":
        # six rapidly mixing basins joined by a few weak links, SYMMETRIC counts: metastable (second eigenvalue close to
        # one) and the exact populations are known without any eigen-solver: row totals / grand total
        nb = 6
        lab = idx % nb
        rows_l, cols_l, vals_l = [], [], []
        for b in range(nb):
            mem = idx[lab == b]
            for _ in range(4):
                p_ = rng.permutation(mem)
                # within-basin counts of a few thousand against single counts across: second eigenvalue ~ 1 - 1e-6
                rows_l.append(mem); cols_l.append(p_); vals_l.append(rng.randint(500, 4000, size=len(mem)))
            rows_l.append(mem[:3]); cols_l.append(idx[lab == (b + 1) % nb][:3]); vals_l.append(np.ones(3, dtype=int))
        r_, c_, v_ = np.concatenate(rows_l), np.concatenate(cols_l), np.concatenate(vals_l).astype(np.int64)
        rows, cols, vals = np.concatenate([r_, c_]), np.concatenate([c_, r_]), np.concatenate([v_, v_])     # symmetrise
    elif case.get("topology", "expander") == "ring":
        # slowly mixing banded ring (hundreds of eigenvalues within 1e-3 of one): see known finding C04-arpack-ring
        up = rng.randint(1, 30, size=n) * case["drift"]
        down = rng.randint(1, 30, size=n)
        stay = rng.randint(0, 50, size=n)
        hop = rng.randint(1, 10, size=n)
        rows = np.concatenate([idx, idx, idx, idx])
        cols = np.concatenate([(idx + 1) % n, (idx - 1) % n, idx, (idx + 7) % n])
        vals = np.concatenate([up, down, stay, hop]).astype(np.int64)
    else:
        # a ring (strongly connected by construction) plus three random far jumps per state: rapidly mixing, one-way
        # drift on the ring (not reversible, populations far from uniform through the drawn weights)
        rows = np.concatenate([idx] * 5)
        cols = np.concatenate([(idx + 1) % n, idx, rng.permutation(n), rng.permutation(n), rng.permutation(n)])
        vals = np.concatenate([rng.randint(1, 30, size=n) * case["drift"], rng.randint(0, 50, size=n),
                               rng.randint(1, 40, size=n), rng.randint(1, 40, size=n), rng.randint(1, 40, size=n)]).astype(np.int64)
    C = getattr(scipy.sparse, case["fmt"])(scipy.sparse.coo_matrix((vals, (rows, cols)), shape=(n, n)))
    Cd = np.asarray(C.toarray(), dtype=np.float64)
    out = getattr(builders, case["builder"])(C, calculate_eq_probs=True)
    require(isinstance(out, tuple) and len(out) == 3, "builder must return (C, T, eq_probs)")
    T = R.to_dense(out[1])
    pi = np.asarray(out[2], dtype=float).ravel()
    B = Cd if case["builder"] == "normalize" else Cd + Cd.T
    want = B / B.sum(axis=1, keepdims=True)
    require(np.max(np.abs(T - want)) <= 1e-12, "T != counts / row totals on a large sparse matrix")
    check_prob_vector(pi, n)
    res = float(np.max(np.abs(pi @ T - pi)))
    if case.get("topology") == "basins" and case["builder"] == "normalize":
        exact = Cd.sum(axis=1) / Cd.sum()
        require(float(np.abs(pi - exact).sum()) <= 1e-6, "populations of a metastable 1000+-state chain with symmetric counts "
                "differ from row totals / grand total", l1=float(np.abs(pi - exact).sum()), residual=res, n=n)
    require(res <= 1e-9, "returned populations are not stationary under the returned T (large sparse input)",
            residual=res, n=n, uniform_residual=float(np.max(np.abs(np.full(n, 1.0 / n) @ T - 1.0 / n))))
    require(np.array_equal(np.asarray(C.toarray()), Cd), "the caller's matrix was changed")
    return Info(n >= 1000, ["big_n=%d" % n, "big_fmt=" + case["fmt"], "big_builder=" + case["builder"]],
                key=[n, case["seed"], case["fmt"], case["builder"], case["drift"]])


def _cl(name, strat_quick, strat_thorough, run, quick, thorough, **kw):
    """The base clause (small sizes) runs in both tiers; the *_large twin (bigger matrices) only in thorough."""
    return [Clause(name, strat_quick, run, quick=quick, thorough=thorough // 2, **kw),
            Clause(name + "_large", strat_thorough, run, quick=0, thorough=thorough - thorough // 2)]


CLAUSES = []
CLAUSES += _cl("rows_stochastic", builder_case(7), builder_case(12), run_stochastic, 500, 8000)
CLAUSES += _cl("populations_stationary", builder_case(7, eq=True, connected=True),
               builder_case(12, eq=True, connected=True), run_stationary, 400, 6000)
CLAUSES += _cl("populations_stationary_transpose_any", builder_case(7, builder_names=["transpose"], eq=True),
               builder_case(12, builder_names=["transpose"], eq=True), run_stationary, 120, 2000)
CLAUSES += _cl("not_asked", builder_case(6, eq=False), builder_case(10, eq=False), run_not_asked, 250, 4000)
CLAUSES += _cl("normalize_exact", builder_case(7, builder_names=["normalize"]),
               builder_case(12, builder_names=["normalize"]), run_normalize_exact, 400, 8000)
CLAUSES += _cl("detailed_balance", builder_case(7, builder_names=["transpose", "mle"], eq=True),
               builder_case(12, builder_names=["transpose", "mle"], eq=True), run_detailed_balance, 400, 6000)
CLAUSES += _cl("same_numbers_all_containers", builder_case(6, all_containers=True, mle_nmax=5),
               builder_case(9, all_containers=True, mle_nmax=5), run_same_numbers, 160, 2500)
CLAUSES += _cl("container_type", builder_case(6), builder_case(10), run_container_type, 500, 8000)
CLAUSES += _cl("prior_first", builder_case(7, prior_kinds=("none", "int", "float", "matrix", "matrix")),
               builder_case(12, prior_kinds=("none", "int", "float", "matrix", "matrix")), run_prior_first, 400, 8000)
CLAUSES += _cl("returned_counts", builder_case(6), builder_case(10), run_returned_counts, 400, 6000)
CLAUSES += _cl("input_unchanged", builder_case(6), builder_case(10), run_input_unchanged, 500, 8000)
CLAUSES += _cl("input_unchanged_aliasing", builder_case(6, aliasing=True, prior_kinds=("none", "none", "int", "matrix")),
               builder_case(10, aliasing=True, prior_kinds=("none", "none", "int", "matrix")), run_input_unchanged,
               600, 6000)
CLAUSES += [Clause("normalize_int32_large_totals", int32_large_case(), run_int32_large, quick=200, thorough=3000)]
CLAUSES += [Clause("stationary_large_sparse", big_sparse_case(), run_big_sparse, quick=24, thorough=200)]
CLAUSES += [Clause("product", builder_case(4), run_product, quick=0, thorough=0, exhaustive=exhaustive_product)]
CLAUSES += [Clause("sparse_arrays", builder_case(5, outside=True), run_sparse_array,
                   quick=160, thorough=1500)]

def match_arpack_ring(case, exc):
    """Known finding C04-arpack-ring: for a slowly mixing banded ring of >= 1000 states in a sparse container the
    ARPACK call behind eq_probs()/eigenspectrum() (k=3, default Krylov size, tol=1e-30) returns converged Ritz values
    that do NOT include the eigenvalue one, so the 'populations' are a normalised non-Perron vector (entries of
    +-1e12).  Matched: an oracle Violation about the populations on a case of exactly that topology (the generator of
    the clause draws rapidly mixing chains only; the ring is the committed witness)."""
    return (type(exc).__name__ == "Violation" and case.get("topology") == "ring" and case.get("n", 0) >= 1000
            and "populations" in str(exc))


MATCHERS = {"arpack_ring_misconvergence": match_arpack_ring}
