"""C07 - committors and mean first-passage times satisfy their first-step equations."""
import itertools
import warnings

import numpy as np
import scipy.sparse
from hypothesis import strategies as st

from vf.harness import Clause, Info, require
from vf import ref_tpt as R

from enspara import tpt

PROPERTY = "C07"
LEVEL = "exploration"
RULE = ("Hypothesis draws an irreducible row-stochastic chain T = W/rowsum(W), n in 3..8 (quick) / 3..25 (thorough "
        "'_large' clauses), of kind dense-positive | sparse pattern + Hamiltonian cycle | periodic (period d | n) | "
        "reversible (symmetric weights on spanning tree + extras) | reversible dense | reversible tree (period 2); "
        "weights k/20, k in 1..20, in a third of the cases multiplied by 10**-e, e in 0..3 (stiff chains); disjoint "
        "non-empty source and sink lists in arbitrary order (|A|+|B| <= n), presented as list / tuple / int32 / int64 "
        "array / bare int; a container out of ndarray (C and F order), csr, csc, coo, lil, dok, dia, bsr *_matrix, "
        "csr with explicit zeros, coo with duplicate entries, csr_array, coo_array; lag time float in [0.01, 100] or "
        "int 1..100; populations None or given. Oracles: residuals of the defining first-step equations evaluated "
        "with dense numpy plus an independent reduced-block solve. A committor case is non-trivial when n >= 4, "
        "(>= 2 sources or >= 2 sinks) and there is at least one intermediate state; an MFPT-to-sinks case when "
        "n >= 4, >= 2 sinks and >= 2 non-sink states; all-pairs / lag / container / no-modification cases when "
        "n >= 4. distinct = distinct canonical JSON of the case. Thorough additionally enumerates every ordered "
        "pair of disjoint non-empty source/sink sets and every non-empty sink set on three fixed chains "
        "(n = 4, 4, 5) x {ndarray, csr, lil}.")
ASSUMPTIONS = ["the transition matrix is irreducible and row-stochastic to rounding (rows are weights / row sum)",
               "source and sink sets contain no repeated state",
               "float64 matrices only; populations, when given, are the stationary vector of the chain",
               "modification of an input is judged on its values (toarray()/bytes), not on scipy's internal "
               "index canonicalisation"]
SHARDS = {"quick": 4, "thorough": 16}

# Tolerances.  Residuals of the defining equations are backward stable (observed <= 1e-15 relative) and get a
# fixed tolerance; comparisons of *solutions* add R.cond_slack(cond(I-Q)) = 1e3*eps*cond because any double
# precision solve is only accurate to ~eps*cond (observed error/(eps*cond) <= 0.4).  R.within() records
# observed/tolerance; over 40 000 calibration cases the largest ratio was < 1e-2 for every check below.
Q_PIN = 1e-12        # q on sources / sinks (observed: exact)
Q_BOUND = 1e-10      # [0, 1] slack (+ cond slack)
Q_RES = 1e-9         # first-step residual of the committor
Q_REF = 1e-8         # against the reduced-block reference solve (+ cond slack)
M_RES = 1e-9         # MFPT first-step residual, relative to max(lag, max m)
M_REF = 1e-7         # MFPT against the reference solve, relative (+ cond slack)
M_COL = 1e-6         # all-pairs column against single-sink call, relative to the column maximum (+ cond slack)
LAG_RTOL = 1e-12     # lag-time linearity (a pure rescaling)
SAME_TOL = 1e-10     # dense against sparse (+ cond slack; observed: bit-identical)

W = R.within


def _quiet(fn, *a, **k):
    with warnings.catch_warnings():
        warnings.simplefilter("ignore")
        return fn(*a, **k)


def _vec(x, n, what):
    require(isinstance(x, np.ndarray), "%s is not an ndarray" % what, type=type(x).__name__)
    x = np.asarray(x)
    require(x.shape == (n,), "%s does not have shape (n_states,)" % what, shape=x.shape, n=n)
    x = x.astype(np.float64)
    require(bool(np.all(np.isfinite(x))), "%s has non-finite entries" % what, value=x.tolist())
    return x


def _mat(x, n, what):
    x = R.dense_of(x)
    require(x.shape == (n, n), "%s does not have shape (n_states, n_states)" % what, shape=x.shape, n=n)
    require(bool(np.all(np.isfinite(x))), "%s has non-finite entries" % what, value=x.tolist())
    return x


def _classes(case, extra=()):
    ch = case["chain"]
    cl = ["kind=" + ch["kind"], "wide=%s" % (ch["E"] is not None), "n=%s" % ("3" if ch["n"] == 3 else "4-8" if ch["n"] <= 8 else "9+")]
    if "container" in case:
        cl.append("container=" + case["container"])
    return cl + list(extra)


# --------------------------------------------------------------------------
# strategies

def _ids(states, n, neg):
    """numpy-style ids counted from the end (-1 is the last state) for every second member when `neg` is set: the
    same states, another spelling"""
    if not neg:
        return list(states)
    return [int(s_) - n if k % 2 == 0 else int(s_) for k, s_ in enumerate(states)]


@st.composite
def committor_case(draw, max_n=8):
    ch = draw(R.chain(max_n=max_n))
    src, snk = draw(R.disjoint_sets(ch["n"]))
    case = {"chain": ch, "container": draw(st.sampled_from(R.CONTAINERS)),
            "sources": src, "sinks": snk,
            "src_form": draw(st.sampled_from(R.SET_FORMS)), "snk_form": draw(st.sampled_from(R.SET_FORMS))}
    if draw(st.integers(0, 5)) == 0:
        case["neg_ids"] = True
        case["src_form"] = "list" if case["src_form"] == "scalar" else case["src_form"]
        case["snk_form"] = "list" if case["snk_form"] == "scalar" else case["snk_form"]
    elif draw(st.integers(0, 5)) == 0:
        # a state SET written with one member listed twice (ids collected from two overlapping criteria): the same set
        case["listed_twice"] = draw(st.sampled_from(["sources", "sinks", "both"]))
        case["src_form"] = "list" if case["src_form"] == "scalar" else case["src_form"]
        case["snk_form"] = "list" if case["snk_form"] == "scalar" else case["snk_form"]
    return case


@st.composite
def sink_set(draw, n):
    perm = list(draw(st.permutations(list(range(n)))))
    k = draw(st.one_of(st.integers(1, n), st.integers(1, min(3, n))))
    return perm[:k]


@st.composite
def mfpt_case(draw, max_n=8):
    ch = draw(R.chain(max_n=max_n))
    return {"chain": ch, "container": draw(st.sampled_from(R.CONTAINERS)),
            "sinks": draw(sink_set(ch["n"])), "snk_form": draw(st.sampled_from(R.SET_FORMS)),
            "lag": draw(R.lag_strategy()), "pops": draw(st.sampled_from(["none", "given"])),
            "style": draw(st.sampled_from(["keyword", "positional"])), "neg_ids": draw(st.integers(0, 5)) == 0}


@st.composite
def allpairs_case(draw, max_n=8):
    ch = draw(R.chain(max_n=max_n))
    return {"chain": ch, "container": draw(st.sampled_from(R.CONTAINERS)),
            "lag": draw(R.lag_strategy()), "pops": draw(st.sampled_from(["none", "given"])),
            "snk_form": draw(st.sampled_from(R.SET_FORMS)), "style": draw(st.sampled_from(["keyword", "positional"]))}


@st.composite
def lag_case(draw, max_n=8):
    ch = draw(R.chain(max_n=max_n))
    return {"chain": ch, "container": draw(st.sampled_from(R.CONTAINERS)),
            "sinks": draw(sink_set(ch["n"])), "lag": draw(R.lag_strategy()),
            "factor": draw(st.one_of(st.floats(0.05, 20.0), st.integers(2, 7))),
            "pops": draw(st.sampled_from(["none", "given"]))}


@st.composite
def multi_case(draw, max_n=8):
    """One chain, source/sink sets and lag; evaluated on every container."""
    ch = draw(R.chain(max_n=max_n))
    src, snk = draw(R.disjoint_sets(ch["n"]))
    return {"chain": ch, "sources": src, "sinks": snk, "lag": draw(R.lag_strategy()),
            "pops": draw(st.sampled_from(["none", "given"])),
            "form": draw(st.sampled_from(["list", "int64", "int32"]))}


@st.composite
def nomod_case(draw, max_n=8):
    c = draw(multi_case(max_n=max_n))
    c["container"] = draw(st.sampled_from(R.CONTAINERS))
    return c


def _pops(case, T):
    if case.get("pops") == "given":
        return R.ref_stationary(T)
    return None


# --------------------------------------------------------------------------
# clause 1: committors

def check_committor(T, q, sources, sinks):
    n = T.shape[0]
    slack = R.cond_slack(R.cond_free(T, list(sources) + list(sinks)))
    require(W("q_src", q[sources], Q_PIN), "forward committor is not 0 on a source state",
            q=q.tolist(), sources=sources)
    require(W("q_snk", q[sinks] - 1.0, Q_PIN), "forward committor is not 1 on a sink state",
            q=q.tolist(), sinks=sinks)
    out = np.maximum(np.maximum(-q, q - 1.0), 0.0)
    require(W("q_bound", out, Q_BOUND + slack), "forward committor outside [0, 1]", q=q.tolist())
    free = [i for i in range(n) if i not in set(sources) | set(sinks)]
    if free:
        res = q[free] - T[free] @ q
        require(W("q_res", res, Q_RES),
                "committor of an intermediate state is not the transition-weighted average of its neighbours",
                residual=res.tolist(), states=free, q=q.tolist())
    ref = R.ref_committor(T, sources, sinks)
    require(W("q_ref", q - ref, Q_REF + slack), "committor differs from the reduced-block reference solve",
            got=q.tolist(), want=ref.tolist())
    return free


def run_committor(case):
    T = R.build_T(case["chain"])
    n = T.shape[0]
    X = R.to_container(T, case["container"])
    src, snk = case["sources"], case["sinks"]
    neg = bool(case.get("neg_ids"))
    twice = case.get("listed_twice")
    src_l = list(src) + ([src[0]] if twice in ("sources", "both") else [])
    snk_l = list(snk) + ([snk[-1]] if twice in ("sinks", "both") else [])
    q = _quiet(tpt.committors, X, R.set_arg(_ids(src_l, n, neg), case["src_form"]),
               R.set_arg(_ids(snk_l[::-1], n, neg)[::-1], case["snk_form"]))
    q = _vec(q, n, "committors")
    free = check_committor(T, q, src, snk)
    nt = n >= 4 and (len(src) >= 2 or len(snk) >= 2) and len(free) >= 1
    return Info(nt, _classes(case, ["n_sources=%s" % min(len(src), 3), "n_sinks=%s" % min(len(snk), 3),
                                    "intermediates=%s" % min(len(free), 2),
                                    "src_form=" + case["src_form"], "snk_form=" + case["snk_form"],
                                    "negative_ids=%s" % neg, "member_listed_twice=%s" % (twice or "no")]))


# --------------------------------------------------------------------------
# clause 2: MFPT to a sink set

def check_mfpt(T, m, sinks, lag):
    n = T.shape[0]
    slack = R.cond_slack(R.cond_free(T, sinks))
    require(W("m_snk", m[sinks], 1e-12 * lag), "mean first-passage time is not 0 on a sink state",
            m=m.tolist(), sinks=sinks)
    free = [i for i in range(n) if i not in set(sinks)]
    scale = max(float(lag), float(np.max(np.abs(m))))
    if free:
        res = m[free] - lag - T[free] @ m
        require(W("m_res", res, M_RES * scale),
                "MFPT of a non-sink state is not lag + transition-weighted average of the neighbours' times",
                residual=res.tolist(), states=free, m=m.tolist(), lag=lag)
        require(bool(np.all(m[free] >= lag - (1e-9 + slack) * scale)),
                "MFPT of a non-sink state is below one lag time", m=m.tolist(), lag=lag)
    ref = R.ref_mfpt(T, sinks, lag)
    require(W("m_ref", m - ref, (M_REF + slack) * scale), "MFPT differs from the reduced-block reference solve",
            got=m.tolist(), want=ref.tolist())
    return free


def run_mfpt_sinks(case):
    T = R.build_T(case["chain"])
    n = T.shape[0]
    X = R.to_container(T, case["container"])
    snk, lag = case["sinks"], case["lag"]
    kw = {}
    if case["pops"] == "given":
        kw["populations"] = R.ref_stationary(T)
    neg = bool(case.get("neg_ids")) and not (case["snk_form"] == "scalar" and len(snk) == 1)
    snk_arg = R.set_arg(_ids(snk, n, neg), case["snk_form"])
    if case.get("style") == "positional":
        # documented order: mfpts(tprob, sinks, populations, lagtime)
        m = _quiet(tpt.mfpts, X, snk_arg, kw.get("populations"), lag)
    else:
        m = _quiet(tpt.mfpts, X, sinks=snk_arg, lagtime=lag, **kw)
    m = _vec(m, n, "mfpts(sinks)")
    free = check_mfpt(T, m, snk, lag)
    nt = n >= 4 and len(snk) >= 2 and len(free) >= 2
    return Info(nt, _classes(case, ["n_sinks=%s" % min(len(snk), 3), "non_sinks=%s" % min(len(free), 2),
                                    "lag=%s" % _lagclass(lag), "pops=" + case["pops"],
                                    "snk_form=" + case["snk_form"], "style=" + case.get("style", "keyword"),
                                    "negative_ids=%s" % neg]))


def _lagclass(lag):
    return "int" if isinstance(lag, int) else "<=1e-4" if lag <= 1e-4 else "<1" if lag < 1 else ">=1e6" if lag >= 1e6 else ">=1"


# --------------------------------------------------------------------------
# clause 3: all-pairs table, column by column

def allpairs_tol(T, lag):
    """Per-column absolute error allowance of the fundamental-matrix route m_ij = lag*(Z_jj - Z_ij)/pi_j:
    Z = (I - T + 1 pi^T)^-1 is accurate to eps*cond*max|Z|, and the difference is divided by pi_j."""
    n = T.shape[0]
    pi = R.ref_stationary(T)
    A = np.eye(n) - T + np.tile(pi, (n, 1))
    Z = np.linalg.inv(A)
    return lag * R.cond_slack(np.linalg.cond(A)) * float(np.max(np.abs(Z))) / pi


def run_allpairs(case):
    T = R.build_T(case["chain"])
    n = T.shape[0]
    X = R.to_container(T, case["container"])
    lag = case["lag"]
    kw = {}
    if case["pops"] == "given":
        kw["populations"] = R.ref_stationary(T)
    if case.get("style") == "positional":
        A = _quiet(tpt.mfpts, X, None, kw.get("populations"), lag)
    else:
        A = _quiet(tpt.mfpts, X, lagtime=lag, **kw)
    require(isinstance(A, np.ndarray), "all-pairs mfpts is not an ndarray", type=type(A).__name__)
    A = _mat(A, n, "all-pairs mfpts")
    tols = allpairs_tol(T, lag)
    for j in range(n):
        col = A[:, j]
        scale = max(float(lag), float(np.max(np.abs(col))))
        single = _quiet(tpt.mfpts, R.to_container(T, case["container"]),
                        sinks=R.set_arg([j], case["snk_form"]), lagtime=lag)
        single = _vec(single, n, "mfpts(sinks=[j])")
        require(W("col_vs_single", col - single, M_COL * scale + tols[j]),
                "all-pairs column differs from the single-sink computation", j=j,
                column=col.tolist(), single=single.tolist(), lag=lag)
        # the same column against the defining equations (independent of the single-sink code)
        require(W("col_diag", col[j], 1e-9 * scale), "all-pairs table is not 0 on its diagonal", j=j,
                value=float(col[j]))
        others = [i for i in range(n) if i != j]
        colz = col.copy()
        colz[j] = 0.0
        res = col[others] - lag - T[others] @ colz
        require(W("col_res", res, M_RES * scale + tols[j]),
                "all-pairs column violates m_i = lag + sum_k T_ik m_k", j=j, residual=res.tolist(),
                column=col.tolist(), lag=lag)
    return Info(n >= 4, _classes(case, ["lag=%s" % _lagclass(lag), "pops=" + case["pops"]]))


# --------------------------------------------------------------------------
# clause 4: linear in the lag time

def run_lag(case):
    T = R.build_T(case["chain"])
    n = T.shape[0]
    lag, fac, snk = case["lag"], case["factor"], case["sinks"]
    mk = lambda: R.to_container(T, case["container"])
    kw = {}
    if case["pops"] == "given":
        kw["populations"] = R.ref_stationary(T)
    for label, extra in (("sinks", {"sinks": list(snk)}), ("all-pairs", dict(kw))):
        unit = np.asarray(_quiet(tpt.mfpts, mk(), lagtime=1.0, **extra), dtype=np.float64)
        dflt = np.asarray(_quiet(tpt.mfpts, mk(), **extra), dtype=np.float64)
        at = np.asarray(_quiet(tpt.mfpts, mk(), lagtime=lag, **extra), dtype=np.float64)
        at2 = np.asarray(_quiet(tpt.mfpts, mk(), lagtime=lag * fac, **extra), dtype=np.float64)
        want_shape = (n,) if label == "sinks" else (n, n)
        for nm, v in (("lagtime=1", unit), ("default", dflt), ("lagtime=lag", at), ("lagtime=lag*factor", at2)):
            require(v.shape == want_shape and bool(np.all(np.isfinite(v))), "bad %s mfpts (%s)" % (label, nm),
                    shape=v.shape)
        require(R.close(dflt, unit, 0.0, LAG_RTOL), "%s mfpts: default lag time differs from lagtime=1" % label,
                default=dflt.tolist(), unit=unit.tolist())
        require(R.close(at, lag * unit, 0.0, LAG_RTOL), "%s mfpts(lagtime=lag) != lag * mfpts(lagtime=1)" % label,
                lag=lag, got=at.tolist(), want=(lag * unit).tolist())
        require(R.close(at2, fac * at, 0.0, LAG_RTOL),
                "%s mfpts(lagtime=f*lag) != f * mfpts(lagtime=lag)" % label, lag=lag, factor=fac,
                got=at2.tolist(), want=(fac * at).tolist())
        if n > len(snk) or label == "all-pairs":
            require(bool(np.max(np.abs(at)) > 0), "%s mfpts are all zero" % label)
    return Info(n >= 4, _classes(case, ["lag=%s" % _lagclass(lag), "pops=" + case["pops"],
                                        "factor=%s" % ("int" if isinstance(fac, int) else "float")]))


# --------------------------------------------------------------------------
# clause 5: dense and sparse inputs give the same values

def _all_three(X, case, T, form):
    src, snk, lag = case["sources"], case["sinks"], case["lag"]
    kw = {}
    if case["pops"] == "given":
        kw["populations"] = R.ref_stationary(T)
    q = _quiet(tpt.committors, X, R.set_arg(src, form), R.set_arg(snk, form))
    m = _quiet(tpt.mfpts, X, sinks=R.set_arg(snk, form), lagtime=lag)
    A = _quiet(tpt.mfpts, X, lagtime=lag, **kw)
    return q, m, A


def run_same(case):
    T = R.build_T(case["chain"])
    n = T.shape[0]
    form = case["form"]
    q0, m0, A0 = _all_three(R.to_container(T, "ndarray"), case, T, form)
    q0, m0, A0 = _vec(q0, n, "dense committors"), _vec(m0, n, "dense mfpts(sinks)"), _mat(A0, n, "dense mfpts()")
    # anchor the dense values themselves so that "same" cannot mean "equally wrong"
    check_committor(T, q0, case["sources"], case["sinks"])
    check_mfpt(T, m0, case["sinks"], case["lag"])
    sq = R.cond_slack(R.cond_free(T, list(case["sources"]) + list(case["sinks"])))
    sm = R.cond_slack(R.cond_free(T, case["sinks"]))
    sA = float(np.max(allpairs_tol(T, case["lag"])))
    for cont in R.CONTAINERS[1:]:
        X = R.to_container(T, cont)
        q, m, A = _all_three(X, case, T, form)
        q, m = _vec(q, n, "committors[%s]" % cont), _vec(m, n, "mfpts(sinks)[%s]" % cont)
        require(isinstance(A, np.ndarray), "all-pairs mfpts[%s] is not an ndarray" % cont, type=type(A).__name__)
        A = _mat(A, n, "mfpts()[%s]" % cont)
        require(W("same_q", q - q0, SAME_TOL + sq), "committors differ between ndarray and %s input" % cont,
                dense=q0.tolist(), other=q.tolist())
        require(W("same_m", m - m0, (SAME_TOL + sm) * max(float(np.max(np.abs(m0))), float(case["lag"]))),
                "mfpts(sinks) differ between ndarray and %s input" % cont, dense=m0.tolist(), other=m.tolist())
        require(W("same_A", A - A0, SAME_TOL * float(np.max(np.abs(A0))) + sA),
                "all-pairs mfpts differ between ndarray and %s input" % cont, dense=A0.tolist(), other=A.tolist())
    nt = n >= 4 and (len(case["sources"]) >= 2 or len(case["sinks"]) >= 2)
    return Info(nt, _classes(case, ["pops=" + case["pops"], "form=" + form]))


# --------------------------------------------------------------------------
# clause 6: inputs are not modified

def run_nomod(case):
    T = R.build_T(case["chain"])
    n = T.shape[0]
    form = case["form"]
    X = R.to_container(T, case["container"])
    src, snk = R.set_arg(case["sources"], form), R.set_arg(case["sinks"], form)
    pops = R.ref_stationary(T) if case["pops"] == "given" else None
    objs = {"tprob": X, "sources": src, "sinks": snk}
    if pops is not None:
        objs["populations"] = pops
    before = {k: R.snapshot(v) for k, v in objs.items()}

    def unchanged(after_what):
        for k, v in objs.items():
            require(R.snapshot(v) == before[k], "%s modified the caller's %s" % (after_what, k),
                    container=case["container"], form=form)
    q1 = np.array(_quiet(tpt.committors, X, src, snk), dtype=np.float64)
    unchanged("committors")
    m1 = np.array(_quiet(tpt.mfpts, X, sinks=snk, lagtime=case["lag"]), dtype=np.float64)
    unchanged("mfpts(sinks)")
    A1 = np.array(_quiet(tpt.mfpts, X, populations=pops, lagtime=case["lag"]), dtype=np.float64)
    unchanged("mfpts()")
    # and the values held by the container still are the chain: a second evaluation on a fresh copy agrees
    q2 = np.array(_quiet(tpt.committors, R.to_container(T, case["container"]), src, snk), dtype=np.float64)
    require(R.close(q1, q2, 1e-12, 0.0), "committors on the used container differ from a fresh one")
    require(bool(np.array_equal(R.dense_of(X), T)), "container no longer holds the transition matrix")
    return Info(n >= 4, _classes(case, ["pops=" + case["pops"], "form=" + form]))



# --------------------------------------------------------------------------
# clause 7: a second call on the SAME container object after it was refilled in place with another chain

REFILL_CONT = ["ndarray", "ndarray_F", "lil", "csr_expl0"]


@st.composite
def refill_case(draw, max_n=7):
    ch = draw(R.chain(max_n=max_n))
    ch2 = draw(R.chain(min_n=ch["n"], max_n=ch["n"]))
    src, snk = draw(R.disjoint_sets(ch["n"]))
    return {"chain": ch, "chain2": ch2, "sources": src, "sinks": snk, "container": draw(st.sampled_from(REFILL_CONT)),
            "lag": draw(R.lag_strategy()), "first": draw(st.sampled_from(["committors", "mfpts_sinks", "mfpts_all"])),
            "second": draw(st.sampled_from(["committors", "mfpts_sinks", "mfpts_all"]))}


def _refill(X, T2, cont):
    if cont.startswith("ndarray"):
        X[...] = T2
    elif cont == "lil":
        with warnings.catch_warnings():
            warnings.simplefilter("ignore")
            for i in range(T2.shape[0]):
                for j in range(T2.shape[1]):
                    X[i, j] = T2[i, j]
    else:                       # csr storing every entry: rewrite the value buffer
        X.data[...] = T2.ravel()
    require(bool(np.array_equal(R.dense_of(X), T2)), "harness: refill failed")


def run_refill(case):
    T, T2 = R.build_T(case["chain"]), R.build_T(case["chain2"])
    n = T.shape[0]
    X = R.to_container(T, case["container"])
    src, snk, lag = case["sources"], case["sinks"], case["lag"]

    def call(which):
        if which == "committors":
            return _vec(_quiet(tpt.committors, X, list(src), list(snk)), n, "committors")
        if which == "mfpts_sinks":
            return _vec(_quiet(tpt.mfpts, X, sinks=list(snk), lagtime=lag), n, "mfpts(sinks)")
        A = _quiet(tpt.mfpts, X, lagtime=lag)
        return _mat(A, n, "all-pairs mfpts")
    first = call(case["first"])
    kept = np.array(first, copy=True)
    _refill(X, T2, case["container"])
    second = call(case["second"])
    require(np.array_equal(first, kept), "the result of the first call changed when the function was called again",
            first=kept.tolist(), now=np.asarray(first).tolist())
    if case["second"] == "committors":
        check_committor(T2, second, src, snk)
    elif case["second"] == "mfpts_sinks":
        check_mfpt(T2, second, snk, lag)
    else:
        fresh = _mat(_quiet(tpt.mfpts, R.to_container(T2, case["container"]), lagtime=lag), n, "all-pairs mfpts")
        tol = float(np.max(allpairs_tol(T2, lag)))
        require(W("refill_A", second - fresh, SAME_TOL * float(np.max(np.abs(fresh))) + tol),
                "all-pairs mfpts on a refilled container differ from those of a fresh container with the same values",
                refilled=second.tolist(), fresh=fresh.tolist())
    return Info(n >= 4 and not np.array_equal(T, T2), _classes(case, ["first=" + case["first"], "second=" + case["second"]]))


# --------------------------------------------------------------------------
# clause 8: all-pairs table of hundreds of states (seeded): every column, also the last ones, is a single-sink solve

@st.composite
def many_states_case(draw):
    return {"n": draw(st.sampled_from([150, 200, 255, 511, 512, 513, 600, 700, 1025])), "seed": draw(st.integers(0, 2 ** 31 - 1)),
            "lag": draw(st.sampled_from([1.0, 1.0, 0.5, 20])), "container": draw(st.sampled_from(["ndarray", "ndarray_F", "csr"])),
            "cols": draw(st.lists(st.integers(0, 10 ** 6), min_size=2, max_size=4))}


def run_many_states(case):
    rng = np.random.RandomState(case["seed"])            # seed drawn by Hypothesis
    n, lag = case["n"], case["lag"]
    Wt = rng.rand(n, n) + 0.05
    Wt = Wt * (rng.rand(n, n) < 0.3) + np.diag(rng.rand(n))
    for k in range(n):
        Wt[k, (k + 1) % n] += 0.5
    T = Wt / Wt.sum(axis=1)[:, None]
    A = _quiet(tpt.mfpts, R.to_container(T, case["container"]), lagtime=lag)
    require(isinstance(A, np.ndarray), "all-pairs mfpts is not an ndarray", type=type(A).__name__)
    A = _mat(A, n, "all-pairs mfpts")
    cols = sorted(set([0, n - 1, n - 2, 511 % n, 512 % n] + [c % n for c in case["cols"]]))
    for j in cols:
        # the sink id in whatever integer type the caller's state list has (the narrowest one that holds it, every
        # second time): an id is an id
        jj = [j]
        if (j + case["seed"]) % 2 == 0:
            jj = np.array([j], dtype=np.uint8 if j < 256 else np.uint16 if j < 65536 else np.int64)
        single = _vec(_quiet(tpt.mfpts, R.to_container(T, case["container"]), sinks=jj, lagtime=lag), n, "mfpts(sinks=[j])")
        if j % 3 == 0:
            src = (j + n // 2) % n
            kk = np.array([j], dtype=np.uint8) if j < 256 else np.array([j], dtype=np.uint16)
            q = _vec(_quiet(tpt.committors, R.to_container(T, case["container"]), np.array([src], dtype=kk.dtype) if src < 256 or kk.dtype != np.uint8 else [src], kk), n, "committors")
            require(abs(q[j] - 1.0) <= 1e-12 and abs(q[src]) <= 1e-12, "committor is not 1 on the sink / 0 on the source "
                    "(state ids given in a narrow integer type)", sink=j, source=src, q_sink=float(q[j]), q_source=float(q[src]),
                    id_dtype=str(kk.dtype))
            free = np.array([i for i in range(n) if i not in (j, src)])
            res_q = q[free] - T[free] @ q
            require(float(np.max(np.abs(res_q))) <= 1e-9, "committor violates the first-step equation (hundreds of states, "
                    "narrow id type)", worst=float(np.max(np.abs(res_q))), sink=j, source=src)
        col = A[:, j]
        scale = max(float(lag), float(np.max(np.abs(single))))
        require(float(np.max(np.abs(col - single))) <= 1e-6 * scale, "all-pairs column differs from the single-sink computation "
                "(hundreds of states)", j=j, n=n, column=col[:4].tolist(), single=single[:4].tolist(),
                max_abs_column=float(np.max(np.abs(col))))
        others = np.array([i for i in range(n) if i != j])
        colz = single.copy()
        colz[j] = 0.0
        res = single[others] - lag - T[others] @ colz
        require(float(np.max(np.abs(res))) <= 1e-7 * scale, "single-sink mfpts violate m_i = lag + sum_k T_ik m_k (hundreds of states)",
                j=j, worst=float(np.max(np.abs(res))))
    return Info(n > 512, ["many_n=%d" % n, "many_container=" + case["container"]],
                key=[n, case["seed"], case["lag"], case["container"], case["cols"]])


# --------------------------------------------------------------------------
# clause 9: seeded medium chains - (a) sink sets covering half of 17..40 states and more, (b) float32 transition
# matrices with dyadic entries in every container (the answer is the double-precision one), (c) chains that are
# symmetric up to a relative 1e-6 (all-pairs table with library-computed populations)

@st.composite
def medium_case(draw):
    return {"n": draw(st.integers(17, 40)), "seed": draw(st.integers(0, 2 ** 31 - 1)),
            "kind": draw(st.sampled_from(["many_sinks", "many_sinks", "float32_dyadic", "near_symmetric"])),
            "container": draw(st.sampled_from(R.CONTAINERS)), "lag": draw(st.sampled_from([1.0, 0.5, 3])),
            "frac": draw(st.sampled_from([0.5, 0.6, 0.9]))}


def run_medium(case):
    rng = np.random.RandomState(case["seed"])            # seed drawn by Hypothesis
    n, lag, kind = case["n"], case["lag"], case["kind"]
    if kind == "near_symmetric":
        # symmetric circulant (doubly stochastic) plus a relative asymmetry of ~1e-6: not symmetric, "close" to it
        c = rng.randint(1, 30, size=n // 2 + 1).astype(float)
        Wt = np.array([[c[min(abs(i - j), n - abs(i - j))] for j in range(n)] for i in range(n)]) * 1e6
        Wt = Wt + rng.randint(0, 40, size=(n, n)) * (1 - np.eye(n))
        T = Wt / Wt.sum(axis=1)[:, None]
        A = _mat(_quiet(tpt.mfpts, R.to_container(T, case["container"]), lagtime=lag), n, "all-pairs mfpts")
        tols = allpairs_tol(T, lag)
        for j in sorted(set([0, n - 1] + rng.randint(0, n, size=3).tolist())):
            single = R.ref_mfpt(T, [j], lag)
            scale = max(float(lag), float(np.max(np.abs(single))))
            require(float(np.max(np.abs(A[:, j] - single))) <= 1e-9 * scale + tols[j], "all-pairs column differs from the "
                    "single-sink reference on a nearly symmetric chain", j=j, n=n, worst=float(np.max(np.abs(A[:, j] - single))),
                    scale=scale)
        return Info(True, ["medium=" + kind, "container=" + case["container"]], key=[case[k_] for k_ in sorted(case)])
    Wi = rng.randint(0, 8, size=(n, n)) * (rng.rand(n, n) < 0.4)
    for k in range(n):
        Wi[k, (k + 1) % n] += 1
        Wi[k, (k - 1) % n] += 1
    if kind == "float32_dyadic":
        off = Wi.sum(axis=1) - np.diag(Wi)
        tot = 1
        while tot <= int(off.max()):
            tot *= 2
        Wi[np.arange(n), np.arange(n)] = tot - off
        T = Wi / float(tot)                                  # every entry k / 2**m: exact in float32
        X = R.to_container(T, case["container"]).astype(np.float32)
        require(bool(np.array_equal(R.dense_of(X).astype(np.float64), T)), "harness: T not exact in float32")
    else:
        T = Wi / Wi.sum(axis=1)[:, None]
        X = R.to_container(T, case["container"])
    perm = rng.permutation(n)
    if kind == "many_sinks":
        k = max(1, int(round(case["frac"] * n)))
        snk = [int(v) for v in perm[:min(k, n - 1)]]
        m = _vec(_quiet(tpt.mfpts, X, sinks=list(snk), lagtime=lag), n, "mfpts(sinks)")
        check_mfpt(T, m, snk, lag)
        return Info(len(snk) * 2 >= n, ["medium=" + kind, "container=" + case["container"], "sinks_share=%s" % case["frac"]],
                    key=[case[k_] for k_ in sorted(case)])
    src = [int(v) for v in perm[:2]]
    snk = [int(v) for v in perm[2:5]]
    q = _vec(_quiet(tpt.committors, X, list(src), list(snk)), n, "committors")
    check_committor(T, q, src, snk)
    m = _vec(_quiet(tpt.mfpts, X, sinks=list(snk), lagtime=lag), n, "mfpts(sinks)")
    check_mfpt(T, m, snk, lag)
    return Info(True, ["medium=" + kind, "container=" + case["container"]], key=[case[k_] for k_ in sorted(case)])

# --------------------------------------------------------------------------
# exhaustive sub-domains (thorough): every source/sink pair, every sink set, on three fixed chains

FIXED = [
    {"n": 4, "kind": "sparse", "E": None,
     "M": [[5, 4, 1, 0], [5, 10, 4, 1], [2, 3, 10, 5], [0, 2, 8, 10]]},
    {"n": 4, "kind": "periodic", "E": None,
     "M": [[0, 3, 0, 7], [2, 0, 5, 0], [0, 1, 0, 9], [4, 0, 6, 0]]},
    {"n": 5, "kind": "rev", "E": None,
     "M": [[4, 2, 0, 0, 1], [2, 0, 7, 3, 0], [0, 7, 1, 5, 0], [0, 3, 5, 0, 9], [1, 0, 0, 9, 2]]},
]
EXH_CONT = ["ndarray", "csr", "lil"]


def exhaustive_committor(tier, shard, nshards):
    if tier != "thorough":
        return None

    def gen():
        idx = 0
        for ch in FIXED:
            n = ch["n"]
            for lab in itertools.product((0, 1, 2), repeat=n):
                src = [i for i in range(n) if lab[i] == 1]
                snk = [i for i in range(n) if lab[i] == 2]
                if not src or not snk:
                    continue
                for cont in EXH_CONT:
                    idx += 1
                    if idx % nshards != shard:
                        continue
                    yield {"chain": ch, "container": cont, "sources": src, "sinks": snk,
                           "src_form": "list", "snk_form": "int64"}
    return gen()


def exhaustive_mfpt(tier, shard, nshards):
    if tier != "thorough":
        return None

    def gen():
        idx = 0
        for ch in FIXED:
            n = ch["n"]
            for lab in itertools.product((0, 1), repeat=n):
                snk = [i for i in range(n) if lab[i]]
                if not snk:
                    continue
                for cont in EXH_CONT:
                    idx += 1
                    if idx % nshards != shard:
                        continue
                    yield {"chain": ch, "container": cont, "sinks": snk, "snk_form": "list",
                           "lag": 2.5, "pops": "none"}
    return gen()


# --------------------------------------------------------------------------
# >= 1000-state sparse chains: the all-pairs table takes its stationary vector from the sparse (ARPACK) eigen-solver

@st.composite
def arpack_case(draw):
    return {"n": draw(st.sampled_from([1000, 1001, 1100])), "seed": draw(st.integers(0, 2 ** 31 - 1)),
            "n_clusters": draw(st.integers(2, 4)), "container": draw(st.sampled_from(["csr", "coo", "csc"])),
            "lag": draw(st.sampled_from([1.0, 0.5, 3.0])), "cols": draw(st.lists(st.integers(0, 999), min_size=2, max_size=3))}


def run_arpack(case):
    from vf import ref_c16
    n = case["n"]
    Ts = ref_c16.seeded_big_sparse(n, case["seed"], "rev_clusters", n_clusters=case["n_clusters"])
    T = np.asarray(Ts.toarray())
    X = {"csr": Ts.tocsr(), "coo": Ts.tocoo(), "csc": Ts.tocsc()}[case["container"]]
    table = np.asarray(_quiet(tpt.mfpts, X, lagtime=case["lag"]))
    require(table.shape == (n, n), "all-pairs MFPT table has the wrong shape", shape=table.shape)
    for j in sorted(set(int(c) % n for c in case["cols"])):
        # first-step equations of column j, evaluated with dense numpy on the dense copy of the chain
        m = table[:, j]
        require(abs(m[j]) <= 1e-6 * (1 + np.max(np.abs(m))), "all-pairs table: MFPT from a state to itself is not 0",
                j=j, value=float(m[j]))
        rhs = case["lag"] + T.dot(m)
        free = np.arange(n) != j
        res = np.abs(m[free] - rhs[free])
        require(np.all(res <= 1e-6 * (1 + np.abs(m[free]))),
                "all-pairs column does not satisfy m_i = lag + sum_j T_ij m_j on a >=1000-state sparse chain",
                j=j, worst=float(res.max()), typical=float(np.median(np.abs(m))))
        single = np.asarray(_quiet(tpt.mfpts, X, sinks=[j], lagtime=case["lag"])).ravel()
        require(np.allclose(single, m, rtol=1e-6, atol=1e-6 * (1 + np.max(np.abs(m)))),
                "all-pairs column differs from the single-sink computation (>=1000-state sparse chain)", j=j,
                worst=float(np.max(np.abs(single - m))))
    return Info(True, ["arpack_container=" + case["container"], "arpack_n=%d" % n],
                key=[case["n"], case["seed"], case["container"]])


CLAUSES = [
    Clause("committor_first_step", committor_case(), run_committor, quick=2000, thorough=12000,
           exhaustive=exhaustive_committor,
           doc="q=0 on sources, 1 on sinks, in [0,1], q_i = sum_j T_ij q_j elsewhere"),
    Clause("mfpt_sinks_first_step", mfpt_case(), run_mfpt_sinks, quick=1600, thorough=10000,
           exhaustive=exhaustive_mfpt,
           doc="m=0 on sinks, m_i = lag + sum_j T_ij m_j elsewhere"),
    Clause("mfpt_allpairs_columns", allpairs_case(), run_allpairs, quick=800, thorough=5000,
           doc="all-pairs column j == mfpts(sinks=[j]) and satisfies the same equations"),
    Clause("arpack_chain", arpack_case(), run_arpack, quick=8, thorough=48,
           doc="all-pairs table on >=1000-state sparse chains (stationary vector from the sparse eigen-solver)"),
    Clause("mfpt_lag_linear", lag_case(), run_lag, quick=600, thorough=5000,
           doc="mfpts(lagtime=t) == t * mfpts(lagtime=1), default lag is 1"),
    Clause("dense_sparse_same", multi_case(), run_same, quick=300, thorough=2000,
           doc="every sparse container gives the ndarray values"),
    Clause("inputs_unmodified", nomod_case(), run_nomod, quick=800, thorough=5000,
           doc="tprob, sources, sinks, populations are left as passed"),
    Clause("second_call_refilled", refill_case(), run_refill, quick=600, thorough=5000,
           doc="call, refill the same container object in place with another chain, call again: values are those of the new chain"),
    Clause("allpairs_many_states", many_states_case(), run_many_states, quick=12, thorough=80,
           doc="511..1025 states: columns 0, 511, 512, n-2, n-1 and drawn ones of the all-pairs table == single-sink solves"),
    Clause("medium_chains", medium_case(), run_medium, quick=200, thorough=3000,
           doc="17..40 states (seeded): sink sets of half the states and more; float32 dyadic matrices in every container; "
               "nearly symmetric chains (all-pairs, computed populations)"),
    Clause("committor_first_step_large", committor_case(max_n=25), run_committor, quick=0, thorough=2500),
    Clause("mfpt_sinks_first_step_large", mfpt_case(max_n=25), run_mfpt_sinks, quick=0, thorough=2500),
    Clause("mfpt_allpairs_columns_large", allpairs_case(max_n=16), run_allpairs, quick=0, thorough=800),
    Clause("dense_sparse_same_large", multi_case(max_n=20), run_same, quick=0, thorough=400),
]


# --------------------------------------------------------------------------
# matcher for the (repairable, see proposed_fixes/C07-1.diff) defect: mfpts rejects every sparse container

def m_mfpts_sparse_len(case, exc):
    """mfpts() on a scipy.sparse input dies in `len(tprob)` before computing anything."""
    import traceback
    if not isinstance(exc, (TypeError, ValueError)):
        return False
    frames = [(f.filename, f.name) for f in traceback.extract_tb(exc.__traceback__)]
    inside = any(fn.endswith("enspara/tpt/core.py") and name == "mfpts" for fn, name in frames)
    last = frames[-1] if frames else ("", "")
    msg = str(exc)
    is_len = "sparse array length is ambiguous" in msg
    is_dok = isinstance(exc, ValueError) and "could not be broadcast" in msg      # dok: len() == nnz
    cont = case.get("container")
    sparse_case = cont in R.SPARSE or cont is None   # `dense_sparse_same` walks over all containers
    return inside and sparse_case and (is_len or is_dok)


MATCHERS = {"mfpts_sparse_len": m_mfpts_sparse_len}
