#!/venv/bin/python
"""Entry point: run_check.py <Cnn> --tier quick|thorough [--replay FILE]

exit 0  property held on everything explored (KNOWN-FINDING lines allowed)
exit 1  + "VIOLATION property=<id> replay=<path>" for an unlisted violation
exit 2  harness error (build failure, wrong import, health check, flaky replay)
"""
import argparse
import importlib
import json
import os
import subprocess
import sys
import time

VERIF = os.path.dirname(os.path.abspath(__file__))
sys.path.insert(0, VERIF)
os.environ.setdefault("OPENBLAS_NUM_THREADS", "1")
os.environ.setdefault("MKL_NUM_THREADS", "1")
os.environ.setdefault("MPLBACKEND", "Agg")
os.environ.setdefault("PYTHONHASHSEED", "0")
os.environ.setdefault("OMP_WAIT_POLICY", "passive")
os.environ.setdefault("NUMEXPR_MAX_THREADS", "1")


def main():
    ap = argparse.ArgumentParser()
    ap.add_argument("prop")
    ap.add_argument("--tier", default=os.environ.get("VERIF_TIER", "quick"), choices=["quick", "thorough"])
    ap.add_argument("--replay")
    ap.add_argument("--replay-crash", help="internal: evaluate the case in FILE (clause+case JSON); used to confirm a crash")
    ap.add_argument("--shard", type=int, default=None)
    ap.add_argument("--nshards", type=int, default=None)
    ap.add_argument("--out")
    ap.add_argument("--clauses", default=None, help="comma list (debug)")
    ap.add_argument("--scale", type=float, default=1.0, help="multiply example counts (debug)")
    a = ap.parse_args()
    prop = a.prop.upper()
    seed = int(os.environ.get("VERIF_SEED", "1") or "1")

    if os.environ.get("PYTHONHASHSEED") != "0" and a.shard is None:
        os.environ["PYTHONHASHSEED"] = "0"
        os.execv(sys.executable, [sys.executable] + sys.argv)

    from vf import build
    if a.shard is None:
        try:
            build.ensure()
        except build.BuildError as e:
            sys.stderr.write("HARNESS-ERROR build: %s\n" % e)
            return 2

    if a.replay_crash:
        from vf import harness
        mod = load(prop)
        rec = json.load(open(a.replay_crash))
        clause = {c.name: c for c in mod.CLAUSES}[rec["clause"]]
        st = harness.ClauseStats(clause.name)
        limit_memory()
        print("REPLAY-CRASH-EVALUATING", flush=True)      # everything after this line is the library's doing
        harness.evaluate(clause, rec["case"], st, [])
        return 0
    if a.replay:
        return replay(prop, a.replay)
    if a.shard is not None:
        return run_shard(prop, a.tier, seed, a.shard, a.nshards, a.out, a.clauses, a.scale)
    return run_parent(prop, a.tier, seed, a.nshards, a.clauses, a.scale)


def load(prop):
    from vf import env
    mod_name = "checks.%s" % prop.lower()
    # the module may ask for the fake MPI world before enspara is imported
    spec = importlib.util.find_spec(mod_name)
    src = open(spec.origin).read()
    mpi = "fake" if "VF_MPI = 'fake'" in src else "block"
    env.setup(mpi=mpi)
    return importlib.import_module(mod_name)


def replay(prop, path):
    from vf import harness
    mod = load(prop)
    rec = json.load(open(path))
    clause = {c.name: c for c in mod.CLAUSES}[rec["clause"]]
    if rec.get("signature") == "crash":
        # the recorded case killed the interpreter: replay it in a child process
        tmp = path + ".crashreplay"
        json.dump({"clause": rec["clause"], "case": rec["case"]}, open(tmp, "w"))
        env2 = dict(os.environ)
        env2["VERIF_NO_LASTCASE"] = "1"
        r = subprocess.run([sys.executable, os.path.abspath(__file__), prop, "--replay-crash", tmp, "--shard", "0",
                            "--nshards", "1"], cwd=VERIF, env=env2, capture_output=True, text=True)
        os.unlink(tmp)
        if r.returncode != 0 and "REPLAY-CRASH-EVALUATING" in (r.stdout or ""):
            print("VIOLATION property=%s replay=%s" % (prop, path))
            print("  clause=%s interpreter ended abnormally (%s)" % (
                clause.name, "signal %d" % -r.returncode if r.returncode < 0 else "exit status %d" % r.returncode))
            return 1
        print("REPLAY-OK property=%s clause=%s (case no longer crashes)" % (prop, clause.name))
        return 0
    known = harness.load_known(prop, getattr(mod, "MATCHERS", {}))
    st = harness.ClauseStats(clause.name)
    exc = harness.evaluate(clause, rec["case"], st, [])
    if exc is None:
        print("REPLAY-OK property=%s clause=%s (case passes)" % (prop, clause.name))
        return 0
    for k in known:
        if k.matches(clause.name, rec["case"], exc):
            print("KNOWN-FINDING: property=%s %s" % (prop, k.entry["what"]))
            return 0
    print("VIOLATION property=%s replay=%s" % (prop, path))
    print("  clause=%s %s: %s" % (clause.name, type(exc).__name__, str(exc)[:1500]))
    return 1


def limit_memory():
    """Soft address-space limit for a shard process (VERIF_SHARD_MEM_GB, default 6): a library change that makes a
    routine loop while appending to a list would otherwise eat the machine before the per-case wall-clock guard fires;
    with the limit the routine dies with MemoryError, which is reported like any other exception of the library.
    Only the soft limit is set, so sanitizer children (which need a huge address space) lift it again."""
    try:
        import resource
        gb = float(os.environ.get("VERIF_SHARD_MEM_GB", "6"))
        if gb > 0:
            soft, hard = resource.getrlimit(resource.RLIMIT_AS)
            want = int(gb * 2 ** 30)
            if hard != resource.RLIM_INFINITY:
                want = min(want, hard)
            resource.setrlimit(resource.RLIMIT_AS, (want, hard))
    except Exception:
        pass


def run_shard(prop, tier, seed, shard, nshards, out, clause_filter, scale):
    from vf import harness
    import hypothesis
    limit_memory()
    try:
        mod = load(prop)
    except Exception as e:
        import traceback
        traceback.print_exc()
        json.dump({"harness_error": "import: %r" % (e,)}, open(out, "w"))
        return 2
    known = harness.load_known(prop, getattr(mod, "MATCHERS", {}))
    if out and not os.environ.get("VERIF_NO_LASTCASE"):
        harness.LASTCASE = open(out + ".last", "w")
    results = []
    err = None
    want = set(clause_filter.split(",")) if clause_filter else None
    for ci, clause in enumerate(mod.CLAUSES):
        if want and clause.name not in want:
            continue
        if harness.RUNAWAY:
            # a case of an earlier clause exhausted the memory limit (reported as that clause's failure): this process'
            # address space is used up, the remaining clauses of this shard are not run
            err = err or None
            break
        n = clause.quick if tier == "quick" else clause.thorough
        n = int(n * scale)
        if n > 0:
            per = max(1, (n + nshards - 1) // nshards)
            s = (seed * 1000 + shard) * 100 + ci
            try:
                st = (harness.drive_stateful if clause.stateful else harness.drive)(prop, clause, per, s, known)
            except (hypothesis.errors.FailedHealthCheck, hypothesis.errors.Unsatisfiable) as e:
                err = "health check in clause %s: %s" % (clause.name, str(e)[:500])
                break
            except Exception as e:
                import traceback
                err = "clause %s harness error: %s" % (clause.name, traceback.format_exc()[-1500:])
                break
            results.append(st.to_json())
        if clause.exhaustive is not None:
            cases = clause.exhaustive(tier, shard, nshards)
            if cases is not None:
                st = harness.drive_exhaustive(prop, clause, cases, known)
                results.append(st.to_json())
    json.dump({"harness_error": err, "clauses": results}, open(out, "w"), default=harness.jdefault)
    return 2 if err else 0


def run_parent(prop, tier, seed, nshards, clause_filter, scale):
    from vf import harness, build
    t0 = time.time()
    tmpd = os.path.join(build.BUILD, "tmp", "%s-%s-%d" % (prop, tier, os.getpid()))
    os.makedirs(tmpd, exist_ok=True)
    # cheap import in the parent to get metadata + witness replays
    try:
        mod = load(prop)
    except Exception as e:
        import traceback
        traceback.print_exc()
        sys.stderr.write("HARNESS-ERROR import: %r\n" % (e,))
        return 2
    if nshards is None:
        nshards = getattr(mod, "SHARDS", {}).get(tier, 4 if tier == "quick" else 16)
    known = harness.load_known(prop, getattr(mod, "MATCHERS", {}))
    clauses = {c.name: c for c in mod.CLAUSES}
    if hasattr(mod, "prepare"):
        try:
            mod.prepare(tier)
        except Exception as e:
            sys.stderr.write("HARNESS-ERROR prepare: %s\n" % (str(e)[-3000:],))
            return 2

    known_lines = []
    for k in known:
        w = k.entry.get("witness")
        if not w:
            continue
        rec = json.load(open(os.path.join(VERIF, w)))
        st = harness.ClauseStats(rec["clause"])
        exc = harness.evaluate(clauses[rec["clause"]], rec["case"], st, [])
        if exc is not None and k.matches(rec["clause"], rec["case"], exc):
            known_lines.append("KNOWN-FINDING: property=%s %s" % (prop, k.entry["what"]))
        elif exc is not None:
            # witness fails but differently: report as a violation
            pass

    # replay tier: the shrunk inputs of defects that were repaired (known_findings.json: "fixed") are evaluated on every
    # run, without Hypothesis; a fixed entry suppresses nothing - if the input fails again it is a violation
    regression_failures, n_regressions = [], 0
    rdir = os.path.join(VERIF, "regressions", prop)
    for fn in sorted(os.listdir(rdir)) if os.path.isdir(rdir) and not clause_filter else []:
        if not fn.endswith(".json"):
            continue
        rec = json.load(open(os.path.join(rdir, fn)))
        if rec.get("clause") not in clauses:
            continue
        n_regressions += 1
        st = harness.ClauseStats(rec["clause"])
        exc = harness.evaluate(clauses[rec["clause"]], rec["case"], st, [])
        if exc is not None and not any(k.matches(rec["clause"], rec["case"], exc) for k in known):
            regression_failures.append({"clause": rec["clause"], "replay": os.path.join(rdir, fn), "reproduced": True,
                                        "signature": "regression",
                                        "message": "saved input of a repaired defect fails again: %s" % (str(exc)[:300],)})

    procs = []
    for i in range(nshards):
        out = os.path.join(tmpd, "shard%d.json" % i)
        cmd = [sys.executable, os.path.abspath(__file__), prop, "--tier", tier,
               "--shard", str(i), "--nshards", str(nshards), "--out", out, "--scale", str(scale)]
        if clause_filter:
            cmd += ["--clauses", clause_filter]
        env = dict(os.environ)
        env["VERIF_SEED"] = str(seed)
        log = open(os.path.join(tmpd, "shard%d.log" % i), "w")
        procs.append((i, out, subprocess.Popen(cmd, cwd=VERIF, env=env, stdout=log, stderr=subprocess.STDOUT), log))
    harness_errors = []
    merged = {}
    shard_timeout = float(os.environ.get("VERIF_SHARD_TIMEOUT", "1200" if tier == "quick" else "21600"))
    deadline = time.time() + shard_timeout
    crash_failures = []
    for i, out, p, log in procs:
        try:
            rc = p.wait(timeout=max(1.0, deadline - time.time()))
        except subprocess.TimeoutExpired:
            p.kill()
            p.wait()
            rc = "timeout"
        log.close()
        if rc == "timeout":
            last = open(out + ".last").read()[:600] if os.path.exists(out + ".last") else "?"
            harness_errors.append("INCONCLUSIVE: shard %d did not finish within %.0f s and was killed (never a verdict); "
                                  "last case: %s" % (i, shard_timeout, last))
            continue
        if not os.path.exists(out):
            tail = open(os.path.join(tmpd, "shard%d.log" % i)).read()[-2000:]
            confirmed = None
            if isinstance(rc, int) and rc != 0 and os.path.exists(out + ".last") and os.path.getsize(out + ".last") > 0:
                # the interpreter was killed by a signal, or a C library ended the process (e.g. libgomp's "Out of
                # memory" exit under the shard's memory limit): re-run the last case alone, in a fresh process
                cmd = [sys.executable, os.path.abspath(__file__), prop, "--replay-crash", out + ".last",
                       "--shard", "0", "--nshards", "1"]
                env2 = dict(os.environ)
                env2["VERIF_NO_LASTCASE"] = "1"
                try:
                    r2 = subprocess.run(cmd, cwd=VERIF, env=env2, capture_output=True, text=True, timeout=900)
                    confirmed = r2.returncode != 0 and "REPLAY-CRASH-EVALUATING" in (r2.stdout or "")
                    rc2 = r2.returncode
                except subprocess.TimeoutExpired:
                    confirmed, rc2 = False, "timeout"
                if confirmed:
                    rec = json.load(open(out + ".last"))
                    d = os.path.join(harness.OUT, "replays", prop)
                    os.makedirs(d, exist_ok=True)
                    path = os.path.join(d, "%s-crash-%s.json" % (rec["clause"], harness.case_hash(rec["case"])))
                    json.dump({"property": prop, "clause": rec["clause"], "case": rec["case"],
                               "message": "interpreter ended abnormally (%s) while evaluating this case (reproduced in a "
                                          "fresh process: %s)%s" % (
                                              "signal %d" % -rc if rc < 0 else "exit status %d" % rc,
                                              "signal %d" % -rc2 if rc2 < 0 else "exit status %d" % rc2,
                                              (": " + tail.strip().splitlines()[-1][:200]) if tail.strip() else ""),
                               "signature": "crash"},
                              open(path, "w"), indent=1)
                    crash_failures.append({"clause": rec["clause"], "replay": path, "reproduced": True, "signature": "crash",
                                           "message": "interpreter ended abnormally (%s) while evaluating this case; "
                                                      "reproduced in a fresh process%s" % (
                                                          "signal %d" % -rc if rc < 0 else "exit status %d" % rc,
                                                          (": " + tail.strip().splitlines()[-1][:200]) if tail.strip() else "")})
            if not confirmed:
                harness_errors.append("shard %d died rc=%s (crash not reproducible from its last case): %s" % (i, rc, tail))
            continue
        try:
            data = json.load(open(out))
        except Exception as e:
            harness_errors.append("shard %d left no readable result file (%s)" % (i, type(e).__name__))
            continue
        if data.get("harness_error"):
            harness_errors.append("shard %d: %s" % (i, data["harness_error"]))
        for c in data.get("clauses", []):
            m = merged.setdefault(c["clause"], {"clause": c["clause"], "evaluations": 0, "nt": set(), "classes": {},
                                                "samples": [], "nt_samples": [], "skipped_out_of_domain": 0,
                                                "excluded_known": {}, "failures": [], "exhaustive": True, "wall_s": 0.0,
                                                "is_exh": c["clause"].endswith(":exhaustive")})
            m["evaluations"] += c["evaluations"]
            m["nt"].update(c["nt_hashes"])
            for k2, v in c["classes"].items():
                m["classes"][k2] = m["classes"].get(k2, 0) + v
            if len(m["samples"]) < 2:
                m["samples"] += c["samples"][:1]
            if len(m["nt_samples"]) < 3:
                m["nt_samples"] += c["nt_samples"][:1]
            m["skipped_out_of_domain"] += c["skipped_out_of_domain"]
            for k2, v in c["excluded_known"].items():
                m["excluded_known"][k2] = m["excluded_known"].get(k2, 0) + v
            m["failures"] += c["failures"]
            if c.get("n_timeouts"):
                harness_errors.append("INCONCLUSIVE: clause %s shard %d: %d case(s) exceeded the per-case wall-clock guard, e.g. %s"
                                      % (c["clause"], i, c["n_timeouts"], json.dumps(c.get("timeouts", [])[:1])[:400]))
            m["exhaustive"] = m["exhaustive"] and c["exhaustive"]
            m["wall_s"] = max(m["wall_s"], c["wall_s"])

    failures = list(regression_failures) + list(crash_failures)
    flaky = []
    for m in merged.values():
        for f in m["failures"]:
            (failures if f["reproduced"] else flaky).append(f)

    wall = time.time() - t0
    clause_out = []
    total_eval = 0
    total_nt = 0
    samples = []
    any_exh = False
    for name, m in merged.items():
        total_eval += m["evaluations"]
        total_nt += len(m["nt"])
        for s in m["nt_samples"][:2] or m["samples"][:1]:
            if len(samples) < 8:
                samples.append({"clause": name, "case": s})
        ex = bool(m["is_exh"] and m["exhaustive"])
        any_exh = any_exh or ex
        clause_out.append({"clause": name, "evaluations": m["evaluations"],
                           "distinct_nontrivial": len(m["nt"]), "classes": dict(sorted(m["classes"].items())),
                           "skipped_out_of_domain": m["skipped_out_of_domain"],
                           "excluded_known": m["excluded_known"], "exhaustive": ex,
                           "failures": m["failures"], "wall_s": m["wall_s"]})
    ev = {
        "property_id": prop, "tier": tier, "seed": seed,
        "level": getattr(mod, "LEVEL", "exploration"),
        "coverage": {
            "evaluations": total_eval,
            "distinct_nontrivial": total_nt,
            "rule": mod.RULE,
            "samples": samples,
            "clauses": clause_out,
            "exhaustive_subdomains": [c["clause"] for c in clause_out if c["exhaustive"]],
            "shards": nshards,
            "known_findings_reproduced": known_lines,
            "regression_inputs_replayed": n_regressions,
        },
        "assumptions": getattr(mod, "ASSUMPTIONS", []),
        "wall_s": round(wall, 2),
        "violations": len(failures),
    }
    if harness_errors:
        ev["coverage"]["harness_errors"] = harness_errors
    os.makedirs(os.path.join(harness.OUT, "evidence"), exist_ok=True)
    with open(os.path.join(harness.OUT, "evidence", "%s.json" % prop), "w") as f:
        json.dump(ev, f, indent=1, default=harness.jdefault)

    for line in known_lines:
        print(line)
    print("%s tier=%s seed=%d evaluations=%d distinct_nontrivial=%d wall=%.1fs" %
          (prop, tier, seed, total_eval, total_nt, wall))
    for c in clause_out:
        print("  %-34s eval=%-7d nt=%-6d %s%s" % (c["clause"], c["evaluations"], c["distinct_nontrivial"],
                                                   "EXHAUSTIVE " if c["exhaustive"] else "",
                                                   ("excluded_known=%s" % c["excluded_known"]) if c["excluded_known"] else ""))
    import shutil
    if failures:
        seen = set()
        for f in failures:
            if f["replay"] in seen:
                continue
            seen.add(f["replay"])
            print("VIOLATION property=%s replay=%s" % (prop, f["replay"]))
            print("  clause=%s signature=%s %s" % (f["clause"], f["signature"], f["message"][:400]))
        shutil.rmtree(tmpd, ignore_errors=True)
        return 1
    if harness_errors or flaky:
        for h in harness_errors:
            sys.stderr.write("HARNESS-ERROR %s\n" % h)
        for f in flaky:
            sys.stderr.write("HARNESS-ERROR non-reproducible failure clause=%s replay=%s\n" % (f["clause"], f["replay"]))
        return 2
    shutil.rmtree(tmpd, ignore_errors=True)
    return 0


if __name__ == "__main__":
    sys.exit(main())
