"""Shared generators and reference models for the MSM builder properties
(C04, C12, C16).

Nothing in here imports enspara.  Everything random is drawn by Hypothesis
inside the strategies; every helper is a pure function of its arguments.

Generators
----------
count_matrices(...)   strategy -> JSON case {"n", "C" (nested list), "dtype", "flavour"}
priors(n)             strategy -> None | {"scalar": v} | {"matrix": nested list, "dtype": ...}
containers(...)       strategy -> {"name": "csr_matrix", "variant": "canonical" | ...}
to_container(A, spec) ndarray -> container object described by spec
to_dense(x)           any container -> base-class float/int ndarray
snapshot(x), snapshot_diff(a, b)   deep structural copy of a container for "caller's matrix unchanged"

Reference models (plain numpy)
------------------------------
strongly_connected(A), ref_normalize(C), ref_transpose(C), stationarity_residual(T, pi),
detailed_balance_residual(T, pi), loglik(C, T), prinz_residual(C, T, pi), ref_mle_fixed_point(C),
reversible_from_symmetric(S)
"""
import numpy as np
import scipy.sparse as sp
from hypothesis import strategies as st

FORMATS = ["csr", "csc", "coo", "lil", "dok", "dia", "bsr"]
SPMATRIX_CONTAINERS = [f + "_matrix" for f in FORMATS]
SPARRAY_CONTAINERS = [f + "_array" for f in FORMATS]
MATRIX_CONTAINERS = ["ndarray"] + SPMATRIX_CONTAINERS      # the container list named by the properties
ALL_CONTAINERS = MATRIX_CONTAINERS + SPARRAY_CONTAINERS

FLAVOURS = ["small_int", "counts", "real", "skewed", "symmetric", "diag_heavy", "near_triangular", "path_chain"]
DTYPES = ["int64", "int32", "float64"]


# ---------------------------------------------------------------------------
# count matrices

def _fix_rows(C, n, fill_cols, fill_val):
    """Give every all-zero row one positive entry (column taken from fill_cols)."""
    for i in range(n):
        if not any(C[i][j] > 0 for j in range(n)):
            C[i][fill_cols[i] % n] = fill_val
    return C


@st.composite
def count_matrices(draw, n_min=1, n_max=7, connected=None, flavours=None, dtypes=None,
                   max_ratio=1000):
    """Non-negative square count matrix whose rows all have outgoing counts.

    connected=True  -> strongly connected by construction (random pattern united with a Hamiltonian
                       cycle over a drawn permutation of the states);
    connected=False -> only "every row has a positive entry" is enforced (may or may not be connected);
    connected=None  -> drawn.
    Returned case: {"n", "C": nested list of python numbers, "dtype", "flavour"}.
    """
    flavours = list(flavours or FLAVOURS)
    dtypes = list(dtypes or DTYPES)
    n = draw(st.integers(n_min, n_max))
    flavour = draw(st.sampled_from(flavours))
    if flavour == "path_chain":
        # a jump chain 0 - 1 - ... - n-1 (counts in both directions of every link, nothing else): strongly connected, and
        # its two end states have a single neighbour and no self-count
        if n < 3:
            flavour = "small_int"
        else:
            order = list(draw(st.permutations(list(range(n)))))
            fw = draw(st.lists(st.integers(1, 60), min_size=n - 1, max_size=n - 1))
            bw = draw(st.lists(st.integers(1, 60), min_size=n - 1, max_size=n - 1))
            inner = draw(st.lists(st.integers(0, 20), min_size=n, max_size=n))
            Cp = [[0] * n for _ in range(n)]
            for k in range(n - 1):
                Cp[order[k]][order[k + 1]] = fw[k]
                Cp[order[k + 1]][order[k]] = bw[k]
            if draw(st.booleans()):
                for k in range(1, n - 1):
                    Cp[order[k]][order[k]] = inner[k]          # self-counts on interior states only
            dtype = draw(st.sampled_from(dtypes))
            if dtype == "float64":
                Cp = [[float(v) for v in row] for row in Cp]
            return {"n": n, "C": Cp, "dtype": dtype, "flavour": "path_chain"}
    conn = draw(st.booleans()) if connected is None else connected
    level = draw(st.sampled_from([2, 4, 7, 10]))           # density: entry kept iff mask value < level
    mask = draw(st.lists(st.integers(0, 9), min_size=n * n, max_size=n * n))
    if flavour == "real":
        vals = draw(st.lists(st.floats(0.0625, 64.0, allow_nan=False, allow_infinity=False, width=64),
                             min_size=n * n, max_size=n * n))
        dtype = "float64"
    elif flavour == "counts":
        vals = draw(st.lists(st.integers(1, 3000), min_size=n * n, max_size=n * n))
        dtype = draw(st.sampled_from(dtypes))
    else:
        vals = draw(st.lists(st.integers(1, 9), min_size=n * n, max_size=n * n))
        dtype = draw(st.sampled_from(dtypes))
    C = [[(vals[i * n + j] if mask[i * n + j] < level else 0) for j in range(n)] for i in range(n)]
    pz = draw(st.sampled_from([0, 0, 3, 6]))                 # remove whole pairs: c_ij = c_ji = 0
    if pz and n >= 3:
        pm = draw(st.lists(st.integers(0, 9), min_size=n * n, max_size=n * n))
        for i in range(n):
            for j in range(i + 1, n):
                if pm[i * n + j] < pz:
                    C[i][j] = C[j][i] = 0
    if draw(st.sampled_from([False, False, True])):          # no self-counts at all
        for i in range(n):
            C[i][i] = 0

    if flavour == "symmetric":
        for i in range(n):
            for j in range(i + 1, n):
                C[j][i] = C[i][j]
    elif flavour == "skewed":
        ratio = draw(st.sampled_from([r for r in (10, 100, 1000) if r <= max_ratio] or [max_ratio]))
        for i in range(n):
            for j in range(i + 1, n):
                C[i][j] = C[i][j] * ratio
    elif flavour == "diag_heavy":
        diag = draw(st.lists(st.integers(10, 500), min_size=n, max_size=n))
        for i in range(n):
            C[i][i] = diag[i]
    elif flavour == "near_triangular":
        for i in range(n):
            for j in range(i):
                C[i][j] = 0

    one = 1.0 if flavour == "real" else 1
    if conn:
        if n == 1:
            if C[0][0] == 0:
                C[0][0] = one
        else:
            perm = list(range(n)) if flavour == "near_triangular" else draw(st.permutations(list(range(n))))
            for k in range(n):
                a, b = perm[k], perm[(k + 1) % n]
                if C[a][b] == 0:
                    C[a][b] = vals[a * n + b]
                if flavour == "symmetric" and C[b][a] == 0:
                    C[b][a] = C[a][b]
    else:
        cols = draw(st.lists(st.integers(0, n - 1), min_size=n, max_size=n))
        _fix_rows(C, n, cols, one)
        if flavour == "symmetric":      # keep it symmetric: mirror the filled entries
            for i in range(n):
                for j in range(n):
                    if C[i][j] and not C[j][i]:
                        C[j][i] = C[i][j]
    if flavour == "symmetric" and n >= 2 and draw(st.integers(0, 2)) == 0:
        # nearly symmetric counts of a long equilibrium simulation: hundreds of thousands of counts per pair, forward and
        # backward differing by one or two (|c_ij - c_ji| <= 1e-5 c_ji: "equal" to np.allclose, yet not symmetric)
        C = [[v * 200000 for v in row] for row in C]
        bumps = draw(st.lists(st.integers(0, 2), min_size=n * n, max_size=n * n))
        hit = False
        for i in range(n):
            for j in range(i + 1, n):
                if C[i][j]:
                    C[i][j] += bumps[i * n + j]
                    hit = hit or bumps[i * n + j] > 0
        if not hit:
            for i in range(n):
                for j in range(i + 1, n):
                    if C[i][j] and not hit:
                        C[i][j] += 1
                        hit = True
        flavour = "near_symmetric"
    if dtype == "float64":
        C = [[float(v) for v in row] for row in C]
    return {"n": n, "C": C, "dtype": dtype, "flavour": flavour}


def case_matrix(case):
    """ndarray (C-contiguous, declared dtype) of a count_matrices() case."""
    return np.array(case["C"], dtype=case["dtype"]).reshape(case["n"], case["n"])


@st.composite
def priors(draw, n, kinds=("none", "int", "float", "matrix")):
    """prior_counts argument: None, positive scalar (int / float) or dense non-negative matrix."""
    kind = draw(st.sampled_from(list(kinds)))
    if kind == "none":
        return None
    if kind == "int":
        return {"scalar": draw(st.integers(1, 5))}
    if kind == "float":
        return {"scalar": draw(st.sampled_from([0.5, 0.25, 1.0 / max(n, 1), 0.1, 2.5]))}
    dt = draw(st.sampled_from(["int64", "float64"]))
    if dt == "int64":
        m = draw(st.lists(st.integers(0, 3), min_size=n * n, max_size=n * n))
    else:
        m = draw(st.lists(st.sampled_from([0.0, 0.0, 0.5, 1.0, 0.125, 3.0]), min_size=n * n, max_size=n * n))
    return {"matrix": [m[i * n:(i + 1) * n] for i in range(n)], "dtype": dt}


def prior_value(p, n=None):
    """The python object to pass as prior_counts."""
    if p is None:
        return None
    if "scalar" in p:
        return p["scalar"]
    return np.array(p["matrix"], dtype=p["dtype"]).reshape(len(p["matrix"]), -1)


def prior_kind(p):
    if p is None:
        return "none"
    if "scalar" in p:
        return "int" if isinstance(p["scalar"], int) else "float"
    return "matrix"


def prior_dense(p, n):
    """The prior as a dense (n, n) float array (zeros for None)."""
    if p is None:
        return np.zeros((n, n))
    if "scalar" in p:
        return np.full((n, n), float(p["scalar"]))
    return np.array(p["matrix"], dtype=float).reshape(n, n)


# ---------------------------------------------------------------------------
# containers

VARIANTS = {
    "ndarray": ["C", "F", "strided"],
    # "idx64": the index arrays are int64 (what scipy produces for matrices derived from very large ones)
    "csr": ["canonical", "unsorted", "explicit_zero", "idx64"],
    "csc": ["canonical", "unsorted", "explicit_zero", "idx64"],
    "coo": ["canonical", "duplicates", "shuffled", "idx64"],
    "lil": ["canonical"],
    "dok": ["canonical"],
    "dia": ["canonical"],
    # "canonical" = bsr_matrix(A): scipy estimates the block size from the data (often 2x2 / 3x3 for dense
    # patterns); "block" forces 2x2 blocks when n is even; "unit" forces 1x1 blocks.
    "bsr": ["canonical", "block", "unit"],
}
# Legal layouts a caller may want to keep out of an asserted domain (none at present).
EXTRA_VARIANTS = {}


@st.composite
def containers(draw, names=None, extra_variants=False):
    name = draw(st.sampled_from(list(names or MATRIX_CONTAINERS)))
    fmt = name.split("_")[0]
    variant = draw(st.sampled_from(VARIANTS[fmt] + (EXTRA_VARIANTS.get(fmt, []) if extra_variants else [])))
    return {"name": name, "variant": variant}


def _cls(name):
    return getattr(sp, name)


def to_container(A, spec):
    """Build the container described by spec = {"name", "variant"} (or a plain name) holding matrix A.

    Variants exercise legal but non-canonical internal layouts (unsorted indices, explicitly stored
    zeros, duplicate coo entries that sum to the value, Fortran / strided dense memory).  All of them
    represent exactly the matrix A.
    """
    if isinstance(spec, str):
        spec = {"name": spec, "variant": "canonical"}
    name, variant = spec["name"], spec.get("variant", "canonical")
    A = np.asarray(A)
    n = A.shape[0]
    if name == "ndarray":
        if variant == "F":
            return np.asfortranarray(A.copy())
        if variant == "strided":
            big = np.zeros((2 * n, 2 * n + 1), dtype=A.dtype)
            big[::2, 1::2][:n, :n] = A
            return big[::2, 1::2][:n, :n]
        return np.ascontiguousarray(A.copy())
    fmt = name.split("_")[0]
    cls = _cls(name)
    if fmt in ("csr", "csc"):
        base = cls(A)
        if variant == "unsorted":
            # reverse the entries inside every row/column: same matrix, indices not sorted
            data, ind, ptr = base.data.copy(), base.indices.copy(), base.indptr.copy()
            for k in range(n):
                data[ptr[k]:ptr[k + 1]] = data[ptr[k]:ptr[k + 1]][::-1]
                ind[ptr[k]:ptr[k + 1]] = ind[ptr[k]:ptr[k + 1]][::-1]
            return cls((data, ind, ptr), shape=A.shape)
        if variant == "explicit_zero":
            # store every cell of the first row/column explicitly (zeros included)
            pattern = (A != 0)
            pattern[0, :] = True
            rows, cols = np.nonzero(pattern if fmt == "csr" else pattern.T)
            if fmt == "csc":
                vals = A.T[rows, cols]
            else:
                vals = A[rows, cols]
            counts = np.bincount(rows, minlength=n)
            ptr = np.concatenate([[0], np.cumsum(counts)]).astype(base.indptr.dtype)
            return cls((vals.astype(A.dtype), cols.astype(base.indices.dtype), ptr), shape=A.shape)
        if variant == "idx64":
            base.indices = base.indices.astype(np.int64)
            base.indptr = base.indptr.astype(np.int64)
        return base
    if fmt == "coo":
        rows, cols = np.nonzero(A)
        vals = A[rows, cols]
        if variant == "duplicates" and len(vals):
            # split the first stored entry in two halves that sum to it (exact for even ints / floats)
            v0 = vals[0]
            h = v0 // 2 if np.issubdtype(A.dtype, np.integer) else v0 / 2
            rows = np.concatenate([rows, rows[:1]])
            cols = np.concatenate([cols, cols[:1]])
            vals = np.concatenate([vals, [v0 - h]]).astype(A.dtype)
            vals[0] = h
        if variant == "shuffled" and len(vals):
            rows, cols, vals = rows[::-1].copy(), cols[::-1].copy(), vals[::-1].copy()
        m = cls((vals.astype(A.dtype), (rows, cols)), shape=A.shape)
        if variant == "idx64":
            m.coords = tuple(c.astype(np.int64) for c in m.coords)
        return m
    if fmt == "bsr":
        if variant == "block" and n % 2 == 0 and n >= 2:
            return cls(A, blocksize=(2, 2))
        if variant == "unit":
            return cls(A, blocksize=(1, 1))
        return cls(A)
    return cls(A)


def is_sparse(x):
    return sp.issparse(x)


def to_dense(x):
    """Base-class ndarray with the numbers held by x (ndarray, np.matrix, sparse matrix or array)."""
    if sp.issparse(x):
        return np.asarray(x.toarray())
    return np.array(x, copy=True, subok=False)


def snapshot(x):
    """Deep structural copy of everything a caller can observe about container x."""
    d = {"type": type(x).__name__, "shape": tuple(x.shape), "dtype": str(x.dtype)}
    if sp.issparse(x):
        fmt = x.format
        d["format"] = fmt
        if fmt in ("csr", "csc", "bsr"):
            d["arrays"] = {"data": x.data.copy(), "indices": x.indices.copy(), "indptr": x.indptr.copy()}
            d["idx_dtypes"] = (str(x.indices.dtype), str(x.indptr.dtype))
        elif fmt == "coo":
            d["arrays"] = {"data": x.data.copy(), "row": x.row.copy(), "col": x.col.copy()}
            d["idx_dtypes"] = (str(x.row.dtype), str(x.col.dtype))
        elif fmt == "dia":
            d["arrays"] = {"data": x.data.copy(), "offsets": x.offsets.copy()}
        elif fmt == "lil":
            d["lists"] = {"rows": [list(r) for r in x.rows], "data": [list(r) for r in x.data]}
        elif fmt == "dok":
            d["items"] = [((int(k[0]), int(k[1])), v.item() if hasattr(v, "item") else v) for k, v in x.items()]
        d["dense"] = np.asarray(x.toarray())
    else:
        d["arrays"] = {"values": np.array(x, copy=True)}
        d["strides"] = tuple(x.strides)
        d["flags"] = (bool(x.flags.c_contiguous), bool(x.flags.f_contiguous), bool(x.flags.writeable))
    return d


def snapshot_diff(a, b):
    """None if the two snapshots are identical, else a short description of the first difference."""
    for k in ("type", "shape", "dtype", "format", "idx_dtypes", "strides", "flags", "lists", "items"):
        if a.get(k) != b.get(k):
            return "%s changed: %r -> %r" % (k, a.get(k), b.get(k))
    for k in a.get("arrays", {}):
        x, y = a["arrays"][k], b["arrays"][k]
        if x.dtype != y.dtype or x.shape != y.shape or not np.array_equal(x, y):
            return "array %s changed: %r -> %r" % (k, x.tolist(), y.tolist())
    if "dense" in a and not np.array_equal(a["dense"], b["dense"]):
        return "dense content changed"
    return None


# ---------------------------------------------------------------------------
# reference models

def strongly_connected(A):
    """True iff the directed graph {i->j : A[i,j] > 0} is strongly connected (boolean closure)."""
    A = np.asarray(A)
    n = A.shape[0]
    if n == 0:
        return False
    adj = (A > 0)

    def reach(adj):
        seen = {0}
        stack = [0]
        while stack:
            u = stack.pop()
            for v in range(n):
                if adj[u, v] and v not in seen:
                    seen.add(v)
                    stack.append(v)
        return len(seen) == n
    return reach(adj) and reach(adj.T)


def ref_normalize(C):
    """T = counts divided by row totals (rows without counts stay zero)."""
    C = np.asarray(C, dtype=float)
    rs = C.sum(axis=1)
    T = np.zeros_like(C)
    for i in range(C.shape[0]):
        if rs[i] > 0:
            T[i] = C[i] / rs[i]
    return T


def ref_transpose(C):
    """(C_sym/2, T, pi) of the transpose method on dense float C."""
    C = np.asarray(C, dtype=float)
    S = C + C.T
    rs = S.sum(axis=1)
    return S / 2.0, ref_normalize(S), rs / rs.sum()


def ref_stationary(T):
    """Stationary vector of an irreducible row-stochastic T by a direct linear solve
    (replace one balance equation by the normalisation)."""
    T = np.asarray(T, dtype=float)
    n = T.shape[0]
    A = (T.T - np.eye(n))
    A[-1, :] = 1.0
    b = np.zeros(n)
    b[-1] = 1.0
    return np.linalg.solve(A, b)


def stationarity_residual(T, pi):
    T = np.asarray(T, dtype=float)
    pi = np.asarray(pi, dtype=float).ravel()
    return float(np.max(np.abs(pi @ T - pi))) if pi.size else 0.0


def detailed_balance_residual(T, pi):
    """max_ij |pi_i T_ij - pi_j T_ji|."""
    T = np.asarray(T, dtype=float)
    pi = np.asarray(pi, dtype=float).ravel()
    F = pi[:, None] * T
    return float(np.max(np.abs(F - F.T))) if F.size else 0.0


def loglik(C, T):
    """sum_ij c_ij log T_ij over c_ij > 0 (-inf if some observed transition has T_ij <= 0)."""
    C = np.asarray(C, dtype=float)
    T = np.asarray(T, dtype=float)
    m = C > 0
    if np.any(T[m] <= 0):
        return -np.inf
    return float(np.sum(C[m] * np.log(T[m])))


def prinz_residual(C, T, pi):
    """max_ij | pi_i T_ij (c_i/pi_i + c_j/pi_j) - (c_ij + c_ji) |  -- the stationarity conditions of the
    reversible likelihood (Prinz et al. 2011, eq. for the optimum x_ij with x_i = pi_i)."""
    C = np.asarray(C, dtype=float)
    T = np.asarray(T, dtype=float)
    pi = np.asarray(pi, dtype=float).ravel()
    c = C.sum(axis=1)
    q = c / pi
    lhs = (pi[:, None] * T) * (q[:, None] + q[None, :])
    return float(np.max(np.abs(lhs - (C + C.T))))


def reversible_from_symmetric(S):
    """Row-normalise a symmetric non-negative S -> (T, pi); T is reversible w.r.t. pi."""
    S = np.asarray(S, dtype=float)
    rs = S.sum(axis=1)
    return S / rs[:, None], rs / rs.sum()


def ref_mle_fixed_point(C, max_iter=20000, rtol=1e-15):
    """Independent reversible MLE: plain self-consistent iteration
        x_ij <- (c_ij + c_ji) / (c_i / x_i + c_j / x_j),   x_i = sum_j x_ij
    (Prinz et al. 2011 / Bowman 2009), vectorised, started from C + C^T.  Returns (T, pi, converged).
    Whatever the iteration count, the result is a reversible matrix with the support of C + C^T, i.e. a
    legal competitor for the likelihood comparison."""
    C = np.asarray(C, dtype=float)
    S = C + C.T
    c = C.sum(axis=1)
    X = S.copy()
    conv = False
    for _ in range(max_iter):
        x = X.sum(axis=1)
        q = c / x
        Xn = S / (q[:, None] + q[None, :])
        Xn = Xn / Xn.sum()
        Xo = X / X.sum()
        X = Xn
        if np.max(np.abs(Xn - Xo)) <= rtol * max(1.0, np.max(Xn)):
            conv = True
            break
    T, pi = reversible_from_symmetric(X)
    return T, pi, conv
