"""Reference models and constructors for C16 (plain numpy / python, no enspara import).

* ref_counts       literal pair counting (same model as C03, repeated here so that C16 is self-contained)
* ref_trim         heaviest strongly connected component via boolean Warshall closure (ties -> all candidates)
* ref_normalize / ref_transpose     the two closed-form builders
* stationary       left null vector of (T - I) by a linear solve
* interleave / build_trajs          construction of assignment sets whose lagged pairs are known by design
* spectral matrix families          ergodic transition matrices from integer weights or from a seed
"""
import numpy as np


# --------------------------------------------------------------------------
# counting / trimming / closed-form builders

def ref_counts(trajs, lag, sliding, n):
    C = np.zeros((n, n), dtype=np.int64)
    step = 1 if sliding else lag
    for t in trajs:
        i = 0
        while i + lag < len(t):
            C[t[i], t[i + lag]] += 1
            i += step
    return C


def sccs(A):
    """Strongly connected components of boolean adjacency A (n <= a few dozen): list of sorted state lists."""
    n = len(A)
    R = np.array(A, dtype=bool) | np.eye(n, dtype=bool)
    for k in range(n):
        R |= np.outer(R[:, k], R[k, :])
    M = R & R.T
    seen = set()
    out = []
    for i in range(n):
        if i in seen:
            continue
        comp = [j for j in range(n) if M[i, j]]
        seen.update(comp)
        out.append(comp)
    return out


def ref_trim(C):
    """Return (candidates, pops): every component (sorted list of original ids) whose total row-count
    population is maximal. The library may keep any of them."""
    C = np.asarray(C)
    comps = sccs(C >= 1)
    rows = C.sum(axis=1)
    pops = [int(rows[c].sum()) if np.issubdtype(C.dtype, np.integer) else float(rows[c].sum()) for c in comps]
    best = max(pops)
    return [c for c, p in zip(comps, pops) if p == best], comps


def ref_normalize(C):
    C = np.asarray(C, dtype=float)
    rs = C.sum(axis=1)
    return C / rs[:, None]


def ref_transpose(C):
    C = np.asarray(C, dtype=float)
    S = C + C.T
    rs = S.sum(axis=1)
    return S / 2.0, S / rs[:, None], rs / S.sum()


def stationary(T):
    """Stationary distribution of an irreducible row-stochastic matrix by a linear solve."""
    T = np.asarray(T, dtype=float)
    n = len(T)
    A = T.T - np.eye(n)
    A[-1, :] = 1.0
    b = np.zeros(n)
    b[-1] = 1.0
    return np.linalg.solve(A, b)


def is_irreducible(T):
    return len(sccs(np.asarray(T) > 0)) == 1


# --------------------------------------------------------------------------
# assignment sets constructed so that the lagged pairs are known by design

def interleave(residues, length, lag):
    """Frame i of the trajectory is residues[i % lag][i // lag]."""
    return [residues[i % lag][i // lag] for i in range(length)]


def tile(base, n):
    return [base[i % len(base)] for i in range(n)]


def main_traj(core_perm, laps, chords, pre, post, lag, tail, others):
    """One trajectory whose residue-0 subsequence (frames 0, lag, 2 lag, ...) is
        pre + closed walk over all core states (laps times) + chords + post
    and whose other residues contain only core states (tiled from `others[j-1]`).
    `tail` in [0, lag-1] extra frames after the last residue-0 frame."""
    p = list(core_perm)
    res0 = list(pre) + p + [p[0]]
    for _ in range(laps - 1):
        res0 += p[1:] + [p[0]]
    res0 += list(chords) + list(post)
    m0 = len(res0)
    L = (m0 - 1) * lag + 1 + min(tail, lag - 1)
    residues = [res0]
    for j in range(1, lag):
        nj = -(-(L - j) // lag) if L > j else 0
        residues.append(tile(others[(j - 1) % len(others)], nj) if nj > 0 else [])
    return interleave(residues, L, lag)


# --------------------------------------------------------------------------
# transition matrices for the spectral / propagation clauses

def T_from_weights(W):
    W = np.asarray(W, dtype=float)
    return W / W.sum(axis=1)[:, None]


def seeded_dense(n, seed, kind):
    """Medium-size ergodic matrices built from a Hypothesis-drawn seed."""
    rng = np.random.RandomState(seed)
    if kind == "reversible":
        S = rng.randint(0, 20, size=(n, n)).astype(float)
        S = S + S.T
        for i in range(n):
            S[i, (i + 1) % n] += 1
            S[(i + 1) % n, i] += 1
        return T_from_weights(S)
    if kind == "rotor":
        W = rng.randint(0, 4, size=(n, n)).astype(float)
        for i in range(n):
            W[i, (i + 1) % n] += rng.randint(10, 60)
        return T_from_weights(W)
    if kind == "sparse_pattern":
        W = rng.randint(1, 10, size=(n, n)) * (rng.rand(n, n) < 0.15)
        W = W.astype(float)
        for i in range(n):
            W[i, (i + 1) % n] += 1
        return T_from_weights(W)
    W = rng.randint(1, 31, size=(n, n)).astype(float)
    return T_from_weights(W)


def seeded_big_sparse(n, seed, kind, n_clusters=4):
    """>= 1000-state sparse ergodic chain (scipy CSR) for the ARPACK branch.

    'rev_clusters'  : symmetric weights, `n_clusters` metastable blocks joined by weak links (real spectrum,
                      a few isolated slow eigenvalues)
    'nonrev_drift'  : the same blocks plus a directed ring with extra weight (non-reversible)
    'rev_bipartite' : as rev_clusters but edges only join states of opposite parity and self-loops are weak, so
                      the spectrum is nearly symmetric about 0: eigenvalues close to -1 have larger modulus than
                      the second-largest real part (distinguishes "largest real part" from "largest magnitude")
    """
    import scipy.sparse as sp
    rng = np.random.RandomState(seed)
    size = n // n_clusters
    block = np.minimum(np.arange(n) // size, n_clusters - 1)
    rows, cols, vals = [], [], []
    deg = 8
    for i in range(n):
        members = np.where(block == block[i])[0]
        if kind == "rev_bipartite":
            members = members[(members % 2) != (i % 2)]
        js = members[rng.randint(0, len(members), size=deg)]
        for j in js:
            rows.append(i)
            cols.append(int(j))
            vals.append(float(rng.randint(1, 10)))
    W = sp.coo_matrix((vals, (rows, cols)), shape=(n, n)).tocsr()
    W = W + W.T + sp.identity(n, format="csr") * (0.5 if kind == "rev_bipartite" else 2.0)
    # weak symmetric links between consecutive blocks + a ring inside everything for irreducibility
    r2, c2, v2 = [], [], []
    for b in range(n_clusters):
        a = np.where(block == b)[0]
        c = np.where(block == (b + 1) % n_clusters)[0]
        for _ in range(3):
            i, j = int(a[rng.randint(len(a))]), int(c[rng.randint(len(c))])
            r2 += [i, j]
            c2 += [j, i]
            v2 += [1.0, 1.0]
    W = W + sp.coo_matrix((v2, (r2, c2)), shape=(n, n)).tocsr()
    if kind == "nonrev_drift":
        idx = np.arange(n)
        W = W + sp.coo_matrix((rng.randint(3, 12, size=n).astype(float), (idx, (idx + 1) % n)), shape=(n, n)).tocsr()
    else:
        idx = np.arange(n)
        ring = sp.coo_matrix((np.ones(n), (idx, (idx + 1) % n)), shape=(n, n)).tocsr()
        W = W + ring + ring.T
    d = np.asarray(W.sum(axis=1)).ravel()
    T = sp.diags(1.0 / d).dot(W).tocsr()
    return T
