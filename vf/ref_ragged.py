"""List-of-rows reference model for enspara.ra.RaggedArray.

The model of a ragged array is simply `rows`: a python list of numpy arrays, row i having shape
(len_i,) + eshape.  Everything here is written against plain python-list / numpy semantics and never looks
at RaggedArray internals (`_data`, `_array`); the library object is only touched through its public surface in
`observe()` and `build()`.

Used by checks/c05.py (reads) and meant to be reused by C06 (writes): `make_rows`, `build`, `dec_index`,
`model_getitem`, `observe`, `diff_against_rows` are the importable pieces.  Importing this module does not
import enspara (build() imports it lazily), so it can be imported before env.setup().

JSON encoding of an index expression (everything a Hypothesis strategy has to draw):
    {"t": "int",   "v": 3}                      python int
    {"t": "npint", "v": 3}                      numpy integer (np.int64), e.g. np.arange(3)[1]
    {"t": "slice", "v": [start, stop, step]}    entries int or None
    {"t": "list",  "v": [0, 2, -1]}             python list of ints
    {"t": "nd",    "v": [0, 2, -1]}             integer ndarray
    {"t": "tuple", "a": <index>, "b": <index>}  two-dimensional index a[<a>, <b>]
    {"t": "mask",  "v": [[true, false], ...]}   ragged boolean mask with the same row lengths as the array
"""
import numpy as np

ESHAPES = {"scalar": (), "vec2": (2,), "mat32": (3, 2)}
DTYPES = ("int64", "float64", "bool")
# the five construction paths; the three flat ones take different constructor branches
# (`lengths == lengths[0]` is an array for an ndarray / a list of numpy ints, plain False for a list of python ints)
CONSTRUCTIONS = ("nested", "arrays", "flat_nd", "flat_pyint", "flat_npint", "flat_F", "flat_narrow")


# --------------------------------------------------------------------------------------------------
# content

def make_flat(lengths, eshape=(), dtype="int64", offset=0):
    """Flat data (sum(lengths),)+eshape with distinct arange-based content (bool: seeded pattern)."""
    eshape = tuple(eshape)
    n = int(sum(lengths))
    per = int(np.prod(eshape)) if eshape else 1
    k = np.arange(n * per, dtype=np.int64) + int(offset)
    if dtype == "int64":
        flat = k
    elif dtype == "float64":
        flat = k * 0.5 + 0.25            # exactly representable, distinct, never integral
    elif dtype == "bool":
        flat = np.random.RandomState(int(offset) % (2 ** 31)).rand(n * per) < 0.5
    else:
        raise ValueError(dtype)
    return flat.reshape((n,) + eshape)


def split_rows(flat, lengths):
    out, s = [], 0
    for L in lengths:
        out.append(np.array(flat[s:s + L]))
        s += L
    return out


def make_rows(lengths, eshape=(), dtype="int64", offset=0):
    return split_rows(make_flat(lengths, eshape, dtype, offset), lengths)


def build(rows, how, **kw):
    """Construct the library object from model rows along one of the CONSTRUCTIONS paths."""
    from enspara import ra
    lengths = [len(r) for r in rows]
    if how == "nested":
        return ra.RaggedArray([r.tolist() for r in rows], **kw)
    if how == "arrays":
        return ra.RaggedArray([np.array(r) for r in rows], **kw)
    flat = np.concatenate(rows)
    if how == "flat_nd":
        return _with_callers_lengths(flat, lengths, kw)
    if how == "flat_narrow":
        # the lengths in the narrowest signed integer type that holds each of them (a compactly stored lengths table);
        # their running total need not fit that type
        top = max(lengths) if lengths else 0
        dt = np.int8 if top <= 127 else np.int16 if top <= 32767 else np.int32
        return ra.RaggedArray(flat, lengths=np.array(lengths, dtype=dt), **kw)
    if how == "flat_pyint":
        return ra.RaggedArray(flat, lengths=[int(x) for x in lengths], **kw)
    if how == "flat_npint":
        return ra.RaggedArray(flat, lengths=[np.int64(x) for x in lengths], **kw)
    if how == "flat_F":
        # the flat buffer in a non-C memory order (an (N, 3) block obtained by transposing a (3, N) table): the same
        # values at the same indices, other strides
        return _with_callers_lengths(np.asfortranarray(flat), lengths, kw)
    raise ValueError(how)


def _with_callers_lengths(flat, lengths, kw):
    """The lengths arrive in an ndarray that stays the caller's: it is reused for other numbers as soon as the
    constructor has returned (a loader that fills one lengths buffer per dataset); the array built keeps its rows."""
    from enspara import ra
    L = np.array(lengths, dtype=int)
    a = ra.RaggedArray(flat, lengths=L, **kw)
    L[...] = L[::-1] + 1
    return a


def build_mask(mask_rows, how="arrays"):
    from enspara import ra
    rows = [np.array(m, dtype=bool) for m in mask_rows]
    if how == "arrays":
        return ra.RaggedArray(rows)
    return ra.RaggedArray(np.concatenate(rows), lengths=[len(r) for r in rows])


# --------------------------------------------------------------------------------------------------
# index expressions

def dec_index(e):
    """JSON -> the python object used between the brackets (masks are built by the caller)."""
    t = e["t"]
    if t == "int":
        return int(e["v"])
    if t == "npint":
        return np.int64(e["v"])
    if t == "slice":
        return slice(*e["v"])
    if t == "list":
        return [int(x) for x in e["v"]]
    if t == "nd":
        dt = e.get("dt", "int64")                                # index arrays may have a small integer element type
        if dt != "int64" and any(not (np.iinfo(dt).min <= int(v) <= np.iinfo(dt).max) for v in e["v"]):
            dt = "int64"                                         # (values edited after drawing no longer fit)
        return np.array(e["v"], dtype=dt)
    if t == "tuple":
        return (dec_index(e["a"]), dec_index(e["b"]))
    raise ValueError(t)


def show_index(e):
    t = e["t"]
    if t in ("int", "npint"):
        return ("%d" if t == "int" else "np.int64(%d)") % e["v"]
    if t == "slice":
        s = ["" if x is None else str(x) for x in e["v"]]
        return "%s:%s" % (s[0], s[1]) + ("" if e["v"][2] is None else ":" + s[2])
    if t == "list":
        return str(list(e["v"]))
    if t == "nd":
        return "array(%s)" % list(e["v"])
    if t == "tuple":
        return "%s, %s" % (show_index(e["a"]), show_index(e["b"]))
    if t == "mask":
        return "<mask>"
    return "?"


def form_of(e):
    """Grammar form label, e.g. 'int', 'slice', 'rows', 'int,int', 'slice,slice', 'rows,slice', 'mask'."""
    def one(x):
        return {"int": "int", "npint": "int", "slice": "slice", "list": "rows", "nd": "rows"}[x["t"]]
    if e["t"] == "tuple":
        return "%s,%s" % (one(e["a"]), one(e["b"]).replace("rows", "cols"))
    if e["t"] == "mask":
        return "mask"
    return one(e)


def slice_sign(v):
    """Sign pattern of one slice [start, stop, step] -> e.g. 'N-+' (start None, stop <0, step >0)."""
    def s(x, none="N"):
        return none if x is None else ("-" if x < 0 else "+")
    return s(v[0]) + s(v[1]) + s(v[2], "+")


class Res(object):
    """Model result: kind 'array' (one ndarray: a row, part of a row, a flat selection), 'elem' (one element)
    or 'rows' (list of per-row ndarrays, i.e. something the library returns as a RaggedArray)."""
    __slots__ = ("kind", "value")

    def __init__(self, kind, value):
        self.kind = kind
        self.value = value

    def degenerate(self):
        """True when the result has no rows or an empty row (not representable with positive lengths)."""
        return self.kind == "rows" and (len(self.value) == 0 or any(len(r) == 0 for r in self.value))


def _row_index(n, i):
    i = int(i)
    if not -n <= i < n:
        raise IndexError("row %d out of range for %d rows" % (i, n))
    return i


def _pick_rows(rows, a):
    """First-dimension selection -> list of rows (python list / numpy take semantics)."""
    t = a["t"]
    if t == "slice":
        return rows[slice(*a["v"])]
    if t in ("list", "nd"):
        return [rows[_row_index(len(rows), i)] for i in a["v"]]
    raise ValueError(t)


def _stack(elems, like):
    if len(elems) == 0:
        return np.zeros((0,) + like.shape[1:], dtype=like.dtype)
    return np.array(elems)


def model_getitem(rows, e):
    """Evaluate index expression `e` on the list of rows with plain numpy semantics.

    Raises IndexError exactly when a row index or an element index is out of range."""
    t = e["t"]
    n = len(rows)
    if t in ("int", "npint"):
        return Res("array", rows[_row_index(n, e["v"])])
    if t in ("slice", "list", "nd"):
        return Res("rows", _pick_rows(rows, e))
    if t == "mask":
        m = e["v"]
        assert [len(x) for x in m] == [len(r) for r in rows]
        return Res("array", np.concatenate([r[np.array(mi, dtype=bool)] for r, mi in zip(rows, m)]))
    if t != "tuple":
        raise ValueError(t)
    a, b = e["a"], e["b"]
    ta, tb = a["t"], b["t"]
    a_int, b_int = ta in ("int", "npint"), tb in ("int", "npint")
    a_seq, b_seq = ta in ("list", "nd"), tb in ("list", "nd")
    if a_int:
        row = rows[_row_index(n, a["v"])]
        if b_int:
            return Res("elem", np.asarray(row[int(b["v"])]))          # numpy raises IndexError when outside
        if tb == "slice":
            return Res("array", row[slice(*b["v"])])
        if b_seq:
            return Res("array", row[np.array(b["v"], dtype=np.int64)])
    if a_seq and (b_int or b_seq):
        ii = [_row_index(n, i) for i in a["v"]]
        jj = [int(b["v"])] * len(ii) if b_int else [int(j) for j in b["v"]]
        if len(jj) == 1 and len(ii) > 1:
            jj = jj * len(ii)
        if len(ii) == 1 and len(jj) > 1:
            ii = ii * len(jj)
        if len(ii) != len(jj):
            raise ValueError("paired indices of different length")
        return Res("array", _stack([rows[i][j] for i, j in zip(ii, jj)], rows[0]))
    sel = _pick_rows(rows, a)
    if tb == "slice":
        s = slice(*b["v"])
        return Res("rows", [r[s] for r in sel])
    if b_int:
        j = int(b["v"])
        return Res("rows", [r[np.array([j])] for r in sel])
    if b_seq:
        jj = np.array(b["v"], dtype=np.int64)
        return Res("rows", [r[jj] for r in sel])
    raise ValueError("unsupported tuple form %s,%s" % (ta, tb))


def model_where(mask_rows):
    """np.where on a ragged boolean mask -> (row indices, column indices), row-major order."""
    ii, jj = [], []
    for i, m in enumerate(mask_rows):
        for j in np.nonzero(np.array(m, dtype=bool))[0]:
            ii.append(i)
            jj.append(int(j))
    return np.array(ii, dtype=np.int64), np.array(jj, dtype=np.int64)


def model_attrs(rows):
    lengths = [len(r) for r in rows]
    cat = np.concatenate(rows)
    eshape = rows[0].shape[1:]
    second = lengths[0] if all(x == lengths[0] for x in lengths) else None
    return {"len": len(rows), "lengths": lengths,
            "starts": [int(x) for x in np.concatenate([[0], np.cumsum(lengths)[:-1]])],
            "size": int(cat.size), "dtype": cat.dtype, "flatten": cat.flatten(),
            "shape": (len(rows), second) + tuple(eshape)}


# --------------------------------------------------------------------------------------------------
# observing the library object through its public surface

def values_equal(got, want):
    """Exact value equality after np.asarray (dtype of returned rows is deliberately not compared)."""
    try:
        g = np.asarray(got)
        w = np.asarray(want)
        if g.dtype == object and g.size:
            g = np.array(g.tolist())
        if g.shape != w.shape:
            return False
        if g.size == 0:
            return True
        return bool(np.array_equal(g, w))
    except Exception:
        return False


def is_ragged(obj):
    return type(obj).__name__ == "RaggedArray" and hasattr(obj, "lengths")


def observe_rows(a):
    """Rows of a RaggedArray through integer reads a[0] .. a[len-1]."""
    return [np.asarray(a[i]) for i in range(len(a))]


def diff_against_rows(a, rows, views=("len", "lengths", "rows", "flatten", "starts", "size")):
    """List of human-readable discrepancies between the library object `a` and the model `rows`
    (empty list = coherent).  Only public reads are used."""
    bad = []
    at = model_attrs(rows)
    if not is_ragged(a):
        return ["not a RaggedArray: %r" % (type(a),)]
    if "len" in views and len(a) != at["len"]:
        bad.append("len %r != %r" % (len(a), at["len"]))
    if "lengths" in views and not values_equal(np.asarray(a.lengths), at["lengths"]):
        bad.append("lengths %r != %r" % (np.asarray(a.lengths).tolist(), at["lengths"]))
    if "starts" in views and not values_equal(np.asarray(a.starts), at["starts"]):
        bad.append("starts %r != %r" % (np.asarray(a.starts).tolist(), at["starts"]))
    if "size" in views and int(a.size) != at["size"]:
        bad.append("size %r != %r" % (a.size, at["size"]))
    if "flatten" in views and not values_equal(a.flatten(), at["flatten"]):
        bad.append("flatten %r != %r" % (np.asarray(a.flatten()).tolist(), at["flatten"].tolist()))
    if "rows" in views:
        try:
            got = observe_rows(a)
        except Exception as e:     # noqa
            bad.append("reading rows raised %s: %s" % (type(e).__name__, e))
            got = None
        if got is not None:
            if len(got) != len(rows):
                bad.append("row count %d != %d" % (len(got), len(rows)))
            else:
                for i, (g, w) in enumerate(zip(got, rows)):
                    if not values_equal(g, w):
                        bad.append("row %d: %r (shape %s) != %r (shape %s)" %
                                   (i, g.tolist(), g.shape, w.tolist(), w.shape))
                        break
    return bad
