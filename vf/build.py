"""Build the code under test from /repo's current working tree.

* every call rsyncs /repo/enspara (minus test/ and data/) + setup.py into
  /verif/.build/src so edited .py files are always picked up;
* the three Cython extensions are rebuilt only when a .pyx file or setup.py
  changed (hash stored beside the cached .so files);
* an optional ASan+UBSan variant lives in /verif/.build/asan.

Everything happens under an flock so concurrently started checks do not race.
Run as a script: `python -m vf.build [--asan]`.
"""
import fcntl
import hashlib
import os
import shutil
import subprocess
import sys

VERIF = os.path.dirname(os.path.dirname(os.path.abspath(__file__)))
REPO = os.environ.get("VERIF_REPO", "/repo")
BUILD = os.environ.get("VERIF_BUILD") or os.path.join(VERIF, ".build")
PY = "/venv/bin/python"

PYX = ["enspara/info_theory/libinfo.pyx", "enspara/geometry/libdist.pyx",
       "enspara/msm/libmsm.pyx"]


class BuildError(Exception):
    pass


def _hash_sources(root):
    h = hashlib.sha256()
    for rel in PYX + ["setup.py"]:
        p = os.path.join(root, rel)
        h.update(rel.encode())
        with open(p, "rb") as f:
            h.update(f.read())
    return h.hexdigest()


def _sync(dst):
    os.makedirs(dst, exist_ok=True)
    cmd = ["rsync", "-a", "--delete",
           "--exclude", "__pycache__", "--exclude", "*.pyc",
           "--exclude", "/enspara/test/", "--exclude", "/enspara/data/",
           "--exclude", "*.so", "--exclude", "*.c", "--exclude", "/build/",
           "--exclude", "/.hash",
           "--include", "/enspara/***", "--include", "/setup.py",
           "--exclude", "*",
           REPO + "/", dst + "/"]
    r = subprocess.run(cmd, capture_output=True, text=True)
    if r.returncode != 0:
        raise BuildError("rsync failed: " + r.stderr)


def _build_ext(dst, env_extra=None, tag=""):
    want = _hash_sources(dst)
    hf = os.path.join(dst, ".hash")
    have = None
    if os.path.exists(hf):
        have = open(hf).read().strip()
    sos = []
    for rel in PYX:
        d = os.path.join(dst, os.path.dirname(rel))
        base = os.path.basename(rel)[:-4]
        sos += [f for f in os.listdir(d) if f.startswith(base + ".") and f.endswith(".so")]
    if have == want and len(sos) == 3:
        return False
    # stale products must go: rsync excludes them from --delete
    for rel in PYX:
        d = os.path.join(dst, os.path.dirname(rel))
        base = os.path.basename(rel)[:-4]
        for f in os.listdir(d):
            if f.startswith(base + ".") and (f.endswith(".so") or f.endswith(".c")):
                os.unlink(os.path.join(d, f))
    shutil.rmtree(os.path.join(dst, "build"), ignore_errors=True)
    env = dict(os.environ)
    env.pop("PYTHONPATH", None)
    if env_extra:
        env.update(env_extra)
    r = subprocess.run([PY, "setup.py", "build_ext", "--inplace"], cwd=dst,
                       capture_output=True, text=True, env=env)
    if r.returncode != 0:
        raise BuildError("build_ext%s failed:\n%s\n%s" % (tag, r.stdout[-3000:], r.stderr[-3000:]))
    shutil.rmtree(os.path.join(dst, "build"), ignore_errors=True)
    with open(hf, "w") as f:
        f.write(want)
    return True


def ensure(asan=False):
    """Sync + (re)build. Returns path to put on PYTHONPATH."""
    os.makedirs(BUILD, exist_ok=True)
    lock = open(os.path.join(BUILD, ".lock"), "w")
    fcntl.flock(lock, fcntl.LOCK_EX)
    try:
        name = "asan" if asan else "src"
        dst = os.path.join(BUILD, name)
        _sync(dst)
        extra = None
        if asan:
            extra = {"CFLAGS": "-fsanitize=address,undefined -fno-omit-frame-pointer -O1 -g",
                     "LDFLAGS": "-fsanitize=address,undefined"}
        _build_ext(dst, extra, " (asan)" if asan else "")
        return dst
    finally:
        fcntl.flock(lock, fcntl.LOCK_UN)
        lock.close()


def src_path():
    return os.path.join(BUILD, "src")


if __name__ == "__main__":
    try:
        p = ensure(asan="--asan" in sys.argv)
    except BuildError as e:
        sys.stderr.write(str(e) + "\n")
        sys.exit(2)
    print(p)
