"""Reference models and builders used only by checks/c10.py.

Nothing here imports enspara: every function is plain numpy / python (or
mdtraj for writing the synthetic trajectory files the library is asked to
read back).
"""
import math
import os

import numpy as np


# --------------------------------------------------------------------------
# reference metrics on feature vectors (float64, literal loops)

def ref_euclidean(x, y):
    return math.sqrt(sum((float(a) - float(b)) ** 2 for a, b in zip(x, y)))


def ref_manhattan(x, y):
    return float(sum(abs(float(a) - float(b)) for a, b in zip(x, y)))


def ref_chebyshev(x, y):
    return float(max(abs(float(a) - float(b)) for a, b in zip(x, y)))


def ref_discrete(x, y):
    return 0.0 if all(float(a) == float(b) for a, b in zip(x, y)) else 1.0


def ref_directed(x, y):
    """a dissimilarity that is NOT symmetric (like a divergence): excess of the frame over the center counts once,
    shortfall twice; metric(trajectory, center) is the documented order of the two arguments"""
    return float(sum(max(float(a) - float(b), 0.0) + 2.0 * max(float(b) - float(a), 0.0) for a, b in zip(x, y)))


REF_METRIC = {"euclidean": ref_euclidean, "manhattan": ref_manhattan, "cityblock": ref_manhattan,
              "chebyshev_py": ref_chebyshev, "discrete_py": ref_discrete, "euclidean_py": ref_euclidean,
              "directed_py": ref_directed}


# user-supplied (python) metrics with the (X, y) -> (n,) calling convention the library documents
def py_chebyshev(X, y):
    X = np.asarray(X, dtype=float)
    return np.abs(X - np.asarray(y, dtype=float)).reshape(len(X), -1).max(axis=1)


def py_discrete(X, y):
    X = np.asarray(X)
    return (X != np.asarray(y)).reshape(len(X), -1).any(axis=1).astype(float)


def py_euclidean(X, y):
    X = np.asarray(X, dtype=float)
    return np.sqrt(((X - np.asarray(y, dtype=float)) ** 2).reshape(len(X), -1).sum(axis=1))


def py_directed(X, y):
    X = np.asarray(X, dtype=float)
    d = (X - np.asarray(y, dtype=float)).reshape(len(X), -1)
    return np.maximum(d, 0.0).sum(axis=1) + 2.0 * np.maximum(-d, 0.0).sum(axis=1)


PY_METRIC = {"chebyshev_py": py_chebyshev, "discrete_py": py_discrete, "euclidean_py": py_euclidean,
             "directed_py": py_directed}


def dist_matrix(X, C, metric):
    """Brute-force (n_frames, n_centers) float64 distance matrix."""
    f = REF_METRIC[metric]
    return np.array([[f(x, c) for c in C] for x in X], dtype=float).reshape(len(X), len(C))


# --------------------------------------------------------------------------
# optimal-superposition RMSD in float64 (Kabsch via SVD, proper rotations only)

def kabsch_msd(A, B):
    """Return (msd, scale2): minimal mean squared deviation over rigid motions
    and the natural magnitude (|A|^2+|B|^2)/N that rounding errors scale with."""
    A = np.asarray(A, dtype=float)
    B = np.asarray(B, dtype=float)
    A = A - A.mean(axis=0)
    B = B - B.mean(axis=0)
    H = A.T @ B
    U, S, Vt = np.linalg.svd(H)
    S = S.copy()
    if np.linalg.det(U @ Vt) < 0:
        S[-1] = -S[-1]
    g = float((A ** 2).sum() + (B ** 2).sum())
    msd = (g - 2.0 * float(S.sum())) / len(A)
    return max(msd, 0.0), max(g / len(A), 1e-30)


def rmsd_matrices(X, C):
    """X: (n, atoms, 3), C: (k, atoms, 3) -> (msd[n,k], scale2[n,k])."""
    n, k = len(X), len(C)
    M = np.zeros((n, k))
    S = np.zeros((n, k))
    for i in range(n):
        for j in range(k):
            M[i, j], S[i, j] = kabsch_msd(X[i], C[j])
    return M, S


# --------------------------------------------------------------------------
# flat index <-> (trajectory, frame)

def flat_to_pair(idx, lengths):
    """Literal search, independent of cumulative-sum arithmetic in the library."""
    pos = 0
    for t, L in enumerate(lengths):
        for f in range(int(L)):
            if pos == idx:
                return (t, f)
            pos += 1
    raise IndexError(idx)


def split_by_lengths(flat, lengths):
    out, pos = [], 0
    for L in lengths:
        out.append(list(flat[pos:pos + int(L)]))
        pos += int(L)
    return out


# --------------------------------------------------------------------------
# synthetic molecular data (mdtraj)

def make_topology(names):
    import mdtraj as md
    top = md.Topology()
    ch = top.add_chain()
    for nm in names:
        r = top.add_residue("ALA", ch)
        top.add_atom(nm, md.element.carbon, r)
    return top


# Well-conditioned scaffold (units of 0.1 nm): the first four points span a tetrahedron, so any prefix of
# length >= 4 is far from coplanar even after perturbations of +-3 units.  (The float32 QCP kernel behind
# md.rmsd loses most of its accuracy on planar / collinear structures; that is not this property's subject.)
SCAFFOLD = np.array([(0, 0, 0), (10, 0, 0), (0, 10, 0), (0, 0, 10), (10, 10, 10), (-10, 5, -5), (5, -10, 5)],
                    dtype=np.float64)
EXTRA = np.array([(5, 5, -10), (-5, -10, 5), (-10, -10, -10)], dtype=np.float64)


def base_for(names):
    """Scaffold positions: the i-th 'CA' atom gets SCAFFOLD[i], other atoms get EXTRA points."""
    out, a, b = [], 0, 0
    for nm in names:
        if nm == "CA":
            out.append(SCAFFOLD[a])
            a += 1
        else:
            out.append(EXTRA[b])
            b += 1
    return np.array(out, dtype=np.float64)


def rot_z(x):
    """Exact 90 degree rotation about z."""
    return np.stack([-x[:, 1], x[:, 0], x[:, 2]], axis=1)


def frames_from_spec(spec, base, scale=0.1):
    """spec: list of ["new", [3*n_atoms ints]] | ["copy", j, [dx,dy,dz], rot] -> float32 (n, n_atoms, 3).

    A new frame is the scaffold plus integer perturbations.  A copy is an earlier frame, optionally rotated
    by 90 degrees about z, translated by an integer vector: RMSD 0 to its source after superposition (a
    genuine duplicate for the rmsd metric)."""
    base = np.asarray(base, dtype=np.float64)
    n_atoms = len(base)
    out = []
    for s in spec:
        if s[0] == "new":
            out.append(base + np.array(s[1], dtype=np.float64).reshape(n_atoms, 3))
        else:
            src = out[s[1]]
            if len(s) > 3 and s[3]:
                src = rot_z(src)
            out.append(src + np.array(s[2], dtype=np.float64))
    return (np.array(out, dtype=np.float64).reshape(len(spec), n_atoms, 3) * scale).astype(np.float32)


def write_trajs(dirname, xyz_list, top, fmt, tag="t"):
    """Write each xyz block with mdtraj; returns the file names."""
    import mdtraj as md
    files = []
    for i, xyz in enumerate(xyz_list):
        fn = os.path.join(dirname, "%s%02d.%s" % (tag, i, fmt))
        t = md.Trajectory(np.array(xyz, dtype=np.float32), top)
        if fmt == "h5":
            t.save_hdf5(fn)
        elif fmt == "xtc":
            t.save_xtc(fn)
        else:
            raise ValueError(fmt)
        files.append(fn)
    return files


def write_pdb(dirname, xyz_frame, top, name="top.pdb"):
    import mdtraj as md
    fn = os.path.join(dirname, name)
    md.Trajectory(np.array(xyz_frame, dtype=np.float32).reshape(1, -1, 3), top).save_pdb(fn)
    return fn
