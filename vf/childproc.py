"""Run a batch of sub-cases in a fresh interpreter (crash-safe; optional ASan build).

Parent:  results = run_batch("checks.c13", "child_eval", items, asan=False)
Child :  python -m vf.childproc <module> <func> [--asan]   (items as JSON on stdin)

The child imports enspara through vf.env (same guards as the harness), calls
`func(item)` for each item and prints one JSON line per item *before* moving on,
so if the interpreter dies (signal, sanitizer abort) the parent knows which item
killed it.  `func` returns a JSON-serialisable dict; an exception escaping it is
reported as {"error": "..."}.
"""
import json
import os
import subprocess


def _lift_memory_limit():
    """preexec hook of sanitizer children: undo the shard's soft address-space limit (ASan reserves terabytes)."""
    try:
        import resource
        soft, hard = resource.getrlimit(resource.RLIMIT_AS)
        resource.setrlimit(resource.RLIMIT_AS, (hard, hard))
    except Exception:
        pass
import sys

VERIF = os.path.dirname(os.path.dirname(os.path.abspath(__file__)))

_ASAN_LIB = None


def asan_lib():
    global _ASAN_LIB
    if _ASAN_LIB is None:
        r = subprocess.run(["gcc", "-print-file-name=libasan.so"], capture_output=True, text=True)
        p = os.path.realpath(r.stdout.strip())
        _ASAN_LIB = p if os.path.exists(p) else ""
    return _ASAN_LIB


def run_batch(module, func, items, asan=False, timeout=600, threads=None):
    """Returns (results, died): results[i] is the child's dict for item i (only for
    items it finished); died is None or {"index": i, "rc": rc, "stderr": tail}."""
    from . import build
    env = dict(os.environ)
    env["PYTHONHASHSEED"] = "0"
    if threads is not None:
        env["OMP_NUM_THREADS"] = str(threads)
    cmd = [sys.executable, "-m", "vf.childproc", module, func]
    if asan:
        lib = asan_lib()
        if not lib:
            raise RuntimeError("libasan not found")
        env["LD_PRELOAD"] = lib
        env["ASAN_OPTIONS"] = "detect_leaks=0:abort_on_error=0:exitcode=99:allocator_may_return_null=1"
        env["UBSAN_OPTIONS"] = "print_stacktrace=1:halt_on_error=1:exitcode=98"
        cmd.append("--asan")
    p = subprocess.run(cmd, input=json.dumps(items), capture_output=True, text=True,
                       cwd=VERIF, env=env, timeout=timeout, preexec_fn=_lift_memory_limit)
    results = []
    for line in p.stdout.splitlines():
        if line.startswith("@@R "):
            results.append(json.loads(line[4:]))
    died = None
    if len(results) < len(items):
        died = {"index": len(results), "rc": p.returncode, "stderr": p.stderr[-3000:]}
    elif p.returncode != 0:
        died = {"index": len(items) - 1, "rc": p.returncode, "stderr": p.stderr[-3000:], "after_all": True}
    return results, died


def _child_main():
    module, func = sys.argv[1], sys.argv[2]
    asan = "--asan" in sys.argv
    sys.path.insert(0, VERIF)
    from vf import env, build
    import importlib
    path = os.path.join(build.BUILD, "asan") if asan else None
    src = open(importlib.util.find_spec(module).origin).read()
    env.setup(mpi="fake" if "VF_MPI = 'fake'" in src else "block", path=path)
    mod = importlib.import_module(module)
    fn = getattr(mod, func)
    items = json.loads(sys.stdin.read())
    for it in items:
        try:
            r = fn(it)
        except BaseException as e:   # noqa
            r = {"error": "%s: %s" % (type(e).__name__, str(e)[:500])}
        sys.stdout.write("@@R " + json.dumps(r) + "\n")
        sys.stdout.flush()


if __name__ == "__main__":
    _child_main()
