"""Process environment for checks: pinned BLAS threads, mpi4py handling,
import guard (the enspara imported must be the one built from /repo)."""
import os
import sys
import warnings

_done = False


def setup(mpi="block", path=None):
    """Call before the first `import enspara`.

    mpi='block'  -> `from mpi4py import MPI` raises ImportError, enspara takes
                    its documented no-MPI path (DummyComm).
    mpi='fake'   -> the harness communicator double is installed (C14).
    """
    global _done
    os.environ.setdefault("OPENBLAS_NUM_THREADS", "1")
    os.environ.setdefault("MKL_NUM_THREADS", "1")
    os.environ.setdefault("MPLBACKEND", "Agg")
    from . import build
    src = path or build.src_path()
    if src in sys.path:
        sys.path.remove(src)
    sys.path.insert(0, src)
    if "enspara" in sys.modules and not _done:
        raise HarnessError("enspara imported before env.setup()")
    if mpi == "block":
        sys.modules["mpi4py"] = None
    elif mpi == "fake":
        from . import fakempi
        fakempi.install()
    warnings.filterwarnings("ignore", message="mpi4py isn't installed")
    import logging
    logging.disable(logging.INFO)     # the library logs every k-centers step at INFO
    import enspara
    f = os.path.realpath(enspara.__file__)
    if not f.startswith(os.path.realpath(src) + os.sep):
        raise HarnessError("wrong enspara imported: %s (wanted under %s)" % (f, src))
    _done = True
    return enspara


class HarnessError(Exception):
    pass
